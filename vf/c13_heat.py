"""C13 helper: coarse heat-map policies (zoo key `nar_coarse`) and the per-step score-geometry classes of a beam search.

Why a separate policy family.  BeamSearch ranks  accumulated score of a beam + step log-prob of a child.  Every beam's
best child costs at most log(#feasible) nats (the step distribution is a softmax), so with the spread-initialised neural
policies of the zoo the kept beams of an instance stay within a few nats of each other, and - at toy sizes - whenever
every row of a step is *numerically deterministic* (best log-prob exactly 0.0 in float32, i.e. every alternative more
than ~16.6 nats below) the kept beams tie at score 0.  A beam step that mishandles widely spread scores (ranking the
step log-probs without the accumulated score when every row's best is 0, accumulating in a narrow float type, ...) is
invisible there.  Bound: the lowest kept score sinks by at most log(#feasible) per step, so on TSP a spread above 16.6
nats needs log((n-1)!) > 16.6, i.e. n >= 12 - and in practice ~25-34 nodes, because the leading beam must meanwhile walk
through as many nodes with numerically deterministic rows as the trailing beam spends on sinking.

`nar_coarse` = rl4co NonAutoregressivePolicy (the bundled NonAutoregressiveDecoder: logits of a step = heat-map row of
the current node) on the harness stub encoder CoarseHeatmapEncoder.  The heat-map is a deterministic per-instance
function of td["locs"] (no dependence on batch mates, like a real encoder) on a COARSE grid -g * level, level integer:

  kind "two_speed"  (opts g, d, c, levels, split)
      d nodes are *diffuse* (split "index": the odd node indices below 2d, so the TSP forced starts 0,1,2,3 alternate
      confident / diffuse; split "geo": the d nodes with the smallest frac(7x+3y)), the others *confident*.
      Row of a confident node: the other confident nodes ranked by distance under a seeded linear map of the plane; the
      nearest gets level 0, the next ones strictly increasing levels with increments clamp(ceil(c * distance
      difference), 1, 3), capped at levels-1; diffuse nodes at the cap.  A beam standing on confident nodes is
      numerically deterministic (unique best, alternatives >= g nats below) as long as a ranked neighbour is unvisited.
      Row of a diffuse node: every diffuse node level 0 (uniform: the beam sinks by log(#remaining diffuse) per step),
      confident nodes ranked as above starting at level 1.
      A beam started on a diffuse node therefore sinks by log((d-1)!) in total, becomes deterministic when one diffuse
      node is left and stays so on the confident nodes.  With g just below log((d-1)!) (d, g) = (12, 17), (13, 19.5),
      (14, 22) it survives next to a deterministic beam whose alternatives are >= 2g below, and the first later step at
      which that beam has an alternative exactly g below is a step where all rows are numerically deterministic, the
      kept scores are more than 16.6 apart and the W best expansions are NOT "every beam keeps its best child".
  kind "quant"      (opts g, c, levels)
      the StubHeatmapEncoder's bilinear heat-map of tanh features, row-wise quantised:
      level = clamp(round(c * (row max - raw)), 0, levels-1): exact ties, numerically deterministic rows and -inf /
      exact 0.0 log-probs at small n.

Step classes (step_classes): measured on the decoder outputs the guided reference beam search saw (forward hook on the
policy's decoder module while the HARNESS reference runs - nothing is observed or patched during the run under test).
"""
import math

import torch
import torch.nn as nn

DEFAULTS = {"kind": "two_speed", "g": 20.0, "levels": 24, "c": 12.0, "d": None, "split": "index"}
# (d, g): g just below log((d-1)!) = 17.50 / 19.99 / 22.55, and above log((d-1)!/2)
TUNED = [(12, 17.0), (13, 19.5), (14, 22.0)]
OFF_TUNED = [(12, 20.0), (13, 17.0), (14, 20.0), (10, 17.0), (15, 25.0)]
SPREAD_NATS = 16.6  # float32: alternatives this far below the best leave log-prob exactly 0.0 for the best


class CoarseHeatmapEncoder(nn.Module):
    """-> ([B,N,N] heat-map logits on the grid -g*level, [B,N,E] init embeddings); see the module docstring."""

    def __init__(self, embed_dim, opts=None):
        super().__init__()
        o = dict(DEFAULTS)
        o.update(opts or {})
        self.o = o
        self.lin = nn.Linear(2, embed_dim)
        self.mix = nn.Linear(embed_dim, embed_dim, bias=False)
        self.shear = nn.Linear(2, 2, bias=False)

    def forward(self, td):
        locs = td["locs"]
        h = torch.tanh(self.lin(locs))
        if self.o["kind"] == "quant":
            return self._quant(h), h
        return self._two_speed(locs), h

    def _quant(self, h):
        g, c, L = float(self.o["g"]), float(self.o["c"]), int(self.o["levels"])
        raw = torch.einsum("bie,bje->bij", self.mix(h), h)
        n = raw.shape[-1]
        eye = torch.eye(n, dtype=torch.bool, device=raw.device).unsqueeze(0)
        top = raw.masked_fill(eye, -math.inf).max(-1, keepdim=True).values
        lev = torch.round(c * (top - raw)).clamp(0, L - 1)
        return -g * lev

    def _two_speed(self, locs):
        o = self.o
        g, c, L = float(o["g"]), float(o["c"]), int(o["levels"])
        Bn, n = locs.shape[0], locs.shape[1]
        d = int(o["d"]) if o.get("d") else max(2, (n - 2) // 2)
        idx = torch.arange(n, device=locs.device)
        if o.get("split", "index") == "index":
            D = ((idx % 2 == 1) & (idx < 2 * d)).unsqueeze(0).expand(Bn, n)
        else:
            u = torch.remainder(locs[..., 0] * 7.0 + locs[..., 1] * 3.0, 1.0)
            D = torch.zeros(Bn, n, dtype=torch.bool, device=locs.device)
            D.scatter_(1, u.argsort(-1)[:, :min(d, n)], True)
        z = self.shear(locs)
        dist = (z.unsqueeze(2) - z.unsqueeze(1)).pow(2).sum(-1).sqrt()  # [B,n,n]
        eye = torch.eye(n, dtype=torch.bool, device=locs.device).unsqueeze(0)
        cand = (~D).unsqueeze(1) & ~eye                                 # [B,n(row),n(col)]: confident, not the node itself
        inf = torch.full_like(dist, math.inf)
        sd, order = torch.where(cand, dist, inf).sort(-1)
        fin = torch.isfinite(sd)
        inc = torch.ceil(c * (sd[..., 1:] - sd[..., :-1])).clamp(1, 3)
        inc = torch.where(fin[..., 1:], inc, torch.zeros_like(inc))
        base = D.to(dist.dtype).unsqueeze(-1)                            # diffuse rows rank the confident nodes from level 1
        lev_sorted = base + torch.cat([torch.zeros_like(sd[..., :1]), inc.cumsum(-1)], -1)
        cap = torch.full_like(sd, float(L - 1))
        lev_sorted = torch.where(fin, torch.minimum(lev_sorted, cap), cap)
        lev = torch.zeros_like(dist).scatter(-1, order, lev_sorted)
        lev = torch.where(D.unsqueeze(2) & D.unsqueeze(1), torch.zeros_like(lev), lev)
        return -g * lev


# --------------------------------------------------------------------------- case parameters (Hypothesis)
def coarse_params(draw, st):
    """-> (n, W, B, opts) of a `nar_coarse` TSP case.  3/4 two_speed (n = 2d + 3..6 = 23..36 nodes), 1/4 quant (n 3-9)."""
    W = draw(st.sampled_from([2, 2, 3, 4]))
    B = draw(st.sampled_from([1, 1, 2, 3]))
    if draw(st.integers(0, 3)) == 0:
        n = draw(st.integers(3, 9))
        opts = dict(kind="quant", g=draw(st.sampled_from([20.0, 17.0, 25.0, 40.0])), levels=draw(st.sampled_from([2, 3, 4])),
                    c=draw(st.sampled_from([0.5, 1.0, 2.0, 4.0])))
        return n, min(W, n), B, opts
    d, g = draw(st.sampled_from(TUNED * 4 + OFF_TUNED))
    n = 2 * d + draw(st.integers(3, 6))
    opts = dict(kind="two_speed", g=g, d=d, levels=draw(st.sampled_from([24, 64, 24, 64, 8])),
                c=draw(st.sampled_from([6.0, 12.0, 25.0])), split=draw(st.sampled_from(["index", "index", "index", "geo"])))
    return n, W, B, opts


# --------------------------------------------------------------------------- step classes
class DecoderProbe:
    """Records the (logits, mask) the policy's decoder returns, call by call (use around a HARNESS reference run)."""

    def __init__(self, decoder):
        self.rec = []
        self._h = decoder.register_forward_hook(self._hook)

    def _hook(self, _mod, _args, out):
        self.rec.append((out[0].detach().clone(), out[1].detach().clone()))

    def close(self):
        self._h.remove()


def _impl_logprobs(logits, mask, temperature, tanh_clipping):
    """The documented step distribution (tanh clipping, mask, temperature, log-softmax; no filters) in the dtype of the
    logits - only used to classify rows as numerically deterministic (best log-prob exactly 0.0 in that dtype)."""
    z = logits.clone()
    if tanh_clipping and tanh_clipping > 0:
        z = torch.tanh(z) * float(tanh_clipping)
    z = z.masked_fill(~mask, -math.inf) / float(temperature)
    return torch.log_softmax(z, -1)


def step_classes(bref, rec, ref_log_softmax, temperature, tanh_clipping, tol, skip_from=None):
    """Per decoded step t of a guided reference run (bref = BeamRef, rec = DecoderProbe.rec of that run):
         det        every stacked row's best log-prob is exactly 0.0 in the working dtype and some row has > 1 feasible action
         spread     some instance's previous kept scores differ by more than SPREAD_NATS
         differs    some instance's W best expansions (reference top-W scores) are not "every beam keeps its best child"
                    (score multisets differ by more than tol*(1+|s|))
       -> dict of step counts: det, spread, det&spread, det&spread&differs (= what a 'forced step' shortcut gets wrong),
       differs (any step: plain re-ranking).  Instances tainted at step <= t (skip_from[b]) are left out."""
    W, B = bref.W, bref.B
    out = {"det": 0, "spread": 0, "det_spread": 0, "det_spread_differs": 0, "differs": 0, "max_spread": 0.0}
    for t in range(1, min(len(bref.steps), len(rec) + 1)):
        logits, mask = rec[t - 1]
        lp_impl = _impl_logprobs(logits, mask, temperature, tanh_clipping)
        best_impl = lp_impl.max(-1).values
        det = bool((best_impl == 0).all()) and bool((mask.sum(-1) > 1).any())
        lp = ref_log_softmax(logits, mask, temperature, tanh_clipping)
        best = lp.max(-1).values
        spread = differs = False
        for b in range(B):
            if skip_from is not None and t >= skip_from[b]:
                continue
            prev = [bm.score for bm in bref.steps[t - 1].kept[b]]
            sp = max(prev) - min(prev)
            out["max_spread"] = max(out["max_spread"], sp)
            spread = spread or sp > SPREAD_NATS
            naive = sorted((prev[j] + float(best[j * B + b]) for j in range(W)), reverse=True)
            top = bref.steps[t].top[b]
            if any(abs(naive[i] - top[i]) > tol * (1 + abs(top[i])) for i in range(W)):
                differs = True
        out["det"] += det
        out["spread"] += spread
        out["differs"] += differs
        out["det_spread"] += det and spread
        out["det_spread_differs"] += det and spread and differs
    return out
