"""Reference decode loop, independent of rl4co.utils.decoding (DecodingStrategy / process_logits / get_log_likelihood).

    ref = reference_logprobs(policy, env, td_reset, actions, num_starts=0, forced_first=False,
                             temperature=None, tanh_clipping=None, top_k=0, top_p=0.0, keep_tables=False)

replays a *given* action tensor through the policy's encoder / decoder modules and `env.step`, following the call
sequence of ConstructivePolicy.forward:

    hidden, _ = policy.encoder(td)                                   # once, on the un-expanded batch [B]
    (num_starts k >= 2)  td <- k start-major copies of td  [k*B]      # vf.policies.expand_starts (harness code)
    (forced_first)       td["action"] = actions[:, 0]; td = env.step(td)["next"]       # contributes log-prob 0
    td, env, cache = policy.decoder.pre_decoder_hook(td, env, hidden, num_starts)
    per step:  logits, mask = policy.decoder(td, cache, num_starts)
               reference log-softmax (float64) of   tanh(logits) * C  (if C > 0)  ->  -inf outside mask  ->  / T
                                                    ->  top-k filter  ->  top-p filter   (ref_filter; off by default)
               record log-prob of actions[:, t], mask membership, top-2 gap, entropy;  env.step with actions[:, t]

`temperature` T / `tanh_clipping` C default to the policy's own attributes (what a call without decoding kwargs uses).
Returned `Ref` fields (R = k*B rows if num_starts >= 2 else B; T = actions.shape[1]):

    logp     [R,T] float64   reference log-prob of the given action (0 at a forced first move; -inf if outside the mask)
    in_mask  [R,T] bool      action allowed by the *environment's* td["action_mask"] before the step
    forced   [T]   bool      step was a forced multistart first move
    gap      [R,T] float64   top-1 minus top-2 feasible reference log-prob (inf if one feasible action or forced)
    nfeas    [R,T] int64     number of feasible actions
    entropy  [R,T] float64   entropy of the reference step distribution (0 at forced steps)
    scale    [R,T] float64   max |scaled logit| over feasible actions (after tanh clipping / temperature): float32
                             rounding of log-probs is proportional to it (only material when clipping is off)
    mask_ok  bool            decoder-returned mask == td["action_mask"] at every step (catches layout mix-ups)
    done_at  [R]   int64     number of steps after which the row reported done (T+1 if never)
    all_done_at int          number of steps after which every row was done (None if never) - the bundled loop stops there
    td       final TensorDict
  with top_k > 0 or 0 < top_p < 1 (documented semantics of process_logits: the filters follow masking / temperature and
  precede the softmax, i.e. the step distribution is renormalised over the kept entries; see ref_filter):
    logp / gap / entropy refer to the FILTERED, renormalised distribution (logp = -inf: the action was filtered out)
    nfeas    still counts the mask-feasible actions;   nkept [R,T] int64 counts the entries surviving the filters
    ambig    [R,T] bool      the kept set depends on float rounding (near-tie at the k-th value / at the nucleus cut):
                             comparisons at such steps are don't-care
    ambig_x  [R,T] bool      same with the wider band BAND_X, for comparisons with a run in another batch layout
    argmax   [R,T] int64     most probable action of the reference step distribution (-1 at forced steps)
    tables   (keep_tables)   per step None (forced) or dict(logits=decoder logits [R,N], mask=[R,N] bool, lp=reference
                             log-prob table [R,N] float64)
  with the defaults nkept == nfeas, ambig is all False and every other field is what it was without these options.

The whole thing runs under torch.no_grad(); the policy's train/eval mode is left as is.

    reference_ptrnet(policy, td_reset, actions) -> Ref     same record for PointerNetworkPolicy (own recurrent decoder:
    encoder LSTM once, then LSTMCell -> glimpse -> pointer logits per step through policy.decoder.calc_logits).
"""
import dataclasses
import math
from typing import Optional

import torch

from ..policies import expand_starts


@dataclasses.dataclass
class Ref:
    logp: torch.Tensor
    in_mask: torch.Tensor
    forced: torch.Tensor
    gap: torch.Tensor
    nfeas: torch.Tensor
    entropy: torch.Tensor
    scale: torch.Tensor
    mask_ok: bool
    done_at: torch.Tensor
    all_done_at: Optional[int]
    td: object
    nkept: Optional[torch.Tensor] = None
    ambig: Optional[torch.Tensor] = None
    ambig_x: Optional[torch.Tensor] = None
    argmax: Optional[torch.Tensor] = None
    tables: Optional[list] = None

    def decisive(self, thr=1e-4):
        """[R,T] bool: step is decisive (top-2 gap above thr) or has a single feasible action."""
        return self.gap > thr


BAND = 1e-5    # relative width of the "rounding could decide this" band around a filter cut (float32 eps ~ 1.2e-7)
BAND_X = 2e-3  # same, for comparisons ACROSS batch layouts ([B,S,..] vs [S*B,..]): float32 rounding differs between
#                layouts and is amplified by the spread-initialised encoders (log-probs measured up to 5e-4 apart)


def ref_filter(z, top_k=0, top_p=0.0, bands=(BAND,)):
    """Kept set of the documented top-k / top-p filters (process_logits: top-k first, then top-p on what is left).

    z [R,N] float64: scaled logits (after tanh clipping / temperature), -inf outside the mask.
    top-k  keeps every entry >= the k-th largest value (k capped at N; entries tying with the k-th are all kept).
    top-p  (0 < p < 1) keeps an entry iff the mass, under the softmax of the entries left by top-k, of the entries
           ranked strictly above it is < p: the smallest high-probability prefix whose mass reaches p.
    -> keep [R,N] bool, [ambig [R] bool for band in bands].  ambig: the kept set hinges on rounding (the code under test
    works in the policy's dtype, usually float32): a feasible entry lies below the k-th value by less than
    band*(1+max|z|), or the optimistic nucleus (only entries above by more than the band count as "above", cut at
    p+band) differs from the pessimistic one (every other entry not below by more than the band counts as "above", cut
    at p-band); the latter also flags blocks of tied entries straddling the nucleus cut, whose order is arbitrary.
    (Entries tying EXACTLY with the k-th value in float64 also tie in float32 - same inputs, monotone maps - and are
    kept by both; they are not ambiguous.)"""
    R, N = z.shape
    ninf = -math.inf
    feas = z > ninf
    keep = feas.clone()
    ambig = [torch.zeros(R, dtype=torch.bool) for _ in bands]
    mag = 1 + torch.where(feas, z.abs(), torch.zeros_like(z)).max(-1).values  # [R]
    if top_k and top_k > 0:
        kk = min(int(top_k), N)
        kth = torch.topk(z, kk, dim=-1).values[:, -1]  # -inf if fewer than k feasible entries: nothing is removed
        keep = feas & (z >= kth.view(R, 1))
        for i, band in enumerate(bands):
            near = feas & ~keep & (z >= (kth - band * mag).view(R, 1))
            ambig[i] |= near.any(-1)
    if top_p and 0.0 < top_p < 1.0:
        zz = torch.where(keep, z, torch.full_like(z, ninf))
        d = zz - zz.max(-1, keepdim=True).values
        q = torch.exp(d)
        q = q / q.sum(-1, keepdim=True)
        zi, zj, qj = zz.view(R, N, 1), zz.view(R, 1, N), q.view(R, 1, N)
        other = ~torch.eye(N, dtype=torch.bool).view(1, N, N)
        above = (qj * (zj > zi)).sum(-1)                          # mass ranked strictly above entry i
        exact = keep & (above < top_p)
        for i, band in enumerate(bands):
            b3 = (band * mag).view(R, 1, 1)
            above_lo = (qj * (zj > zi + b3)).sum(-1)              # ... certainly above
            above_hi = (qj * ((zj >= zi - b3) & other)).sum(-1)   # ... possibly above (near-ties, arbitrary tie order)
            opt = keep & (above_lo < top_p + band)
            pes = keep & (above_hi < top_p - band)
            ambig[i] |= (opt != pes).any(-1)
        keep = exact
    return keep, ambig


def ref_log_softmax(logits, mask, temperature=1.0, tanh_clipping=0.0, with_scale=False, top_k=0, top_p=0.0,
                    with_filter=False):
    """float64 reference of the documented step distribution: tanh clipping, masking, temperature, [top-k, top-p,]
    softmax.  with_filter: additionally return (nfeas [R] mask-feasible count, ambig [R] bool at BAND, ambig_x [R] bool
    at BAND_X) - see ref_filter."""
    z = logits.detach().to(torch.float64).clone()
    if tanh_clipping and tanh_clipping > 0:
        z = torch.tanh(z) * float(tanh_clipping)
    z = z / float(temperature)
    scale = torch.where(mask, z.abs(), torch.zeros_like(z)).max(-1).values
    z = torch.where(mask, z, torch.full_like(z, -math.inf))
    filtering = bool((top_k and top_k > 0) or (top_p and 0.0 < top_p < 1.0))
    nfeas = ambig = ambig_x = None
    if with_filter:
        nfeas = (z > -math.inf).sum(-1)
        ambig = torch.zeros(z.shape[0], dtype=torch.bool)
        ambig_x = ambig.clone()
    if filtering:
        keep, (ambig, ambig_x) = ref_filter(z, top_k, top_p, (BAND, BAND_X))
        z = torch.where(keep, z, torch.full_like(z, -math.inf))
    m = z.max(-1, keepdim=True).values
    d = z - m
    lp = d - torch.log(torch.exp(d).sum(-1, keepdim=True))
    out = (lp, scale) if with_scale else (lp,)
    if with_filter:
        out = out + (nfeas, ambig, ambig_x)
    return out if len(out) > 1 else lp


def _step_record(lp, env_mask, a):
    """lp [R,N] float64 reference log-probs, env_mask [R,N] bool, a [R] long."""
    R = lp.shape[0]
    logp = lp.gather(1, a.view(R, 1)).squeeze(1)
    inm = env_mask.gather(1, a.view(R, 1)).squeeze(1)
    feas = lp > -math.inf
    nfe = feas.sum(-1)
    if lp.shape[1] >= 2:
        top2 = torch.topk(lp, 2, dim=-1).values
        gap = top2[:, 0] - top2[:, 1]  # inf when the runner-up is infeasible
    else:
        gap = torch.full((R,), math.inf, dtype=torch.float64)
    p = lp.exp()
    ent = -(torch.where(feas, p * lp, torch.zeros_like(lp))).sum(-1)
    return logp, inm, gap, nfe, ent


@torch.no_grad()
def reference_logprobs(policy, env, td_reset, actions, num_starts=0, forced_first=False, temperature=None,
                       tanh_clipping=None, top_k=0, top_p=0.0, keep_tables=False):
    T_ = float(policy.temperature if temperature is None else temperature)
    C_ = float(policy.tanh_clipping if tanh_clipping is None else tanh_clipping)
    td = td_reset.clone()
    k = int(num_starts)
    assert k == 0 or k >= 2, "num_starts is 0 (plain) or >= 2"
    assert not (forced_first and k == 0)

    hidden, _ = policy.encoder(td)
    if k >= 2:
        td = expand_starts(td, k)
    R = td.batch_size[0]
    A = actions.long()
    assert A.shape[0] == R, f"actions have {A.shape[0]} rows, decode batch has {R}"
    T = A.shape[1]
    f64 = torch.float64
    logp = torch.zeros(R, T, dtype=f64)
    inm = torch.zeros(R, T, dtype=torch.bool)
    gap = torch.full((R, T), math.inf, dtype=f64)
    nfe = torch.zeros(R, T, dtype=torch.long)
    ent = torch.zeros(R, T, dtype=f64)
    scl = torch.zeros(R, T, dtype=f64)
    forced = torch.zeros(T, dtype=torch.bool)
    done_at = torch.full((R,), T + 1, dtype=torch.long)
    all_done_at = None
    mask_ok = True
    nkept = torch.zeros(R, T, dtype=torch.long)
    ambig = torch.zeros(R, T, dtype=torch.bool)
    ambig_x = torch.zeros(R, T, dtype=torch.bool)
    amax = torch.full((R, T), -1, dtype=torch.long)
    tables = [None] * T if keep_tables else None

    def note_done(td, t_after):
        nonlocal all_done_at
        d = td["done"].reshape(R, -1).all(-1)
        newly = d & (done_at > T)
        done_at[newly] = t_after
        if all_done_at is None and bool(d.all()):
            all_done_at = t_after

    t0 = 0
    if forced_first:
        em = td["action_mask"]
        inm[:, 0] = em.gather(1, A[:, :1]).squeeze(1)
        nfe[:, 0] = em.sum(-1)
        nkept[:, 0] = nfe[:, 0]
        forced[0] = True
        td.set("action", A[:, 0].clone())
        td = env.step(td)["next"]
        note_done(td, 1)
        t0 = 1

    td, env, cache = policy.decoder.pre_decoder_hook(td, env, hidden, k)
    for t in range(t0, T):
        env_mask = td["action_mask"].clone()
        logits, mask = policy.decoder(td, cache, k)
        logits = logits.detach().clone()
        mask = mask.clone()
        if mask.shape != env_mask.shape or not torch.equal(mask, env_mask):
            mask_ok = False
        lp, scl[:, t], nf, ambig[:, t], ambig_x[:, t] = ref_log_softmax(logits, mask, T_, C_, with_scale=True, top_k=top_k,
                                                                        top_p=top_p, with_filter=True)
        logp[:, t], inm[:, t], gap[:, t], nkept[:, t], ent[:, t] = _step_record(lp, env_mask, A[:, t])
        nfe[:, t] = nf  # mask-feasible entries (== nkept unless a filter is active)
        amax[:, t] = lp.argmax(-1)
        if keep_tables:
            tables[t] = dict(logits=logits.clone(), mask=mask.clone(), lp=lp)
        td.set("action", A[:, t].clone())
        td = env.step(td)["next"]
        note_done(td, t + 1)
    return Ref(logp, inm, forced, gap, nfe, ent, scl, mask_ok, done_at, all_done_at, td, nkept, ambig, ambig_x, amax,
               tables)


@torch.no_grad()
def reference_ptrnet(policy, td_reset, actions):
    """PointerNetworkPolicy: embedded inputs -> encoder LSTM -> per step LSTMCell / glimpse / pointer logits
    (policy.decoder.calc_logits, which already applies the pointer's tanh clipping and masks visited nodes)."""
    locs = td_reset["locs"]
    B, N, D = locs.shape
    A = actions.long()
    T = A.shape[1]
    emb = torch.mm(locs.transpose(0, 1).contiguous().view(-1, D), policy.embedding).view(N, B, -1)
    h0 = c0 = torch.zeros(1, B, emb.shape[-1], dtype=emb.dtype)
    enc_h, (h_t, c_t) = policy.encoder(emb, (h0, c0))
    hidden = (h_t[-1], c_t[-1])
    x = policy.decoder_in_0.unsqueeze(0).repeat(B, 1)
    mask = torch.ones(B, N, dtype=torch.bool)
    f64 = torch.float64
    logp = torch.zeros(B, T, dtype=f64)
    inm = torch.zeros(B, T, dtype=torch.bool)
    gap = torch.full((B, T), math.inf, dtype=f64)
    nfe = torch.zeros(B, T, dtype=torch.long)
    ent = torch.zeros(B, T, dtype=f64)
    scl = torch.zeros(B, T, dtype=f64)
    for t in range(T):
        logits, hidden = policy.decoder.calc_logits(x, hidden, mask.clone(), enc_h)
        lp, scl[:, t] = ref_log_softmax(logits, mask, 1.0, 0.0, with_scale=True)
        logp[:, t], inm[:, t], gap[:, t], nfe[:, t], ent[:, t] = _step_record(lp, mask, A[:, t])
        mask = mask.clone()
        mask[torch.arange(B), A[:, t]] = False
        x = emb[A[:, t], torch.arange(B)]
    done_at = torch.full((B,), N, dtype=torch.long)
    return Ref(logp, inm, torch.zeros(T, dtype=torch.bool), gap, nfe, ent, scl, True, done_at, N, None)
