"""Reference for rl4co.models.zoo.matnet.policy.MultiStageFFSPPolicy (own decoding loop), independent of the policy's
loop, of MultiStageFFSPDecoder.forward and of rl4co.utils.decoding (process_logits / decode_logprobs).

    ref = reference_ffsp(policy, env, inst, actions, num_starts=1, layout="policy", temperature=1.0)

replays a *given* action tensor [R,T] (R = num_starts * B, start-major) on a fresh episode of `env`:

    td = env.reset(inst)                                              # fresh IndexTables
    per stage s:  emb_s = policy.encoders[s](td with cost_matrix = run-time table of stage s)
                  cache_s = MatNetFFSPDecoder._precompute_cache(policy.decoders[s], emb_s)   # parent method: returns the
                                                                      # cache instead of storing it on the module
    layout "policy" (what the policy does):  encoders on the B rows, then td <- num_starts start-major copies
                  (vf.policies.expand_starts, harness code) + env.pre_step (machine order of every start), the stage
                  decoders are called with num_starts (they regroup the [S*B] rows to [B,S] themselves)
    layout "plain" (cross-layout reference for num_starts >= 2):  td is expanded first, the encoders run on all R rows
                  and the decoders are called with num_starts=0 - no regrouping anywhere
    per step:     logits_s, mask_s = AttentionModelDecoder.forward(policy.decoders[s], td, cache_s, num_starts)  for all s
                  row r uses stage td["stage_idx"][r];  float64 log-softmax of  tanh(logits)*C / temperature  over
                  td["action_mask"];  record log-prob / mask membership / top-2 gap of actions[:, t];  env.step

Returned vf.models.decode.Ref (logp, in_mask, gap, nfeas, entropy, scale, mask_ok, done_at, all_done_at, td) plus
`argmax` [R,T] (reference greedy choice) and `stage` [R,T] (td["stage_idx"] before the step).  The env object serves one episode at a time (GOTCHAS): call this only after
the policy call under test has returned.

    FFSPOrderModel(inst, S, M, order)    (time, machine-slot) sweep model of the MatNet flow-shop decision process in
                                          which the machines of every stage are visited in the order `order` (a
                                          permutation of range(M)); the identity gives vf.oracles.scheduling.FFSPModel.
    start_order(M, s)                     machine order of start s of a multi-start decode: the s-th permutation of
                                          range(M) in lexicographic order (documented POMO-style augmentation of the
                                          FFSP env: every start sweeps the machines of a stage in another order)
"""
import itertools
import math

import torch

from ..policies import expand_starts
from .decode import Ref, _step_record, ref_log_softmax


def start_order(M, s):
    return list(itertools.islice(itertools.permutations(range(M)), s, s + 1))[0]


class FFSPOrderModel:
    def __init__(self, inst, S, M, order=None):
        self.R = inst["run_time"]
        self.J, self.S, self.M = len(self.R), S, M
        self.order = list(order) if order is not None else list(range(M))
        assert sorted(self.order) == list(range(M))
        self.T = S * M
        self.t, self.s = 0, 0
        self.mfree = [0] * self.T
        self.jready = [0] * self.J
        self.jloc = [0] * self.J
        self.start = [[-999999] * (self.J + 1) for _ in range(self.T)]
        self.waits = 0

    @property
    def done(self):
        return all(l == self.S for l in self.jloc)

    def stage(self):
        return self.s // self.M

    def machine(self):
        return self.stage() * self.M + self.order[self.s % self.M]

    def mask(self):
        st = self.stage()
        avail = [self.jloc[j] == st and self.jready[j] <= self.t for j in range(self.J)]
        wait = any(self.jloc[j] < st for j in range(self.J)) or \
            any(self.jloc[j] == st and self.jready[j] > self.t for j in range(self.J)) or self.done
        return avail + [wait]

    def step(self, a):
        if self.done:
            return
        m = self.machine()
        if a < self.J:
            self.jloc[a] += 1
            self.start[m][a] = self.t
            L = self.R[a][m]
            self.mfree[m] = self.t + L
            self.jready[a] = self.t + L
        else:
            self.waits += 1
            self.start[m][self.J] = self.t
        if self.done:
            return
        while True:
            self.s += 1
            if self.s == self.T:
                self.s = 0
                self.t += 1
            st = self.stage()
            if self.mfree[self.machine()] <= self.t and \
                    any(self.jloc[j] == st and self.jready[j] <= self.t for j in range(self.J)):
                break


@torch.no_grad()
def reference_ffsp(policy, env, inst, actions, num_starts=1, layout="policy", temperature=1.0):
    from rl4co.models.zoo.am.decoder import AttentionModelDecoder
    from rl4co.models.zoo.matnet.decoder import MatNetFFSPDecoder

    assert layout in ("policy", "plain")
    k = int(num_starts)
    S = int(policy.stage_cnt)
    A = actions.long()
    td = env.reset(inst.clone())
    B = td.batch_size[0]
    R = B * max(k, 1)
    assert A.shape[0] == R, f"actions have {A.shape[0]} rows, decode batch has {R}"
    T = A.shape[1]
    if layout == "plain" and k > 1:
        td = env.pre_step(expand_starts(td, k))
    run = td["run_time"].chunk(S, dim=-1)
    caches = []
    for s in range(S):
        tde = td.clone()
        tde.set("cost_matrix", run[s])
        emb, _ = policy.encoders[s](tde)
        caches.append(MatNetFFSPDecoder._precompute_cache(policy.decoders[s], emb))
    if layout == "policy" and k > 1:
        td = env.pre_step(expand_starts(td, k))
    ns = k if layout == "policy" else 0

    f64 = torch.float64
    logp = torch.zeros(R, T, dtype=f64)
    inm = torch.zeros(R, T, dtype=torch.bool)
    gap = torch.full((R, T), math.inf, dtype=f64)
    nfe = torch.zeros(R, T, dtype=torch.long)
    ent = torch.zeros(R, T, dtype=f64)
    scl = torch.zeros(R, T, dtype=f64)
    amax = torch.zeros(R, T, dtype=torch.long)
    stg = torch.zeros(R, T, dtype=torch.long)
    done_at = torch.full((R,), T + 1, dtype=torch.long)
    d0 = td["done"].reshape(R, -1).all(-1)
    done_at[d0] = 0
    all_done_at = 0 if bool(d0.all()) else None
    mask_ok = True
    ar = torch.arange(R)
    for t in range(T):
        env_mask = td["action_mask"].clone().bool()
        stage = td["stage_idx"].clone().long()
        stg[:, t] = stage
        logits = None
        for s in range(S):
            dec = policy.decoders[s]
            lg, mk = AttentionModelDecoder.forward(dec, td, caches[s], ns)
            if mk.shape != env_mask.shape or not torch.equal(mk.bool(), env_mask):
                mask_ok = False
            lg = lg.detach().to(f64).clone()
            C = float(dec.tanh_clipping)
            if C > 0:
                lg = torch.tanh(lg) * C
            logits = lg if logits is None else torch.where((stage == s)[:, None], lg, logits)
        lp, scl[:, t] = ref_log_softmax(logits, env_mask, float(temperature), 0.0, with_scale=True)
        logp[:, t], inm[:, t], gap[:, t], nfe[:, t], ent[:, t] = _step_record(lp, env_mask, A[:, t])
        amax[:, t] = lp.argmax(-1)
        td.set("action", A[:, t].clone())
        td = env.step(td)["next"]
        d = td["done"].reshape(R, -1).all(-1)
        newly = d & (done_at > T)
        done_at[newly] = t + 1
        if all_done_at is None and bool(d.all()):
            all_done_at = t + 1
    ref = Ref(logp, inm, torch.zeros(T, dtype=torch.bool), gap, nfe, ent, scl, mask_ok, done_at, all_done_at, td)
    ref.argmax = amax
    ref.stage = stg
    return ref
