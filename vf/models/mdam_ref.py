"""Reference for rl4co.models.zoo.mdam.MDAMPolicy (own multi-decoder loop), independent of MDAMDecoder.forward,
decode_logprobs and get_log_likelihood.

    refs = reference_mdam(policy, env, td_reset, actions_per_path)      -> list of vf.models.decode.Ref, one per path

replays, for every decoder path i, the *given* actions [B,T_i] of that path through the bundled modules and env.step:

    emb = policy.init_embedding(td);  enc, _, attn, V, h_old = policy.encoder(emb)          # once
    fixed_i = policy.decoder._precompute(enc, path_index=i)
    per step:  scores, mask = policy.decoder._get_logprobs(fixed_i, td_i, i)                # tanh-clipped, masked scores
               reference float64 log-softmax of the scores over td_i["action_mask"]
               record log-prob / mask membership / top-2 gap of actions[:, t];  td_i <- env.step(td_i with the action)

(The decoder re-encodes every `eg_step_gap` = 200 steps; toy episodes are far shorter, asserted.)  Each Ref carries, in
addition, `raw` [B,T] float64: the clipped (un-normalised) score of the given action - what a sum without the softmax
normaliser would add up - and `argmax` [B,T] (reference greedy choice).
"""
import math

import torch

from .decode import Ref, _step_record, ref_log_softmax


@torch.no_grad()
def reference_mdam(policy, env, td_reset, actions_per_path):
    dec = policy.decoder
    td0 = td_reset.clone()
    emb = policy.init_embedding(td0)
    enc, _, attn, V, h_old = policy.encoder(emb)
    B = td0.batch_size[0]
    f64 = torch.float64
    out = []
    for i, A in enumerate(actions_per_path):
        A = A.long()
        T = A.shape[1]
        assert A.shape[0] == B and T < dec.eg_step_gap
        td = td0.clone()
        fixed = dec._precompute(enc.clone(), path_index=i)
        logp = torch.zeros(B, T, dtype=f64)
        raw = torch.zeros(B, T, dtype=f64)
        inm = torch.zeros(B, T, dtype=torch.bool)
        gap = torch.full((B, T), math.inf, dtype=f64)
        nfe = torch.zeros(B, T, dtype=torch.long)
        ent = torch.zeros(B, T, dtype=f64)
        scl = torch.zeros(B, T, dtype=f64)
        amax = torch.zeros(B, T, dtype=torch.long)
        done_at = torch.full((B,), T + 1, dtype=torch.long)
        all_done_at = None
        mask_ok = True
        for t in range(T):
            env_mask = td["action_mask"].clone()
            scores, mask = dec._get_logprobs(fixed, td, i)
            scores = scores[:, 0, :].detach().clone()
            if mask.shape != env_mask.shape or not torch.equal(mask, env_mask):
                mask_ok = False
            z = torch.where(env_mask, scores.to(f64), torch.zeros_like(scores, dtype=f64))
            raw[:, t] = z.gather(1, A[:, t:t + 1]).squeeze(1)
            lp, scl[:, t] = ref_log_softmax(scores, env_mask, 1.0, 0.0, with_scale=True)
            logp[:, t], inm[:, t], gap[:, t], nfe[:, t], ent[:, t] = _step_record(lp, env_mask, A[:, t])
            amax[:, t] = lp.argmax(-1)
            td.set("action", A[:, t].clone())
            td = env.step(td)["next"]
            d = td["done"].reshape(B, -1).all(-1)
            newly = d & (done_at > T)
            done_at[newly] = t + 1
            if all_done_at is None and bool(d.all()):
                all_done_at = t + 1
        ref = Ref(logp, inm, torch.zeros(T, dtype=torch.bool), gap, nfe, ent, scl, mask_ok, done_at, all_done_at, td)
        ref.raw = raw
        ref.argmax = amax
        out.append(ref)
    return out
