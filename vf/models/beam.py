"""Reference beam search: per-instance, list-of-prefixes; independent of rl4co.utils.decoding.BeamSearch.

    ref = reference_beam_search(policy, env, td_reset, width, starts=None, follow=None, max_steps=None,
                                temperature=None, tanh_clipping=None, top_k=0, top_p=0.0)

What the bundled BeamSearch does (read from rl4co/utils/decoding.py, mirrored here in *what* is compared, not how):

  * the encoder runs once on the un-expanded batch [B]; the batch is repeated W times start-major (beam slot j of
    instance b lives at row j*B + b) and every slot takes a *forced* first move  env.select_start_nodes(td, W)
    (log-prob 0, accumulated score 0);
  * at every later step the decoder is called on all W*B rows, the step distribution is the masked log-softmax of the
    (tanh-clipped, temperature-scaled) logits, and for every instance the W*N candidates
    "slot j extended by node a" are ranked by   accumulated score of slot j  +  log p(a | state of slot j);
    infeasible actions have -inf; the W best become the new slots;
  * the loop runs until *every* row of the batch is done; rows (beams) that already finished keep being expanded like
    any other row: the environment's mask leaves them their padding action(s), whose log-prob (0 if it is the only
    feasible action) is added to the accumulated score.  So the compared quantity is the sum of the log-probs of ALL
    steps taken so far, post-finish padding steps included (forced first move = 0).

The reference keeps, per instance, a python list of beams (prefix tuple, float64 score, row of its environment state).
Candidates are enumerated explicitly from the decoder's mask, scored in float64 (vf.models.decode.ref_log_softmax on the
decoder's logits), sorted, and the kept beams' states are produced by env.step from the *parent's* state (gathered with
plain python row lists - no index arithmetic shared with the code under test).

Two modes
  free    (follow=None): kept = reference top-W (ties broken by (parent slot, action)); runs until every row is done
          (or max_steps).
  guided  (follow=[step1, step2, ...], step_t = list over instances of the W prefixes (tuples) an implementation kept
          after step t, in slot order): the reference still ranks all candidates of the *given* previous beams, records
          its own top-W scores and the W-th/(W+1)-th gap, and then continues from the implementation's kept prefixes -
          provided each of them is a candidate (a feasible one-node extension of a previous beam, with multiplicity).
          Otherwise `invalid` = (step, instance, slot, prefix) is set and the run stops there.  This makes the per-step
          statement "kept beams are the highest scoring feasible expansions of the previous beams" checkable at every
          step, also after near-ties.

Decoding filters (top_k > 0 / 0 < top_p < 1, documented semantics of process_logits, vf.models.decode.ref_filter): the step
distribution of every beam is the log-softmax over the entries its filters keep; filtered-out actions are no candidates
(-inf).  Every beam keeps at least its most probable action, so an instance always has >= W finite candidates.  A beam
whose kept set hinges on float rounding (ref_filter's ambiguity band) makes its instance *tainted* from that step on
(`tainted_at[b]`): the scores an implementation ranks there may legitimately differ by a whole renormalisation, so for a
tainted instance the guided mode only keeps following the implementation's prefixes (any mask-feasible expansion is
accepted, filtered-out ones with score -inf) and the caller must not assert anything about its scores.

Returned BeamRef
    W, B
    tainted_at  list over instances: first step whose candidate set was rounding-dependent (None: never)
    starts      [W*B] long      forced first moves used (start-major)
    steps       list of BeamStep, steps[0] = forced start step, steps[t] = t-th decoded step
    invalid     None | (t, b, slot, prefix)
    mask_ok     decoder mask == td["action_mask"] at every step
    all_done_at number of steps (forced one included) after which every row was done (None if never)
    done_at     [W*B] long      step count after which the beam *currently in that slot* reported done (0 = not yet)
    reordered   bool            some kept beam's parent slot != its own slot (real re-ordering)
    td          final TensorDict in slot layout

BeamStep (lists are indexed by instance b)
    kept[b]     list of W Beam(prefix, score, parent, logp)   (slot order; `parent` = slot of the previous step,
                `logp` = reference log-prob of the last action, 0 for the forced move)
    top[b]      the reference's own W best candidate scores (descending) given the previous beams
    gap[b]      W-th minus (W+1)-th best candidate score (inf if there are no more than W candidates)
    ncand[b]    number of feasible candidates
    nfeas[b]    list of W ints: feasible actions of each previous beam

Runs under torch.no_grad(); policy train/eval mode is left as is.
"""
import dataclasses
import math
from typing import Optional

import torch

from ..policies import expand_starts
from .decode import ref_log_softmax


@dataclasses.dataclass
class Beam:
    prefix: tuple
    score: float
    parent: int
    logp: float


@dataclasses.dataclass
class BeamStep:
    kept: list
    top: list
    gap: list
    ncand: list
    nfeas: list


@dataclasses.dataclass
class BeamRef:
    W: int
    B: int
    starts: torch.Tensor
    steps: list
    invalid: Optional[tuple]
    mask_ok: bool
    all_done_at: Optional[int]
    done_at: torch.Tensor
    reordered: bool
    td: object
    tainted_at: Optional[list] = None

    def kept_scores(self, t, b):
        return sorted((bm.score for bm in self.steps[t].kept[b]), reverse=True)

    def sequences(self):
        """[W*B, T] long tensor of the final kept prefixes in slot layout."""
        last = self.steps[-1]
        rows = [None] * (self.W * self.B)
        for b in range(self.B):
            for j, bm in enumerate(last.kept[b]):
                rows[j * self.B + b] = list(bm.prefix)
        return torch.tensor(rows, dtype=torch.long)


def _gather_rows(td, rows):
    """New TensorDict whose i-th row is row rows[i] of td (python list driven)."""
    return torch.stack([td[int(r)] for r in rows], 0)


@torch.no_grad()
def reference_beam_search(policy, env, td_reset, width, starts=None, follow=None, max_steps=None, temperature=None,
                          tanh_clipping=None, top_k=0, top_p=0.0):
    T_ = float(policy.temperature if temperature is None else temperature)
    C_ = float(policy.tanh_clipping if tanh_clipping is None else tanh_clipping)
    W = int(width)
    td = td_reset.clone()
    B = td.batch_size[0]
    R = W * B

    hidden, _ = policy.encoder(td)
    if starts is None:
        starts = env.select_start_nodes(td.clone(), num_starts=W)
    starts = starts.long().clone()
    assert starts.shape == (R,), f"forced starts have shape {tuple(starts.shape)}, expected ({R},)"
    td = expand_starts(td, W)
    td.set("action", starts.clone())
    td = env.step(td)["next"]

    done_at = [0] * R
    all_done_at = None

    def note_done(td, t_after, parent_rows=None):
        """done_at follows the beam (not the slot): a kept beam inherits its parent's finishing step."""
        nonlocal all_done_at, done_at
        d = td["done"].reshape(R, -1).all(-1).tolist()
        prev = done_at if parent_rows is None else [done_at[p] for p in parent_rows]
        done_at = [((prev[r] if prev[r] > 0 else t_after) if d[r] else 0) for r in range(R)]
        if all_done_at is None and all(d):
            all_done_at = t_after

    note_done(td, 1)
    beams = [[Beam((int(starts[j * B + b]),), 0.0, j, 0.0) for j in range(W)] for b in range(B)]
    steps = [BeamStep(kept=[list(bs) for bs in beams], top=[[0.0] * W for _ in range(B)],
                      gap=[math.inf] * B, ncand=[W] * B, nfeas=[[1] * W for _ in range(B)])]
    td, env, cache = policy.decoder.pre_decoder_hook(td, env, hidden, W)
    mask_ok = True
    invalid = None
    reordered = False
    filtering = bool((top_k and top_k > 0) or (top_p and 0.0 < top_p < 1.0))
    tainted_at = [None] * B
    t = 1
    while True:
        if follow is not None:
            if t - 1 >= len(follow):
                break
        else:
            if bool(td["done"].all()):
                break
            if max_steps is not None and t - 1 >= max_steps:
                break
        env_mask = td["action_mask"].clone()
        logits, mask = policy.decoder(td, cache, W)
        logits = logits.detach().clone()
        mask = mask.clone()
        if mask.shape != env_mask.shape or not torch.equal(mask, env_mask):
            mask_ok = False
        if filtering:
            # [R, N] float64, -inf outside the mask and outside the kept set of the filters; amb [R]: kept set hinges on rounding
            lp, _nf, amb, _ambx = ref_log_softmax(logits, mask, T_, C_, top_k=top_k, top_p=top_p, with_filter=True)
            for r in torch.nonzero(amb).flatten().tolist():
                if tainted_at[r % B] is None:
                    tainted_at[r % B] = t
        else:
            lp = ref_log_softmax(logits, mask, T_, C_)  # [R, N] float64, -inf outside the mask

        st = BeamStep(kept=[], top=[], gap=[], ncand=[], nfeas=[])
        parent_rows = [None] * R
        actions = [None] * R
        for b in range(B):
            loose = tainted_at[b] is not None  # tainted: every mask-feasible expansion stays followable (score may be -inf)
            while True:
                cands = []  # (score, parent slot, action, logp)
                nfe = []
                for j, bm in enumerate(beams[b]):
                    row = lp[j * B + b]
                    feas = torch.nonzero(mask[j * B + b] if loose else row > -math.inf).flatten().tolist()
                    nfe.append(len(feas))
                    for a in feas:
                        l = float(row[a])
                        cands.append((bm.score + l, j, int(a), l))
                if loose or len(cands) >= W:
                    break
                # fewer than W finite candidates (cannot happen while every beam keeps its best action): what an
                # implementation keeps beyond them is undefined -> don't-care from here on
                tainted_at[b] = t
                loose = True
            cands.sort(key=lambda c: (-c[0] if c[0] == c[0] else math.inf, c[1], c[2]))
            st.ncand.append(len(cands))
            st.nfeas.append(nfe)
            st.top.append([c[0] for c in cands[:W]])
            st.gap.append(math.inf if (loose or len(cands) <= W) else cands[W - 1][0] - cands[W][0])
            if follow is None:
                chosen = cands[:W]
            else:
                # match the followed prefixes against the candidate multiset
                pool = {}
                for c in cands:
                    pool.setdefault(beams[b][c[1]].prefix + (c[2],), []).append(c)
                chosen = []
                want = follow[t - 1][b]
                for slot in range(W):
                    p = tuple(int(x) for x in want[slot]) if slot < len(want) else None
                    lst = pool.get(p)
                    if not lst:
                        invalid = (t, b, slot, p)
                        break
                    chosen.append(lst.pop(0))
                if invalid is not None:
                    break
            kept = []
            for slot, (s, j, a, l) in enumerate(chosen):
                kept.append(Beam(beams[b][j].prefix + (a,), s, j, l))
                parent_rows[slot * B + b] = j * B + b
                actions[slot * B + b] = a
                if j != slot:
                    reordered = True
            st.kept.append(kept)
        if invalid is not None:
            break
        td = _gather_rows(td, parent_rows)
        td.set("action", torch.tensor(actions, dtype=torch.long))
        td = env.step(td)["next"]
        note_done(td, t + 1, parent_rows)
        beams = st.kept
        steps.append(st)
        t += 1
    return BeamRef(W, B, starts, steps, invalid, mask_ok, all_done_at, torch.tensor(done_at, dtype=torch.long), reordered, td,
                   tainted_at)
