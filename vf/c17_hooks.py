"""C17 (continued) - the real epoch hooks REINFORCE.on_train_epoch_end / RL4COLitModule.on_train_epoch_end.

A REINFORCE(baseline="rollout") module is set up without a Trainer; `module.trainer` is a stub exposing `max_epochs` and
`current_epoch` (all the hooks read).  For a drawn sequence of epochs e0, e0+1, ... (e0 > 0 = resumed run, incl.
e0 >= n_epochs: the first callback the warm-up baseline sees is already past its warm-up) the harness perturbs the
actor ("training"), sets `current_epoch` and calls the real `on_train_epoch_end()`.

Independent model of what the documentation promises after each hook call:
  * baseline policy: the previous snapshot or a copy of the actor at call time (a challenge is either lost or won), never
    aliased with the actor; after a won challenge the baseline's evaluation set has `val_data_size` instances and its
    stored values are the new baseline policy's greedy rewards on that set;
  * warm-up weight: alpha = (e + 1) / n_epochs for e < n_epochs, else 1;
  * train set: for e < max_epochs - 1 a new set of `train_data_size` instances came from env.dataset(.., "train") (read
    off a recording wrapper of env.generator) and was wrapped by the baseline as it is *after* this epoch's callback:
    no `extra` while alpha == 0, else extra[i] = greedy reward of the current baseline policy on instance i of the NEW set
    (solo decode of an independent copy, argmax-stability rule of C17); for the last epoch the train set object is left
    alone;
  * train_dataloader() then serves exactly that set: every instance once, its own `extra` attached, batches of
    batch_size with a final partial one.
"""
import copy
import types

import hypothesis.strategies as st
import torch


def _c17():
    from .props import c17

    return c17


@st.composite
def hook_cases(draw, tier="quick"):
    N = draw(st.integers(2, 7))
    nondiv = [b for b in range(2, N) if N % b]
    n_epochs = draw(st.integers(1, 3))
    max_epochs = draw(st.integers(2, 5))
    e0 = draw(st.sampled_from([0, 0, 0, 1, n_epochs, n_epochs + 1]))
    k = draw(st.integers(1, 4))
    return dict(env=draw(st.sampled_from(["tsp", "cvrp"])), num_loc=draw(st.integers(4, 7)),
                embed_dim=16, spread=draw(st.sampled_from([1.0, 1.25, 1.5])),
                pseed=draw(st.integers(0, 2 ** 16)), dseed=draw(st.integers(0, 2 ** 16)),
                N=N, M=draw(st.integers(2, 5)),
                eval_bs=draw(st.one_of(st.none(), st.integers(1, N + 1))),
                train_bs=draw(st.sampled_from(nondiv)) if nondiv and draw(st.booleans()) else draw(st.integers(1, N + 1)),
                dcls=draw(st.sampled_from(["default", "tdd", "fast", "fastgen"])),
                n_epochs=n_epochs, bl_alpha=draw(st.sampled_from([1.0, 1.0, 0.5, 0.05])),
                max_epochs=max_epochs, e0=e0,
                perturbs=[draw(st.sampled_from([0.0, 0.7, 0.85, 1.2, 1.4])) for _ in range(k)],
                shuffle=draw(st.booleans()), modedep=draw(st.sampled_from(["bn", "bn", "do"])),
                bnstats=draw(st.sampled_from(["fresh", "trained"])), dec=draw(_c17().decode_types()))


class _RecGen:
    """Recording wrapper of env.generator: what env.dataset(n, phase) gets its instances from."""

    def __init__(self, inner):
        self.inner, self.made = inner, []

    def __call__(self, batch_size):
        td = self.inner(batch_size)
        self.made.append({k: td[k].clone() for k in td.keys()})
        return td

    def __getattr__(self, name):
        return getattr(self.inner, name)


def execute_hooks(case, ctx):
    from rl4co.models import REINFORCE
    from torch.utils.data import DataLoader

    from .runner import SkipCase

    C = _c17()
    C._quiet()
    N, M = case["N"], case["M"]
    env = C._get_env(case["env"], case["num_loc"], case["dcls"])
    policy = C._policy(case["env"], case["embed_dim"], case["pseed"], case["spread"], case["modedep"], case["bnstats"],
                       case.get("dec"))
    dnote = C._dec_note(case.get("dec"))
    tag = f"hooks|{case['env']}"
    model = REINFORCE(env, policy, baseline="rollout",
                      baseline_kwargs={"n_epochs": case["n_epochs"], "bl_alpha": case["bl_alpha"]},
                      batch_size=case["train_bs"], val_batch_size=case["eval_bs"], train_data_size=N, val_data_size=M,
                      test_data_size=1, shuffle_train_dataloader=case["shuffle"])
    rec = _RecGen(env.generator)
    env.generator = rec
    torch.manual_seed(case["dseed"])
    oracle = copy.deepcopy(policy).eval()  # what the baseline policy must be after setup
    ctx.guard(model.setup, what="REINFORCE.setup")
    inner = model.baseline.baseline
    if not ctx.check(C._same_params(inner.policy, oracle), f"baseline_policy_neither|{tag}",
                     "after setup the baseline policy is not a copy of the actor"):
        return
    stub = types.SimpleNamespace(max_epochs=case["max_epochs"], current_epoch=case["e0"])
    model.trainer = stub
    updates = wraps = 0
    decisive_total = 0
    for j, f in enumerate(case["perturbs"]):
        e = case["e0"] + j
        if e >= case["max_epochs"]:
            break
        stub.current_epoch = e
        C._perturb(policy, f)
        cand = copy.deepcopy(policy).eval()
        prev_train = model.train_dataset
        n_made = len(rec.made)
        try:
            model.on_train_epoch_end()
        except AssertionError as ex:
            if "T-statistic" in str(ex):  # float32 means vs float64 t statistic on tiny evaluation sets (see c17.execute_b)
                ctx.exclude("epoch_callback_ttest_sign_rounding")
                raise SkipCase()
            raise
        except Exception as ex:  # noqa
            import sys

            from .runner import repo_frame

            fr = repo_frame(sys.exc_info()[2])
            if fr is None:
                raise
            ctx.violation(f"crash|on_train_epoch_end|{type(ex).__name__}|{fr}", f"{type(ex).__name__}: {str(ex)[:300]}")
            return
        new_sets = rec.made[n_made:]
        # ---- 1. the baseline policy: kept or replaced by a copy of the actor; evaluation set renewed on replacement
        if C._same_params(inner.policy, cand) and not C._same_params(cand, oracle):
            oracle = cand
            updates += 1
            ctx.event("baseline_updated")
            if not ctx.check(len(new_sets) >= 1 and new_sets[0]["locs"].shape[0] == M and len(inner.bl_vals) == M,
                             f"baseline_eval_set_size|{tag}",
                             f"epoch {e}: the baseline was replaced; its new evaluation set has "
                             f"{new_sets[0]['locs'].shape[0] if new_sets else 'no'} instances and {len(inner.bl_vals)} "
                             f"stored values, val_data_size is {M}"):
                return
            if C._compare_values(ctx, inner.bl_vals, oracle, env, new_sets[0], M, tag, "bl_vals_mismatch",
                                 note=dnote) is None:
                return
            new_sets = new_sets[1:]
        elif C._same_params(inner.policy, oracle):
            ctx.event("baseline_kept")
        else:
            ctx.violation(f"baseline_policy_neither|{tag}", f"epoch {e}: after on_train_epoch_end the baseline policy is "
                                                            "neither the previous snapshot nor a copy of the actor")
            return
        ctx.check(not C._aliased(inner.policy, policy), f"baseline_policy_aliased|{tag}",
                  "the baseline policy shares parameters with the training policy (not a snapshot)")
        # ---- 2. warm-up weight
        want_alpha = (e + 1) / float(case["n_epochs"]) if e < case["n_epochs"] else 1.0
        if not ctx.check(abs(model.baseline.alpha - want_alpha) < 1e-12, f"warmup_alpha|{tag}",
                         f"epoch {e} (n_epochs={case['n_epochs']}, first epoch seen {case['e0']}): warm-up alpha is "
                         f"{model.baseline.alpha}, expected {want_alpha}"):
            return
        # ---- 3. the train set of the next epoch
        last = e >= case["max_epochs"] - 1
        if last:
            ctx.check(model.train_dataset is prev_train and not new_sets, f"train_set_renewed_after_last_epoch|{tag}",
                      f"epoch {e} is the last of max_epochs={case['max_epochs']}: the train set was replaced / "
                      f"{len(new_sets)} further generator calls")
            ctx.event("last_epoch_no_renewal")
            continue
        if not ctx.check(len(new_sets) == 1 and new_sets[0]["locs"].shape[0] == N and model.train_dataset is not prev_train,
                         f"train_set_not_renewed|{tag}",
                         f"epoch {e} < max_epochs-1={case['max_epochs'] - 1}: expected exactly one new train set of {N} "
                         f"instances, saw generator calls of sizes {[s['locs'].shape[0] for s in new_sets]}"):
            return
        ref = new_sets[0]
        wrapped = model.train_dataset
        ctx.check(len(wrapped) == N, f"len|{tag}", f"new train set has length {len(wrapped)} for {N} instances")
        seq = ctx.guard(list, DataLoader(wrapped, batch_size=N + 1, collate_fn=wrapped.collate_fn), what="iterate")
        if not C._batch_shape_ok(ctx, seq, N, N + 1, "hook_seq|" + tag):
            return
        has_extra = "extra" in seq[0].keys()
        # the hook ran the callback first: alpha is already > 0 here
        if not ctx.check(has_extra, f"no_extra|{tag}",
                         f"epoch {e}: alpha={model.baseline.alpha} > 0 but the renewed train set carries no 'extra' "
                         f"(the hook did not wrap it with the rollout baseline)"):
            return
        extra = seq[0]["extra"].clone()
        if not ctx.check(extra.dtype == torch.float32 and tuple(extra.shape) == (N,), f"extra_shape|{tag}",
                         f"extra came back as {extra.dtype} {tuple(extra.shape)}, expected float32 ({N},)"):
            return
        if C._verify_content(ctx, seq, ref, N, False, "hook_seq|" + tag, extra=extra) is None:
            return
        res = C._compare_values(ctx, extra, oracle, env, ref, N, tag, "rollout_value_mismatch",
                                note=f" [epoch {e}, wrap number {wraps + 1}, baseline replaced {updates} times so far]" + dnote)
        if res is None:
            return
        decisive_total += res[0]
        wraps += 1
        # ---- 4. what the trainer would now iterate
        torch.manual_seed(case["dseed"] + e)
        dl = ctx.guard(model.train_dataloader, what="train_dataloader")
        batches = ctx.guard(list, dl, what="iterate")
        if C._batch_shape_ok(ctx, batches, N, case["train_bs"], "hook_loader|" + tag):
            C._verify_content(ctx, batches, ref, N, case["shuffle"], "hook_loader|" + tag, extra=extra)
        C._mutate_in_place(batches)
    ctx.event(f"hook_updates={min(updates, 2)}{'+' if updates >= 2 else ''}")
    ctx.event(f"hook_wraps={min(wraps, 3)}{'+' if wraps >= 3 else ''}")
    ctx.event(f"e0={'0' if case['e0'] == 0 else ('past_warmup' if case['e0'] >= case['n_epochs'] else 'mid_warmup')}")
    ctx.event(f"val_batch_size={'none' if case['eval_bs'] is None else 'int'}")
    C.dec_events(ctx, case.get("dec"))
    if wraps >= 2 and decisive_total >= 1 and N % case["train_bs"] != 0:
        ctx.nontriv()
    elif updates >= 1 and wraps >= 1 and decisive_total >= 1:
        ctx.nontriv()
    ctx.sample({k: case[k] for k in ("env", "N", "M", "n_epochs", "bl_alpha", "max_epochs", "e0", "perturbs")}
               | {"dec": case.get("dec")})


# --------------------------------------------------------------------------- MDAM's replacement rollout (audit 39)
@st.composite
def mdam_cases(draw, tier="quick"):
    N = draw(st.integers(2, 7))
    return dict(env=draw(st.sampled_from(["tsp", "cvrp"])), num_loc=draw(st.integers(4, 7)), paths=draw(st.integers(2, 3)),
                spread=draw(st.sampled_from([1.0, 1.25, 1.5])), pseed=draw(st.integers(0, 2 ** 16)),
                dseed=draw(st.integers(0, 2 ** 16)), N=N, M=draw(st.integers(2, 4)),
                eval_bs=draw(st.integers(1, N + 1)), train_bs=draw(st.integers(1, N + 1)),
                dcls=draw(st.sampled_from(["default", "tdd", "fast", "fastgen"])),
                perturb=draw(st.sampled_from([0.0, 0.8, 1.3])), shuffle=draw(st.booleans()))


def _mdam_solo(policy, env, row):
    """max over decoder paths of the greedy reward on one instance, in float32 and - for the stability rule - with a
    float64 copy of the policy on the float64 instance: a case where the two disagree is a numerical near-tie."""
    with torch.inference_mode():
        r32 = float(policy(env.reset(row.clone()), env, decode_type="greedy")["reward"].max(1).values[0])
        p64 = copy.deepcopy(policy).double()
        row64 = row.clone().apply(lambda t: t.double() if t.is_floating_point() else t)
        r64 = float(p64(env.reset(row64), env, decode_type="greedy")["reward"].max(1).values[0])
    return r32, abs(r32 - r64) <= 1e-5 * (1 + abs(r32))


def _mdam_compare(ctx, values, oracle, env, ref, n, tag, what):
    C = _c17()
    decisive = 0
    for i in range(n):
        r, stable = _mdam_solo(oracle, env, C._row(ref, i))
        v = float(values[i])
        if abs(v - r) <= 1e-5 * (1 + abs(r)):
            decisive += stable
        elif not stable:
            ctx.event("dontcare_near_tie_mismatch")
        else:
            ctx.violation(f"{what}|{tag}", f"{what}: value of item {i} is {v:.6f}, the baseline policy's best-path greedy "
                                           f"reward on that instance (solo, eval mode) is {r:.6f}",
                          {"values": [float(x) for x in values]})
            return None
    return decisive


def execute_mdam(case, ctx):
    """MDAM replaces RolloutBaseline.rollout by its own function (reward [batch, paths] -> max over paths, own loader
    loop): values of the baseline's evaluation set after setup and `extra` of the train set wrapped by the real
    on_train_epoch_end hook are compared with the best-path greedy reward of an independent copy of the baseline policy."""
    from rl4co.models.zoo import MDAM, MDAMPolicy
    from torch.utils.data import DataLoader

    from .runner import SkipCase

    C = _c17()
    C._quiet()
    N, M = case["N"], case["M"]
    env = C._get_env(case["env"], case["num_loc"], case["dcls"])
    torch.manual_seed(case["pseed"])
    policy = MDAMPolicy(env_name=case["env"], embed_dim=16, num_encoder_layers=1, num_heads=2, num_paths=case["paths"])
    with torch.no_grad():
        for p_ in policy.parameters():
            p_.mul_(case["spread"])
    tag = f"mdam|{case['env']}"
    model = MDAM(env, policy, baseline="rollout", baseline_kwargs={"n_epochs": 1, "bl_alpha": 1.0},
                 batch_size=case["train_bs"], val_batch_size=case["eval_bs"], train_data_size=N, val_data_size=M,
                 test_data_size=1, shuffle_train_dataloader=case["shuffle"])
    rec = _RecGen(env.generator)
    env.generator = rec
    oracle = copy.deepcopy(policy).eval()
    torch.manual_seed(case["dseed"])
    ctx.guard(model.setup, what="MDAM.setup")
    inner = model.baseline.baseline
    if not ctx.check(len(inner.bl_vals) == M, f"bl_vals_len|{tag}", f"{len(inner.bl_vals)} baseline values for {M} instances"):
        return
    evset = [m for m in rec.made if m["locs"].shape[0] == M][-1] if M != N else rec.made[-1]
    if _mdam_compare(ctx, inner.bl_vals, oracle, env, evset, M, tag, "bl_vals_mismatch") is None:
        return
    model.trainer = types.SimpleNamespace(max_epochs=3, current_epoch=0)
    C._perturb(policy, case["perturb"])
    cand = copy.deepcopy(policy).eval()
    n_made = len(rec.made)
    try:
        ctx.guard(model.on_train_epoch_end, what="MDAM.on_train_epoch_end")
    except AssertionError as ex:
        if "T-statistic" in str(ex):
            ctx.exclude("epoch_callback_ttest_sign_rounding")
            raise SkipCase()
        raise
    if C._same_params(inner.policy, cand) and not C._same_params(cand, oracle):
        oracle = cand
        ctx.event("mdam_baseline_updated")
    elif not C._same_params(inner.policy, oracle):
        ctx.violation(f"baseline_policy_neither|{tag}", "after on_train_epoch_end the baseline policy is neither the "
                                                        "previous snapshot nor a copy of the actor")
        return
    new_sets = [m for m in rec.made[n_made:]]
    if not ctx.check(len(new_sets) >= 1 and new_sets[-1]["locs"].shape[0] == N, f"train_set_not_renewed|{tag}",
                     f"no new train set of {N} instances after epoch 0 of 3"):
        return
    ref = new_sets[-1]
    wrapped = model.train_dataset
    seq = ctx.guard(list, DataLoader(wrapped, batch_size=N + 1, collate_fn=wrapped.collate_fn), what="iterate")
    if not C._batch_shape_ok(ctx, seq, N, N + 1, "mdam_seq|" + tag):
        return
    if not ctx.check("extra" in seq[0].keys(), f"no_extra|{tag}", "alpha=1 but the renewed train set carries no 'extra'"):
        return
    extra = seq[0]["extra"].clone()
    if not ctx.check(tuple(extra.shape) == (N,) and extra.dtype == torch.float32, f"extra_shape|{tag}",
                     f"extra came back as {extra.dtype} {tuple(extra.shape)}, expected float32 ({N},): one value per "
                     f"instance (the best path)"):
        return
    if C._verify_content(ctx, seq, ref, N, False, "mdam_seq|" + tag, extra=extra) is None:
        return
    dec = _mdam_compare(ctx, extra, oracle, env, ref, N, tag, "rollout_value_mismatch")
    if dec is None:
        return
    torch.manual_seed(case["dseed"] + 5)
    batches = ctx.guard(list, ctx.guard(model.train_dataloader, what="train_dataloader"), what="iterate")
    if C._batch_shape_ok(ctx, batches, N, case["train_bs"], "mdam_loader|" + tag):
        C._verify_content(ctx, batches, ref, N, case["shuffle"], "mdam_loader|" + tag, extra=extra)
    ctx.event(f"mdam_paths={case['paths']}")
    ctx.event("mdam_decisive_instances", dec)
    if dec >= 1 and N % case["train_bs"] != 0:
        ctx.nontriv()
    ctx.sample({k: case[k] for k in ("env", "num_loc", "paths", "N", "M", "eval_bs", "train_bs", "dcls")})
