"""Independent problem definitions for the routing environments (DESIGN §2.3).

Written from the problem statements (env docstrings / cited papers), not from the
environments' `_get_reward` / `check_solution_validity` / `get_action_mask`.
Pure Python / float64 over the *original instance* (the td handed to reset) and the
executed action list.

judge_<env>(inst, actions, cfg) -> Verdict
    .viol : list of (constraint, slack)  slack < 0 quantifies a continuous violation,
                                         slack == -inf marks a discrete violation
    .obj  : objective value in the library's sign convention (reward)
    .meta : dict (routes, loads, ... used for non-triviality classes)
"""
import math
from dataclasses import dataclass, field

NEG = float("-inf")


@dataclass
class Verdict:
    viol: list = field(default_factory=list)
    obj: float = 0.0
    meta: dict = field(default_factory=dict)
    terms: float = 0.0  # sum of |terms| entering the objective (for relative tolerance)
    slacks: list = field(default_factory=list)  # every evaluated continuous constraint: (name, slack)

    def add(self, name, slack):
        """Record a continuous constraint; slack < 0 is a violation."""
        self.slacks.append((name, slack))
        if slack < 0:
            self.viol.append((name, slack))

    def robust_class(self, tau, exact=()):
        """'feasible' (every margin >= tau, no discrete violation), 'infeasible' (a discrete violation or a
        margin <= -10 tau), else 'dont_care'.  Constraints named in `exact` are judged with tau = 0."""
        if any(s == NEG for _, s in self.viol):
            return "infeasible"
        if any(s < 0 if c in exact else s <= -10 * tau for c, s in self.slacks):
            return "infeasible"
        if all(s >= 0 if c in exact else s >= tau for c, s in self.slacks):
            return "feasible"
        return "dont_care"

    def bad(self, tau=0.0):
        """Constraints violated beyond tolerance tau."""
        return [(c, s) for c, s in self.viol if s < -tau]


def dist(a, b):
    return math.hypot(a[0] - b[0], a[1] - b[1])


def path_len(pts):
    return sum(dist(pts[i], pts[i + 1]) for i in range(len(pts) - 1))


def split_routes(actions, depot=0):
    """Split an action list at depot visits into routes of customers (empty routes kept)."""
    routes, cur = [], []
    for a in actions:
        if a == depot:
            routes.append(cur)
            cur = []
        else:
            cur.append(a)
    routes.append(cur)  # trailing (possibly unreturned) route
    return routes


def visit_counts(actions, n_nodes):
    c = [0] * n_nodes
    for a in actions:
        if 0 <= a < n_nodes:
            c[a] += 1
        else:
            c.append(1)
    return c


def _once(v, actions, first, n_nodes, exactly=True):
    cnt = visit_counts(actions, n_nodes)
    for j in range(first, n_nodes):
        if cnt[j] > 1:
            v.viol.append((f"duplicate_visit", NEG))
            break
    if exactly:
        for j in range(first, n_nodes):
            if cnt[j] == 0:
                v.viol.append((f"missing_visit", NEG))
                break
    if len(cnt) > n_nodes:
        v.viol.append(("out_of_range", NEG))
    return cnt


# ---------------------------------------------------------------- TSP / ATSP
def judge_tsp(inst, actions, cfg=None):
    locs = inst["locs"]
    n = len(locs)
    v = Verdict()
    _once(v, actions, 0, n)
    if len(actions) != n:
        v.viol.append(("length", NEG))
    pts = [locs[a] for a in actions if 0 <= a < n]
    L = path_len(pts + pts[:1]) if pts else 0.0
    v.obj, v.terms = -L, L
    v.meta = {"n": n}
    return v


def judge_atsp(inst, actions, cfg=None):
    C = inst["cost_matrix"]
    n = len(C)
    v = Verdict()
    _once(v, actions, 0, n)
    if len(actions) != n:
        v.viol.append(("length", NEG))
    acts = [a for a in actions if 0 <= a < n]
    L = sum(C[acts[i]][acts[(i + 1) % len(acts)]] for i in range(len(acts))) if acts else 0.0
    v.obj, v.terms = -L, sum(abs(C[acts[i]][acts[(i + 1) % len(acts)]]) for i in range(len(acts))) if acts else 0.0
    return v


# ---------------------------------------------------------------- CVRP family
def _nodes(inst):
    return [inst["depot"]] + list(inst["locs"])


def _closed_length(nodes, actions):
    """depot -> a1 -> ... -> aT -> depot"""
    seq = [0] + [a for a in actions] + [0]
    return path_len([nodes[a] for a in seq])


def judge_cvrp(inst, actions, cfg=None):
    nodes = _nodes(inst)
    n = len(nodes)
    cap = (cfg or {}).get("vehicle_capacity", 1.0)
    v = Verdict()
    _once(v, actions, 1, n)
    routes = split_routes(actions)
    loads = [sum(inst["demand"][a - 1] for a in r if 1 <= a < n) for r in routes]
    for ld in loads:
        v.add("capacity", cap - ld)
    L = _closed_length(nodes, [a for a in actions if 0 <= a < n])
    v.obj, v.terms = -L, L
    v.meta = {"routes": [r for r in routes if r], "loads": loads, "cap": cap}
    return v


def judge_cvrptw(inst, actions, cfg=None):
    v = judge_cvrp(inst, actions, cfg)
    nodes = _nodes(inst)
    n = len(nodes)
    tw, dur = inst["time_windows"], inst["durations"]
    t, cur = 0.0, 0
    tight = []
    # `exact`: the clock is an integer that float32 (the env) and float64 (here) both hold exactly - every leg so far
    # had an integer length from an integer departure time, or ended in a wait for an integer window start that the
    # arrival missed by a clear margin.  Only then is "arrival == window end" free of rounding ambiguity; such
    # evaluations are recorded under the name "time_window=" and may be judged with tolerance 0 (the problem lets a
    # service start exactly when the window closes: docstring "start the service within the time window").
    exact = not (cfg or {}).get("scaled_units")  # scaled instances (everything divided by max_time): nothing is exact
    can_be_exact = exact
    for a in actions:
        if not (0 <= a < n):
            continue
        d = dist(nodes[cur], nodes[a])
        leg_exact = exact and float(d).is_integer() and float(t).is_integer() and abs(t + d) < 2 ** 20
        arr = t + d
        slack = tw[a][1] - arr
        v.add("time_window=" if (leg_exact and slack == 0 and float(tw[a][1]).is_integer()) else "time_window", slack)
        tight.append(slack)
        if a == 0:
            t, exact = 0.0, can_be_exact
        else:
            lo = tw[a][0]
            if leg_exact and float(lo).is_integer() and float(dur[a]).is_integer():
                exact = True
            elif can_be_exact and lo - arr > 1e-2 and float(lo).is_integer() and float(dur[a]).is_integer():
                exact = True  # waits: departs at the (integer) window start whatever the rounding of the arrival
            else:
                exact = False
            t = max(arr, lo) + dur[a]
        cur = a
    if cur != 0:  # must be able to get back before the depot closes
        arr = t + dist(nodes[cur], nodes[0])
        v.add("depot_deadline", tw[0][1] - arr)
    v.meta["tw_slacks"] = tight
    return v


def judge_sdvrp(inst, actions, cfg=None):
    nodes = _nodes(inst)
    n = len(nodes)
    cap = (cfg or {}).get("vehicle_capacity", 1.0)
    v = Verdict()
    rem = [0.0] + list(inst["demand"])
    used = 0.0
    deliveries = 0
    splits = 0
    for a in actions:
        if not (0 <= a < n):
            v.viol.append(("out_of_range", NEG))
            continue
        if a == 0:
            used = 0.0
            continue
        d = min(rem[a], cap - used)
        if d > 0:
            deliveries += 1
            if d < rem[a]:
                splits += 1
        rem[a] -= d
        used += d
        v.add("capacity", cap - used)
    left = sum(rem)
    if left > 1e-9:
        v.add("unserved_demand", -left)
    L = _closed_length(nodes, [a for a in actions if 0 <= a < n])
    v.obj, v.terms = -L, L
    v.meta = {"routes": [r for r in split_routes(actions) if r], "splits": splits}
    return v


def judge_svrp(inst, actions, cfg=None):
    """Technician index = number of depot visits so far (an empty route consumes a technician)."""
    nodes = _nodes(inst)
    n = len(nodes)
    techs = [t[0] if isinstance(t, (list, tuple)) else t for t in inst["techs"]]
    skills = [s[0] if isinstance(s, (list, tuple)) else s for s in inst["skills"]]
    costs = cfg["tech_costs"]
    T = len(techs)
    v = Verdict()
    _once(v, actions, 1, n)
    tech = 0
    cur = 0
    total, terms = 0.0, 0.0
    for a in actions:
        if not (0 <= a < n):
            continue
        if tech >= T:
            v.viol.append(("too_many_technicians", NEG))
            break
        d = dist(nodes[cur], nodes[a])
        total += d * costs[tech]
        terms += abs(d * costs[tech])
        if a == 0:
            tech += 1
        else:
            v.add("skill", techs[tech] - skills[a - 1])
        cur = a
    if cur != 0 and tech < T:
        d = dist(nodes[cur], nodes[0])
        total += d * costs[tech]
        terms += d * costs[tech]
    v.obj, v.terms = -total, terms
    v.meta = {"routes": [r for r in split_routes(actions) if r], "techs_used": tech + (1 if cur != 0 else 0)}
    return v


# ---------------------------------------------------------------- OP / PCTSP
def judge_op(inst, actions, cfg=None):
    nodes = _nodes(inst)
    n = len(nodes)
    v = Verdict()
    _once(v, actions, 1, n, exactly=False)
    # nothing after the closing return (a leading depot visit at step 0 is a no-op)
    body = list(actions)
    while body and body[0] == 0:
        body = body[1:]
        if len(actions) - len(body) >= 1 and (not body or True):
            break
    seen_return = False
    for a in body:
        if seen_return and a != 0:
            v.viol.append(("customer_after_return", NEG))
            break
        if a == 0:
            seen_return = True
    custs = [a for a in actions if 1 <= a < n]
    L = _closed_length(nodes, custs)
    slack = inst["max_length"] - L
    v.add("max_length", slack)
    prize = sum(inst["prize"][a - 1] for a in custs)
    v.obj, v.terms = prize, prize
    v.meta = {"length": L, "length_slack": slack, "visited": len(custs)}
    return v


def judge_pctsp(inst, actions, cfg=None):
    """cfg['stochastic']: the collected prize is the real (stochastic) one for SPCTSP."""
    nodes = _nodes(inst)
    n = len(nodes)
    v = Verdict()
    _once(v, actions, 1, n, exactly=False)
    seen_return = False
    for i, a in enumerate(actions):
        if seen_return and a != 0:
            v.viol.append(("customer_after_return", NEG))
            break
        if a == 0 and i > 0:
            seen_return = True
    custs = [a for a in actions if 1 <= a < n]
    real = inst["stochastic_prize"] if (cfg or {}).get("stochastic") else inst["deterministic_prize"]
    prize = sum(real[a - 1] for a in set(custs))
    if len(set(custs)) < n - 1:
        v.add("min_prize", prize - 1.0)
    L = _closed_length(nodes, custs)
    pen = sum(inst["penalty"][j - 1] for j in range(1, n) if j not in set(custs))
    v.obj, v.terms = -(L + pen), L + pen
    v.meta = {"prize": prize, "visited": len(set(custs)), "all": len(set(custs)) == n - 1}
    return v


# ---------------------------------------------------------------- PDP
def judge_pdp(inst, actions, cfg=None):
    nodes = _nodes(inst)
    n = len(nodes)  # 1 + num_loc
    half = (n - 1) // 2
    v = Verdict()
    acts = list(actions)
    no_depot_start = False
    if (cfg or {}).get("force_start_at_depot"):
        if acts and acts[0] == 0:
            acts = acts[1:]
        else:
            # a customer at the step of the forced depot visit is a visit of that customer like any other (it counts
            # towards "visited exactly once"); the missing depot step itself is reported only if nothing else is wrong
            no_depot_start = True
    if 0 in acts:
        v.viol.append(("depot_inside_tour", NEG))
    _once(v, acts, 1, n)
    if no_depot_start and not v.viol:
        v.viol.append(("must_start_at_depot", NEG))
    pos = {a: i for i, a in enumerate(acts)}
    for p in range(1, half + 1):
        d = p + half
        if p in pos and d in pos and pos[d] < pos[p]:
            v.viol.append(("delivery_before_pickup", NEG))
            break
    L = _closed_length(nodes, [a for a in acts if 1 <= a < n])
    v.obj, v.terms = -L, L
    return v


# ---------------------------------------------------------------- mTSP
def judge_mtsp(inst, actions, cfg=None):
    locs = inst["locs"]
    n = len(locs)
    m = int(inst["num_agents"])
    v = Verdict()
    _once(v, actions, 1, n)
    routes = split_routes(actions)
    if len(routes) > m:
        v.viol.append(("too_many_agents", NEG))
    lens = [path_len([locs[0]] + [locs[a] for a in r if 1 <= a < n] + [locs[0]]) for r in routes]
    mode = (cfg or {}).get("cost_type", "minmax")
    if mode == "minmax":
        v.obj = -max(lens) if lens else 0.0
    else:
        v.obj = -sum(lens)
    v.terms = sum(lens)
    v.meta = {"routes": [r for r in routes if r], "lens": lens}
    return v


# ---------------------------------------------------------------- MTVRP
def judge_mtvrp(inst, actions, cfg=None):
    locs = inst["locs"]  # depot first
    n = len(locs)
    Q = inst["vehicle_capacity"]
    lh, bh = inst["demand_linehaul"], inst["demand_backhaul"]
    tw, st = inst["time_windows"], inst["service_time"]
    speed = inst["speed"]
    open_route = bool(inst["open_route"])
    limit = inst["distance_limit"]
    v = Verdict()
    _once(v, actions, 1, n)
    routes = split_routes(actions)
    total = 0.0
    tw_slacks, len_slacks = [], []
    for r in routes:
        r = [a for a in r if 1 <= a < n]
        if not r:
            continue
        l_load = sum(lh[a] for a in r)
        b_load = sum(bh[a] for a in r)
        v.add("capacity_linehaul", Q - l_load)
        v.add("capacity_backhaul", Q - b_load)
        seen_back = False
        for a in r:
            if bh[a] > 0:
                seen_back = True
            elif lh[a] > 0 and seen_back:
                v.viol.append(("linehaul_after_backhaul", NEG))
                break
        t, cur, length = 0.0, 0, 0.0
        # dyadic: every leg length is a multiple of 2^-10 below 2^10, so float32 (env) and float64 (here) sums are exact
        dyadic = True
        for a in r:
            d = dist(locs[cur], locs[a])
            dyadic = dyadic and float(d * 1024).is_integer() and d < 1024
            length += d
            arr = t + d / speed
            if tw[a][1] < 1e29:
                v.add("time_window", tw[a][1] - arr)
            tw_slacks.append(tw[a][1] - arr)
            t = max(arr, tw[a][0]) + st[a]
            cur = a
        back = dist(locs[cur], locs[0])
        if not open_route:
            length += back
            dyadic = dyadic and float(back * 1024).is_integer() and back < 1024
            if tw[0][1] < 1e29:
                v.add("depot_deadline", tw[0][1] - (t + back / speed))
            tw_slacks.append(tw[0][1] - (t + back / speed))
        if limit < 1e29:
            # "distance_limit=": route length equals the limit in exact dyadic arithmetic (no rounding ambiguity)
            eq = dyadic and limit - length == 0 and float(limit * 1024).is_integer()
            v.add("distance_limit=" if eq else "distance_limit", limit - length)
        len_slacks.append(limit - length)
        total += length
    v.obj, v.terms = -total, total
    v.meta = {"routes": [r for r in routes if r], "tw_slacks": tw_slacks, "len_slacks": len_slacks,
              "open": open_route}
    return v


JUDGES = {
    "tsp": judge_tsp, "atsp": judge_atsp, "cvrp": judge_cvrp, "cvrptw": judge_cvrptw, "sdvrp": judge_sdvrp,
    "svrp": judge_svrp, "op": judge_op, "pctsp": judge_pctsp, "spctsp": judge_pctsp, "pdp": judge_pdp,
    "mtsp": judge_mtsp, "mtvrp": judge_mtvrp,
}


# ---------------------------------------------------------------- MDCPDP
def judge_mdcpdp(inst, actions, cfg):
    """Multi-depot capacitated pickup and delivery.  Nodes: 0..D-1 depots, then n/2 pickups, then n/2 deliveries
    (pickup p pairs with delivery p + n/2).  A route is opened by the first visit of a depot and closed by
    returning to that same depot; the last route's return is implicit (the episode ends on its last node).
    cfg: dist_mode L1|L2, reward_mode minmax|minsum|lateness, problem_mode open|close, start_mode order|random.
    inst["start_depot"] (optional) = the depot the reset state names as current (drawn at reset under start_mode
    "random").  Routes, their depots, capacities and lengths are defined by the executed actions alone - a route belongs
    to the depot whose visit opened it, whatever the reset state named; the start depot must be one of the instance's
    depots (0 under start_mode "order": "order" starts with the first depot) and is reported in meta."""
    depots, locs = inst["depot"], inst["locs"]
    D, n = len(depots), len(locs)
    half = n // 2
    nodes = list(depots) + list(locs)
    caps = [int(c) for c in inst["capacity"]]
    w = inst["lateness_weight"]
    while isinstance(w, list):
        w = w[0]
    l1 = cfg.get("dist_mode", "L2") == "L1"
    close = cfg.get("problem_mode", "close") == "close"

    def d(a, b):
        dx, dy = abs(nodes[a][0] - nodes[b][0]), abs(nodes[a][1] - nodes[b][1])
        return dx + dy if l1 else math.hypot(dx, dy)

    v = Verdict()
    if len(caps) != D:
        # the environment reads one capacity per depot; a different shape makes it mis-parse the instance
        v.viol.append(("capacity_not_per_depot", NEG))
        caps = (caps * D)[:D]
    _once(v, [a for a in actions if a >= D], D, D + n)
    length = [0.0] * D
    arrive = {}
    opened = []
    cur_depot, in_route, carry, picked = None, False, 0, set()
    prev = None
    routes = []
    for a in actions:
        if not (0 <= a < D + n):
            v.viol.append(("out_of_range", NEG))
            continue
        if a < D:
            if in_route and a == cur_depot:
                if carry > 0:
                    v.viol.append(("return_while_carrying", NEG))
                if close and prev is not None:
                    length[cur_depot] += d(prev, a)
                in_route = False
            elif a not in opened:
                if in_route:
                    v.viol.append(("new_depot_before_return", NEG))
                opened.append(a)
                cur_depot, in_route, carry = a, True, 0
                routes.append([])
            else:
                v.viol.append(("depot_revisited", NEG))
        else:
            if not in_route:
                v.viol.append(("customer_outside_route", NEG))
                prev = a
                continue
            length[cur_depot] += d(prev, a)
            arrive[a] = length[cur_depot]
            routes[-1].append(a)
            if a < D + half:
                carry += 1
                picked.add(a)
                if carry > caps[cur_depot]:
                    v.viol.append(("carry_capacity", NEG))
            else:
                if (a - half) not in picked or (a - half) not in routes[-1]:
                    v.viol.append(("delivery_before_pickup", NEG))
                carry -= 1
        prev = a
    if in_route and prev is not None and prev >= D:
        if carry > 0:
            v.viol.append(("ends_while_carrying", NEG))
        if close:
            length[cur_depot] += d(prev, cur_depot)  # implicit final return
    if sorted(opened) != list(range(D)):
        v.viol.append(("depot_not_opened", NEG))
    sd = inst.get("start_depot")
    if sd is not None and (not (0 <= sd < D) or (cfg.get("start_mode", "order") == "order" and sd != 0)):
        v.viol.append(("start_depot_not_a_depot", NEG))
    mode = cfg.get("reward_mode", "lateness")
    if mode == "minmax":
        cost = max(length)
    elif mode == "minsum":
        cost = sum(length)
    else:
        late = sum(arrive.get(x, 0.0) for x in range(D + half, D + n))
        cost = sum(length) * (1 - w) + late * w
    v.obj, v.terms = -cost, sum(length) + sum(arrive.values())
    v.meta = {"routes": [r for r in routes if r], "lengths": length, "n_routes": len(routes),
              "start_depot": sd, "first_opened": opened[0] if opened else None}
    return v


JUDGES["mdcpdp"] = judge_mdcpdp
