"""Independent definitions + reference simulators for FJSP/JSSP, FFSP, SMTWTP, FLP, MCP."""
import math

from .routing import NEG, Verdict

INIT_FINISH = 9999.0


# ---------------------------------------------------------------- FJSP / JSSP: validity of a final schedule
def jobs_of(inst):
    """list of op-id lists per job from start/end indices"""
    return [list(range(int(s), int(e) + 1)) for s, e in zip(inst["start_op_per_job"], inst["end_op_per_job"])]


def judge_jobshop(inst, final):
    """inst: original instance (proc_times[M][O], pad_mask[O], start/end_op_per_job); final: start_times[O],
    finish_times[O], ma_assignment[M][O] of the final state."""
    P = inst["proc_times"]
    M, O = len(P), len(P[0])
    pad = [bool(p) for p in inst["pad_mask"]]
    st, fi, ma = final["start_times"], final["finish_times"], final["ma_assignment"]
    v = Verdict()
    real = [o for o in range(O) if not pad[o]]
    in_job = set(o for job in jobs_of(inst) for o in job)
    per_machine = {m: [] for m in range(M)}
    for o in range(O):
        assigned = [m for m in range(M) if ma[m][o] != 0]
        if pad[o] or o not in in_job:
            if assigned:
                v.viol.append(("padded_op_scheduled", NEG))
            continue
        if len(assigned) != 1:
            v.viol.append(("op_not_processed_exactly_once", NEG))
            continue
        m = assigned[0]
        if P[m][o] <= 0:
            v.viol.append(("ineligible_machine", NEG))
        elif abs((fi[o] - st[o]) - P[m][o]) > 1e-6:
            v.viol.append(("wrong_processing_time", NEG))
        if st[o] < 0:
            v.viol.append(("negative_start", NEG))
        per_machine[m].append((st[o], fi[o], o))
    for job in jobs_of(inst):
        for a, b in zip(job, job[1:]):
            if pad[a] or pad[b]:
                continue
            if st[b] < fi[a] - 1e-6:
                v.viol.append(("job_precedence", NEG))
    for m, lst in per_machine.items():
        lst.sort()
        for (s1, f1, _), (s2, f2, _) in zip(lst, lst[1:]):
            if s2 < f1 - 1e-6:
                v.viol.append(("machine_overlap", NEG))
    mk = max((fi[o] for o in real if o in in_job), default=0.0)
    v.obj, v.terms = -mk, mk
    v.meta = {"makespan": mk, "n_ops": len(real)}
    return v


class JobShopModel:
    """Event-driven reference model of the FJSP/JSSP decision process (time, machine release, next-op
    pointer, wait = advance to the next machine release)."""

    def __init__(self, inst, jssp, mask_no_ops):
        self.P = inst["proc_times"]
        self.M, self.O = len(self.P), len(self.P[0])
        self.jobs = jobs_of(inst)
        self.J = len(self.jobs)
        self.jssp, self.mask_no_ops = jssp, mask_no_ops
        self.t = 0.0
        self.busy = [0.0] * self.M
        self.nxt = [job[0] for job in self.jobs]
        self.inproc = [False] * self.J
        self.jdone = [False] * self.J
        self.start = [0.0] * self.O
        self.finish = [INIT_FINISH] * self.O
        self.assign = {}
        self.waits = 0
        self.forced_transits = 0

    @property
    def done(self):
        return all(self.jdone)

    def pair_ok(self, j, m):
        return (not self.jdone[j]) and (not self.inproc[j]) and self.busy[m] <= self.t and self.P[m][self.nxt[j]] > 0

    def mask(self):
        if self.mask_no_ops:
            wait = self.done
        else:
            wait = (any(self.inproc) and not self.done) or self.done
        if self.jssp:
            # a JSSP job action is offered iff its next op's (single eligible) machine is available
            acts = [any(self.pair_ok(j, m) for m in range(self.M)) for j in range(self.J)]
        else:
            acts = [self.pair_ok(j, m) for j in range(self.J) for m in range(self.M)]
        return [wait] + acts

    def transit(self):
        fut = [b for b in self.busy if b > self.t]
        assert fut, "model: transit without a busy machine"
        self.t = min(fut)
        for j in range(self.J):
            if self.inproc[j] and self.finish[self.nxt[j]] <= self.t:
                if self.nxt[j] == self.jobs[j][-1]:
                    self.jdone[j] = True
                else:
                    self.nxt[j] += 1
                self.inproc[j] = False

    def step(self, a):
        if self.done:
            return
        if a == 0:
            self.waits += 1
            self.transit()
        else:
            if self.jssp:
                j = a - 1
                o = self.nxt[j]
                m = [mm for mm in range(self.M) if self.P[mm][o] > 0][0]
            else:
                j, m = (a - 1) // self.M, (a - 1) % self.M
                o = self.nxt[j]
            p = self.P[m][o]
            self.start[o], self.finish[o] = self.t, self.t + p
            self.assign[o] = m
            self.busy[m] = self.t + p
            self.inproc[j] = True
        while not self.done and not any(self.mask()):
            self.forced_transits += 1
            self.transit()


# ---------------------------------------------------------------- FFSP
def judge_ffsp(inst, final, S, M):
    """inst: run_time[J][S*M]; final: schedule[S*M][J+1] (start time, or negative if unused)."""
    R = inst["run_time"]
    J = len(R)
    sch = final["schedule"]
    v = Verdict()
    ends = []
    per_machine = {m: [] for m in range(S * M)}
    for j in range(J):
        prev_end = 0
        for s in range(S):
            used = [m for m in range(s * M, (s + 1) * M) if sch[m][j] >= 0]
            if len(used) != 1:
                v.viol.append(("stage_not_processed_exactly_once", NEG))
                prev_end = None
                break
            m = used[0]
            st = sch[m][j]
            if st < prev_end:
                v.viol.append(("stage_precedence", NEG))
            prev_end = st + R[j][m]
            per_machine[m].append((st, prev_end))
        if prev_end is not None:
            ends.append(prev_end)
    for m, lst in per_machine.items():
        lst.sort()
        for (s1, e1), (s2, e2) in zip(lst, lst[1:]):
            if s2 < e1:
                v.viol.append(("machine_overlap", NEG))
    mk = max(ends) if ends else 0
    v.obj, v.terms = -float(mk), float(mk)
    v.meta = {"makespan": mk}
    return v


class FFSPModel:
    """(time, machine-slot) sweep model of the MatNet flow-shop decision process."""

    def __init__(self, inst, S, M):
        self.R = inst["run_time"]
        self.J, self.S, self.M = len(self.R), S, M
        self.T = S * M
        self.t, self.s = 0, 0
        self.mfree = [0] * self.T  # time at which machine is free
        self.jready = [0] * self.J  # time at which the job leaves its current machine
        self.jloc = [0] * self.J
        self.start = [[-999999] * (self.J + 1) for _ in range(self.T)]
        self.waits = 0

    @property
    def done(self):
        return all(l == self.S for l in self.jloc)

    def stage(self):
        return self.s // self.M

    def mask(self):
        st = self.stage()
        avail = [self.jloc[j] == st and self.jready[j] <= self.t for j in range(self.J)]
        wait = any(self.jloc[j] < st for j in range(self.J)) or \
            any(self.jloc[j] == st and self.jready[j] > self.t for j in range(self.J)) or self.done
        return avail + [wait]

    def step(self, a):
        if self.done:
            return
        m = self.s
        if a < self.J:
            self.jloc[a] += 1
            self.start[m][a] = self.t
            L = self.R[a][m]
            self.mfree[m] = self.t + L
            self.jready[a] = self.t + L
        else:
            self.waits += 1
            self.start[m][self.J] = self.t
        if self.done:
            return
        while True:
            self.s += 1
            if self.s == self.T:
                self.s = 0
                self.t += 1
            st = self.stage()
            if self.mfree[self.s] <= self.t and any(self.jloc[j] == st and self.jready[j] <= self.t for j in range(self.J)):
                break


# ---------------------------------------------------------------- SMTWTP / FLP / MCP
def judge_smtwtp(inst, actions, cfg=None):
    n = len(inst["job_due_time"]) - 1
    v = Verdict()
    if sorted(actions) != list(range(1, n + 1)):
        v.viol.append(("not_a_permutation_of_jobs", NEG))
    t, tot = 0.0, 0.0
    for a in actions:
        if not (0 <= a <= n):
            continue
        t += inst["job_process_time"][a]
        tot += inst["job_weight"][a] * max(0.0, t - inst["job_due_time"][a])
    v.obj, v.terms = -tot, tot + t
    return v


def judge_flp(inst, actions, cfg):
    locs = inst["locs"]
    n = len(locs)
    k = cfg["k"]
    v = Verdict()
    if len(set(actions)) != len(actions):
        v.viol.append(("duplicate_selection", NEG))
    if len(actions) != k:
        v.viol.append(("wrong_number_selected", NEG))
    ch = [a for a in actions if 0 <= a < n]
    tot = sum(min(math.hypot(p[0] - locs[j][0], p[1] - locs[j][1]) for j in ch) for p in locs) if ch else 0.0
    v.obj, v.terms = -tot, tot
    return v


def judge_mcp(inst, actions, cfg):
    mem, w = inst["membership"], inst["weights"]
    k = cfg["k"]
    v = Verdict()
    if len(set(actions)) != len(actions):
        v.viol.append(("duplicate_selection", NEG))
    if len(actions) != k:
        v.viol.append(("wrong_number_selected", NEG))
    covered = set()
    for a in actions:
        if 0 <= a < len(mem):
            covered |= {int(x) for x in mem[a] if int(x) > 0}
    tot = sum(w[i - 1] for i in covered if 1 <= i <= len(w))
    v.obj, v.terms = float(tot), float(tot)
    v.meta = {"covered": sorted(covered)}
    return v
