from .routing import JUDGES, Verdict  # noqa
