"""C16 (continued) — zoo models that bring their own loss / their own rollout layout (audit item 10).

Targets (trainer-free `shared_step(batch, k, "train")`, policy outputs captured with a forward hook as in c16.py):

  rl4co.models.zoo.mdam.model.MDAM.calculate_loss      reward / log-likelihood [batch, paths] (one column per decoder),
        baseline value "simply unsqueezed to match the reward shape":  L = -mean((R - b[:, None]) * ll)
        b = 0 | python-float EMA of mean(R over batch AND paths) | supplied `extra` [batch]
  rl4co.models.zoo.polynet.model.PolyNet.shared_step / calculate_loss   K sampled rollouts per instance (flat row k*B + b),
        shared baseline = mean over the K rollouts, Poppy mask = only the best rollout of each instance trains:
        L = -mean((R - mean_k R) * ll * [k == argmax_k R])   (mean over all B*K entries, as coded)
        exact ties of the maximum are don't-care: the loss must lie between the smallest and the largest value any
        choice among the tied rollouts gives, gradients are compared only without ties
  rl4co.models.zoo.matnet.model.MatNet (POMO on ATSP, MatNetPolicy), rl4co.models.zoo.mvmoe.model.MVMoE_POMO
        L = -mean((R - mean_s R) * ll) over [batch, starts] (flat row s*B + b)
  rl4co.models.zoo.mvmoe.model.MVMoE_AM, rl4co.models.zoo.ham.model.HeterogeneousAttentionModel (pdp),
  rl4co.models.zoo.ptrnet.model.PointerNetwork, rl4co.models.zoo.l2d.model.L2DModel (fjsp / jssp)
        the inherited REINFORCE surrogate  L = -mean(scale(R - b) * ll)  on their own policies' outputs,
        b = 0 | EMA | supplied `extra`

Asserted (shared helpers of c16.py): loss value, gradient w.r.t. every policy parameter == gradient of the reference
surrogate built on the captured log-likelihood graph with R, b (and the Poppy mask) constant; reward / baseline value
carry no gradient; baseline value == reference (shape broadcastable to the reward); shared-baseline advantages sum to 0
per instance; every reward is the objective of its own action row on instance (row % B) (tsp / cvrp / pdp tour length,
atsp cost-matrix cycle; the scheduling makespan of L2D is not re-derived here, C07).
"""
import hypothesis.strategies as st
import torch

from .runner import HarnessError

SEED = st.integers(0, 2 ** 20)
KINDS = ["mdam", "mdam", "polynet", "polynet", "matnet", "mvmoe_pomo", "mvmoe_am", "ham", "ptrnet", "l2d"]
SHARED = ("polynet", "matnet", "mvmoe_pomo")  # shared baseline over the rollouts of an instance
EMBED = 32  # vf.policies._construct uses 4 heads; head_dim must be a multiple of 8


def _c16():
    from .props import c16

    return c16


@st.composite
def zoo_cases(draw, tier="quick"):
    c16 = _c16()
    kind = draw(st.sampled_from(KINDS))
    c = dict(kind=kind, B=draw(st.integers(2, 6)), spread=draw(st.sampled_from([1.0, 1.5, 2.0])), wseed=draw(SEED))
    if kind in ("mdam", "polynet", "mvmoe_pomo", "mvmoe_am"):
        c["env"] = draw(st.sampled_from(["tsp", "cvrp"]))
        c["n"] = draw(st.integers(4, 7))
    elif kind == "ptrnet":
        c["env"], c["n"] = "tsp", draw(st.integers(4, 7))
    elif kind == "matnet":
        c["env"], c["n"] = "atsp", draw(st.integers(4, 7))
    elif kind == "ham":
        c["env"], c["n"] = "pdp", draw(st.sampled_from([4, 6]))
    else:
        c["env"] = draw(st.sampled_from(["fjsp", "jssp"]))
        c["n"] = draw(st.integers(2, 3))  # jobs (2 machines, vf.policies.small_cfg shapes)
    if kind == "polynet":
        c["K"] = draw(st.integers(2, 4))
        c["norm"] = draw(st.sampled_from(["instance", "layer", "batch"]))
    if kind in ("matnet", "mvmoe_pomo"):
        c["S"] = draw(st.one_of(st.none(), st.integers(2, min(5, c["n"]))))
    stateful = False
    if kind not in SHARED:
        # (one_of branches: the per-instance `extra` baseline is the one MDAM has to unsqueeze against [batch, paths])
        c["bl"] = draw(st.one_of(st.just("extra"), st.sampled_from(["no", "mean", "exponential", "exponential"])))
        c["beta"] = draw(c16.BETAS)
        stateful = c["bl"] in ("mean", "exponential")
        if kind != "mdam":  # (MDAM.calculate_loss does not apply the advantage scaler: reward_scale stays None)
            c["reward_scale"] = draw(st.sampled_from([None, None, None, 10]))
    k = draw(st.integers(2, 3)) if stateful and draw(st.integers(0, 4)) > 0 else draw(st.integers(1, 2))
    c["steps"] = [dict(dseed=draw(SEED), sseed=draw(SEED)) for _ in range(k)]
    return c


# =========================================================================== builders
def _env(case):
    from .envs import SPECS
    from .policies import small_cfg

    _c16()._quiet()
    name = case["env"]
    if name in ("tsp", "cvrp"):
        return _c16().make_env(case)
    if name in ("fjsp", "jssp"):
        return SPECS[name].env(small_cfg(name, case["n"] + 2))
    return SPECS[name].env(small_cfg(name, case["n"]))


def _policy(case, env):
    from .policies import _construct

    c16 = _c16()
    kind = case["kind"]
    torch.manual_seed(case["wseed"])
    if kind == "polynet":
        from rl4co.models.zoo.polynet.policy import PolyNetPolicy

        pol = PolyNetPolicy(k=case["K"], env_name=case["env"], embed_dim=EMBED, num_encoder_layers=1, num_heads=4,
                            feedforward_hidden=2 * EMBED, normalization=case["norm"])
    else:
        key = {"mvmoe_pomo": "mvmoe", "mvmoe_am": "mvmoe"}.get(kind, kind)
        pol = _construct(key, case["env"], EMBED, None, env=env)
    with torch.no_grad():
        for p in pol.parameters():
            p.mul_(case["spread"])
    c16._assert_deterministic_module(pol)
    pol.train()
    return pol


def _model(case, env, pol):
    from rl4co.models import zoo as Z

    kind = case["kind"]
    if kind == "polynet":
        return Z.PolyNet(env, pol, k=case["K"], val_num_solutions=case["K"])
    if kind == "matnet":
        return Z.MatNet(env, pol, num_starts=case["S"])
    if kind == "mvmoe_pomo":
        return Z.MVMoE_POMO(env, pol, num_starts=case["S"])
    bl = case["bl"]
    kw = dict(reward_scale=case.get("reward_scale"))
    if kind == "mdam":
        kw = {}
    if bl == "exponential":
        kw.update(baseline="exponential", baseline_kwargs=dict(beta=case["beta"]))
    elif bl == "extra":
        kw.update(baseline="rollout")  # library default; with `extra` in the batch it must not be consulted
    else:
        kw.update(baseline=bl)
    cls = {"mdam": Z.MDAM, "mvmoe_am": Z.MVMoE_AM, "ham": Z.HeterogeneousAttentionModel, "ptrnet": Z.PointerNetwork,
           "l2d": Z.L2DModel}[kind]
    return cls(env, pol, **kw)


def _row_objective(envname, td0, actions, B):
    """float64 objective of flat action rows; row i belongs to instance i % B.  None where no oracle is bundled here."""
    c16 = _c16()
    if envname in ("tsp", "cvrp"):
        return c16.tour_reward(envname, td0["locs"], actions, B)
    if envname == "pdp":  # depot (index 0 of the reset locs) -> actions -> depot
        return c16.tour_reward("cvrp", td0["locs"], actions, B)
    if envname == "atsp":
        cm = td0["cost_matrix"].double()
        out = []
        for i in range(actions.shape[0]):
            a = actions[i]
            out.append(-(cm[i % B][a, a.roll(-1)]).sum())
        return torch.stack(out)
    return None


def exec_zoo(case, ctx):
    c16 = _c16()
    kind, B = case["kind"], case["B"]
    env = _env(case)
    pol = _policy(case, env)
    rec = c16.Recorder(pol)
    model = ctx.guard(_model, case, env, pol, what=f"{kind}.__init__")
    named = c16.uniq_named(("policy", pol))
    bl = case.get("bl", "shared")
    sig = f"zoo|{kind}|{bl}"
    c16._CUR["sig"] = sig
    ref_bl = None
    if bl in ("no", "mean", "exponential"):
        ref_bl = c16.RefBaseline(bl, case.get("beta"))
    scaler = c16.RefScaler(case.get("reward_scale"))
    if case.get("reward_scale") is not None:
        sig += "|scale=int"
    stateful = bl in ("mean", "exponential")
    ctx.event(f"kind={kind}|bl={bl}")
    idx = torch.arange(B)
    for k, stp in enumerate(case["steps"]):
        batch = c16.gen_batch(env, B, stp["dseed"])
        td0 = env.reset(batch.clone())
        extra = None
        if bl == "extra":
            g = torch.Generator().manual_seed(stp["dseed"] + 11)
            # a per-instance baseline of the magnitude of a tour length (what a rollout baseline would supply)
            extra = -(0.5 * case["n"] * (0.5 + torch.rand(B, generator=g)))
            batch.set("extra", extra.clone())
        rec.clear()
        torch.manual_seed(stp["sseed"])
        res = ctx.guard(model.shared_step, batch.clone(), k, "train", what=f"shared_step|{kind}")
        out = rec.calls[0][2]
        Rf, llf = out["reward"], out["log_likelihood"]
        ctx.check(res["loss"] is out["loss"] or float(res["loss"]) == float(out["loss"]), f"returned_loss|{sig}",
                  "shared_step does not return the computed loss")
        mask = None
        lb_ref = 0.0
        if kind in SHARED:
            N = Rf.shape[0]
            want_s = case.get("K") or case.get("S")
            if not ctx.check(Rf.dim() == 1 and N % B == 0 and N // B >= 2 and (want_s is None or N == B * want_s),
                             f"num_rollouts|{sig}", f"{N} rollouts for batch {B}, rollouts per instance {want_s}"):
                return
            S = N // B
            R = torch.stack([Rf[s * B + idx] for s in range(S)], 1)  # [B, S], own grouping of flat row s*B + b
            ll = torch.stack([llf[s * B + idx] for s in range(S)], 1)
            b64 = R.detach().double().mean(1, keepdim=True).expand_as(R)
            acts = out["actions"].reshape(N, -1) if out.get("actions") is not None else None
            Rrows = Rf
        elif kind == "mdam":
            if not ctx.check(Rf.dim() == 2 and Rf.shape[0] == B and Rf.shape == llf.shape, f"path_layout|{sig}",
                             f"reward {tuple(Rf.shape)}, log-likelihood {tuple(llf.shape)} for batch {B}"):
                return
            R, ll = Rf, llf
            ctx.event(f"mdam_paths={R.shape[1]}")
            # the policy returns the actions of its last decoder only
            acts, Rrows = out.get("actions"), Rf[:, -1]
        else:
            if not ctx.check(tuple(Rf.shape) == (B,) and tuple(llf.shape) == (B,), f"rollout_layout|{sig}",
                             f"reward {tuple(Rf.shape)}, log-likelihood {tuple(llf.shape)} for batch {B}"):
                return
            R, ll = Rf, llf
            acts, Rrows = out.get("actions"), Rf
        # every reward belongs to its own action row on instance row % B
        if acts is not None:
            ref_rows = _row_objective(case["env"], td0, acts.reshape(Rrows.shape[0], -1), B)
            if ref_rows is not None:
                bad = (Rrows.detach().double() - ref_rows).abs() > 1e-4
                ctx.check(not bool(bad.any()), f"reward_rows|{sig}",
                          "a reward is not the objective of its own rollout on instance (row % B)",
                          {"R": Rrows, "ref": ref_rows})
                ctx.event("reward_rows_checked")
        R64 = R.detach().double()
        if kind not in SHARED:
            if bl == "extra":
                b64 = extra.double() if R.dim() == 1 else extra.double()[:, None].expand_as(R)
            else:
                b64, lb_ref = ref_bl(td0, R)
        c16.check_no_grad_inputs(ctx, sig, Rf, llf, out["bl_val"])
        c16.check_bl_val(ctx, sig, out["bl_val"], b64, R, k)
        if kind in SHARED:
            adv = R64 - c16.as64(out["bl_val"], R64)
            ctx.check(bool((adv.sum(1).abs() <= 1e-5 * (1 + R64.abs().sum(1))).all()), f"adv_zero_sum|{sig}",
                      "shared-baseline advantages do not sum to 0 within an instance", {"adv": adv})
        if bl == "extra" and hasattr(model.baseline, "warmup_baseline"):
            ctx.check(model.baseline.warmup_baseline.v is None, f"baseline_consulted_despite_extra|{sig}",
                      "batch['extra'] was supplied but the model's own baseline was evaluated (its EMA moved)")
        if kind == "polynet":
            # Poppy: only the best rollout of every instance trains
            mx = R64.max(1, keepdim=True).values
            tied = (R64 == mx)
            if bool((tied.sum(1) > 1).any()):
                ctx.event("polynet|tied_maximum")
                contrib = (R64 - b64) * ll.detach().double()  # [B, K]
                big = torch.where(tied, contrib, torch.full_like(contrib, -float("inf"))).max(1).values
                small = torch.where(tied, contrib, torch.full_like(contrib, float("inf"))).min(1).values
                lo, hi = float(-big.sum() / R64.numel()), float(-small.sum() / R64.numel())
                scale = float(((R64.abs() + b64.abs()) * ll.detach().double().abs()).mean())
                tol = c16.VAL_RTOL * scale + 1e-9
                ctx.check(lo - tol <= float(out["loss"]) <= hi + tol, f"loss_value|{sig}|tied",
                          f"loss {float(out['loss']):.8g} outside [{lo:.8g}, {hi:.8g}], the values any choice among the "
                          f"tied best rollouts gives", {"R": R, "ll": ll})
                c16.mark(ctx, case, R, k + 1, False)
                continue
            ctx.event("polynet|unique_maximum")
            mask = tied.to(ll.dtype)
            ll = ll * mask  # reference surrogate: -mean((R - b) * ll * mask); the mask is a constant
        c16.check_surrogate(ctx, case, sig, out, named, R, ll, b64, lb_ref, scaler, k)
        c16.mark(ctx, case, R, k + 1, stateful)
    ctx.sample({k_: case[k_] for k_ in ("kind", "env", "n", "B") if k_ in case} | {"steps": len(case["steps"]),
                                                                                 "bl": bl})


def minimize_zoo(case):
    steps = case["steps"]
    if len(steps) > 1:
        yield {**case, "steps": steps[:-1]}
        yield {**case, "steps": steps[1:]}
    for key, lo in (("B", 3), ("B", 2), ("K", 2), ("S", 2)):
        if case.get(key) is not None and case[key] > lo:
            yield {**case, key: lo}
    for key, val in (("reward_scale", None), ("spread", 1.0), ("bl", "no")):
        if key in case and case[key] != val:
            yield {**case, key: val}
