"""Synthetic PDN data so that the decap-placement environments (DPP / MDPP) can be built offline.

The real chip/decap/frequency files cannot be downloaded in the sandbox. The selection logic (quota,
keep-out cells, probing ports, masks) does not depend on the physics, and the reward only needs well
conditioned complex impedance matrices, so random symmetric diagonally dominant matrices are written to a
scratch directory (created on first use, removed by the creating process at exit)."""
import atexit
import os
import shutil
import tempfile

import numpy as np

_DIR = None
_OWNER = None
SIZES = [4, 5, 6, 8, 10]
F = 3


def _cleanup():
    if _DIR and _OWNER == os.getpid():
        shutil.rmtree(_DIR, ignore_errors=True)


def data_dir():
    """Scratch directory with <s>x<s>_pkg_chip.npy for every size, 01nF_decap.npy, freq_201.npy."""
    global _DIR, _OWNER
    if _DIR is not None and os.path.isdir(_DIR):
        return _DIR
    d = tempfile.mkdtemp(prefix="vf-dpp-")
    rs = np.random.RandomState(12345)
    for s in SIZES:
        N = s * s
        A = (rs.rand(F, N, N) + 1j * rs.rand(F, N, N)) * 0.1
        A = A + np.transpose(A, (0, 2, 1))
        for f in range(F):
            A[f] += np.eye(N) * (N * 0.5)
        np.save(os.path.join(d, f"{s}x{s}_pkg_chip.npy"), A.astype(np.complex64))
    np.save(os.path.join(d, "01nF_decap.npy"), (rs.rand(F, 1, 1) + 1j * rs.rand(F, 1, 1)).astype(np.complex64))
    np.save(os.path.join(d, "freq_201.npy"), np.linspace(1e8, 1e9, F).astype(np.float32))
    _DIR, _OWNER = d, os.getpid()
    atexit.register(_cleanup)
    return d
