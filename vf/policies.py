"""Bundled constructive policies at toy size for the policy-level checks (C11, C13, C14, ...).

Public API (keep it small):

    ZOO                      list of (policy_key, env_name) pairs that run on CPU in this sandbox
    OWN_LOOP                 (policy_key, env_name) pairs with their own decoding loop (MultiStageFFSPPolicy, MDAM): built by
                             build_policy too, checked by dedicated sub-checks (C11 matnet_ffsp / mdam, C14 batchings)
    NO_FORCED_START          envs whose reset admits a single first move (no multistart / beam forced starts: C12)
    DROPPED                  {(policy_key, env_name) or policy_key: reason}  - entries of DESIGN's matrix that do not
    INFO[policy_key]         dict(batchnorm=bool, constructive=bool, multistart=bool, eval_only=bool)
    small_cfg(env_name, n)   -> config dict for vf.envs.SPECS[env_name] (cvrptw scale=True, mtsp >= 2 agents, ...)
    make_batch(env_name, cfg, B, seed, double=False) -> (env, instance_td, reset_td)
                             generator-drawn instance (torch seeded with `seed`), reset on a clone; `double` casts
                             every floating tensor of both to float64
    build_policy(policy_key, env_name, env=None, seed=0, spread=1.5, embed_dim=32, double=False, norm=None, opts=None)
                             -> nn.Module in eval() mode, dropout 0, parameters initialised under
                             torch.manual_seed(seed) and multiplied by `spread` (trainable tensors with dim >= 2
                             only: weight matrices, not biases / norm gains), cached per process.
                             `norm` overrides the normalisation ("batch" | "instance" | "layer") where the policy has one.
    expand_starts(td, k)     -> td repeated k times along the batch, start-major (row s*B + b), harness-own code
    has_batchnorm(policy)    -> True if any BatchNorm module is inside (train mode then couples the rows of a batch)
    env_cfgs(envn, n, tier)  -> Hypothesis strategy of configs of policy size n whose SIZE-NEUTRAL options are drawn from
                             vf.envs.SPECS[envn].cfg(tier) (WIDE_KEYS: capacities, vehicle_capacity, CVRPTW scale /
                             max_time, SVRP tech_costs, OP prize_type / max_length, PDP force_start, mTSP agents / cost
                             type, MTVRP preset / speed / scale_demand / backhaul_ratio / distance_limit, job-shop
                             machines / operations / processing times / mask_no_ops, MDCPDP modes)
    inst_sources(envn, cfg, B) -> strategy of {"src": "gen"} | {"src": "lat"|"flt"|"tgt", "lat": hand-built rows}
    env_shapes(envn, cfg)    -> strategy of None | config overrides for the ENV OBJECT only (vf.envs.ENV_SHAPE_FREE: env
                             built for another size than the instances it is given)
    make_batch(..., src="gen", lat=None, env_shape=None, env_via="object")
                             env_via "none" | "name": the caller hands env=None / the env name to the policy, which then
                             builds rl4co.envs.get_env(name) itself; make_batch returns the harness' own default-built
                             env of that name for the reference / oracles (default_env)
    policy_opts(key)         -> strategy of constructor switches (mask_inner, linear_bias_decoder, out_bias_pointer_attn,
                             sdpa variants incl. the library's own simple scaled-dot-product attention, check_nan,
                             feedforward_hidden, constructor temperature / tanh_clipping) accepted by
                             build_policy(..., opts=...) for OPT_KEYS (am, am_pomo, symnco); mdam: {"num_paths": 2|3};
                             ptrnet: {"ptr_tanh", "ptr_mask_inner"}
    setup_dims(key, envn, n, base_cfg, B, tier) -> strategy of the optional setup dimensions shared by C11-C14 (ecfg, src /
                             lat, env_shape, env_via, opts); resolve_setup(case, base_cfg) -> (cfg, make_batch kwargs);
                             setup_events(ctx, case, envn, cfg) -> class counters
    StartFn(offset, first)   a select_start_nodes_fn(td, env, num_starts) with known feasible starts (records its calls)
    FAMILY / family(key)     zoo variants (polynet_matnet, matnet_ctx, l2d_stepwise, mvmoe_k1 / mvmoe_kall / mvmoe_enc) share
                             the special rules of their family in the checks; `nar` = NonAutoregressivePolicy on the harness
                             stub encoder StubHeatmapEncoder; `nar_coarse` (not in ZOO, drawn by C13) = the same policy class
                             on vf.c13_heat.CoarseHeatmapEncoder (heat-map on a coarse log grid, opts = its parameters)

Spread init (DESIGN §2.4): freshly initialised policies emit nearly uniform distributions (exact ties); x1.25..2.5 on
the weight matrices gives mostly decisive (top-2 gap > 1e-4) and non-saturated steps; measured by C11 (decisive
fraction in evidence).  The global torch RNG state is preserved by build_policy.
"""
import hashlib
from collections import OrderedDict

import torch
import torch.nn as nn

from .envs import SPECS

# --------------------------------------------------------------------------- matrix
ZOO = [
    ("am", "tsp"), ("am", "cvrp"), ("am", "cvrptw"), ("am", "sdvrp"), ("am", "svrp"), ("am", "op"),
    ("am", "pctsp"), ("am", "spctsp"), ("am", "pdp"), ("am", "mtsp"), ("am", "mtvrp"), ("am", "smtwtp"),
    ("am_pomo", "tsp"), ("am_pomo", "cvrp"), ("am_pomo", "sdvrp"),
    ("symnco", "tsp"), ("symnco", "cvrp"),
    ("ham", "pdp"),
    ("matnet", "atsp"),
    ("polynet", "tsp"), ("polynet", "cvrp"),
    ("l2d", "jssp"), ("l2d", "fjsp"),
    ("mvmoe", "mtvrp"),
    ("ptrnet", "tsp"),
    # multi-depot pickup-delivery (AM falls back to the static dynamic-embedding, logged) and decap placement on the
    # synthetic PDN data of vf/eda.py (MDPP needs chips >= 8x8)
    ("am", "mdcpdp"), ("am", "dpp"), ("am", "mdpp"),
    # constructible variants that nothing else builds (audit item 38): PolyNet on a MatNet encoder (atsp), L2D with
    # stepwise encoding (no encoder, features re-extracted per step), MoE configurations where an expert may receive no
    # row (k=1), every expert every row (k == num_experts), MoE in the encoder only, and the non-autoregressive
    # template policy on a stub heat-map encoder (NonAutoregressiveDecoder: logits = heat-map row of the current node)
    ("polynet_matnet", "atsp"), ("l2d_stepwise", "jssp"), ("l2d_stepwise", "fjsp"),
    ("mvmoe_k1", "mtvrp"), ("mvmoe_kall", "mtvrp"), ("mvmoe_enc", "mtvrp"), ("nar", "tsp"),
    ("matnet_ctx", "atsp"),  # MatNetPolicy(use_graph_context=True, bias=True)
]
# zoo key -> the key whose special rules it shares in the checks (float64 support, start-index conditioning, ...)
FAMILY = {"polynet_matnet": "polynet", "l2d_stepwise": "l2d", "mvmoe_k1": "mvmoe", "mvmoe_kall": "mvmoe",
          "mvmoe_enc": "mvmoe", "matnet_ctx": "matnet"}


def family(key):
    return FAMILY.get(key, key)


# Policies with their OWN decoding loop (no DecodingStrategy, no evaluate path): dedicated sub-checks in C11 / C14.
#   matnet_ffsp  rl4co.models.zoo.matnet.policy.MultiStageFFSPPolicy on FFSPEnv(flatten_stages=False):
#                forward(td, env, phase, num_starts) -> reward, summed log_likelihood, actions
#   mdam         rl4co.models.zoo.mdam.MDAMPolicy: one reward / log-likelihood per decoder path, last path's actions
OWN_LOOP = [("matnet_ffsp", "ffsp"), ("mdam", "tsp"), ("mdam", "cvrp"), ("mdam", "op"), ("mdam", "pctsp")]
MDAM_PATHS = 3
# envs whose reset state admits exactly one first move: the generic start rule (nodes 1..k) can never be forced there
# (start rules are C12's business), so forced-start decode modes are not drawn for them
NO_FORCED_START = ("mdcpdp",)
DROPPED = {
    "l2d_attn": "L2DAttnPolicy cannot decode at all in the pinned tree ('tuple' object has no attribute 'node_embeddings')",
    "nargnn": "needs torch_geometric (not installed)",
    "deepaco": "needs torch_geometric / numba (not installed)",
    "mdam": "own multi-decoder loop, no evaluate path, one reward per path: not in ZOO; covered path-wise by the dedicated "
            "sub-checks (C11 `mdam`, C14 batchings); MDAM/sdvrp cannot decode at any batch size",
    ("matnet", "ffsp"): "MatNetPolicy(env_name='ffsp') cannot be constructed in the pinned tree (TypeError: "
                        "AttentionModelDecoder.__init__() got an unexpected keyword argument 'out_bias'); the FFSP model "
                        "that does run is MultiStageFFSPPolicy (OWN_LOOP entry matnet_ffsp)",
    "mvmoe_light": "light gating averages over the batch and samples an expert at inference (by design, DESIGN C14)",
}
INFO = {
    "am": dict(batchnorm=True, constructive=True, multistart=True),
    "am_pomo": dict(batchnorm=False, constructive=True, multistart=True),
    "symnco": dict(batchnorm=True, constructive=True, multistart=True),
    "ham": dict(batchnorm=True, constructive=True, multistart=True),
    "matnet": dict(batchnorm=False, constructive=True, multistart=True),
    "polynet": dict(batchnorm=False, constructive=True, multistart=True),
    # select_start_nodes raises NotImplementedError for jssp/fjsp (documented "not yet supported")
    "l2d": dict(batchnorm=True, constructive=True, multistart=False),
    # noisy gating adds fresh noise in train mode (by design): eval only
    "mvmoe": dict(batchnorm=True, constructive=True, multistart=True, eval_only=True),
    # PointerNetworkPolicy is not a ConstructivePolicy: own loop, `eval_tours` instead of `actions`, summed LL only
    "ptrnet": dict(batchnorm=False, constructive=False, multistart=False),
    # own loops (OWN_LOOP): instance norm (MatNet encoders) / batch norm (MDAM encoder); hard-coded float32 buffers
    "matnet_ffsp": dict(batchnorm=False, constructive=False, multistart=False),
    "mdam": dict(batchnorm=True, constructive=False, multistart=False),
    # NonAutoregressiveDecoder cannot decode a multisample request (the first step's logits keep the un-expanded batch:
    # IndexError on the pinned tree): greedy / sampling / multistart / beam / evaluate only
    "nar": dict(batchnorm=False, constructive=True, multistart=True, no_multisample=True),
    # same policy class on the coarse-grid stub encoder of vf/c13_heat.py (C13 only; not in ZOO: TSP at 3-36 nodes, opts =
    # heat-map parameters kind / g / levels / c / d / split)
    "nar_coarse": dict(batchnorm=False, constructive=True, multistart=True, no_multisample=True),
}
for _k, _f in FAMILY.items():
    INFO[_k] = dict(INFO[_f])
POLYNET_K = 3


# --------------------------------------------------------------------------- configs / data
def small_cfg(env_name, n):
    """A vf.envs.SPECS config of size n suitable for policy runs (generator defaults otherwise)."""
    n = int(n)
    if env_name in ("tsp", "pctsp", "spctsp", "smtwtp"):
        return {"n": n}
    if env_name == "atsp":
        return {"n": n, "tmat": True}
    if env_name in ("cvrp", "sdvrp"):
        return {"n": n, "capacity": None}
    if env_name == "cvrptw":
        # unscaled inputs (coordinates 0..150, times 0..480) saturate small networks: scale=True (GOTCHAS)
        return {"n": n, "capacity": None, "scale": True, "max_time": 480}
    if env_name == "svrp":
        return {"n": n, "tech_costs": [1, 2, 3]}
    if env_name == "op":
        return {"n": n, "prize_type": "dist", "max_length": None}
    if env_name == "pdp":
        return {"n": max(2, 2 * (n // 2)), "force_start": False}  # env default; multistart needs a free start
    if env_name == "mtsp":
        n = max(n, 4)
        return {"n": n, "min_agents": 2, "max_agents": 3, "cost_type": "minmax"}
    if env_name == "mtvrp":
        return {"n": n, "variant": "all"}
    if env_name == "jssp":
        return {"jobs": max(2, min(n - 2, 4)), "mas": 2, "min_ops": 2, "max_ops": 2, "one2one": True, "max_pt": 9,
                "mask_no_ops": True}
    if env_name == "fjsp":
        return {"jobs": max(2, min(n - 2, 4)), "mas": 2, "min_ops": 1, "max_ops": 2, "max_pt": 9, "max_elig": 2,
                "same_mean": False, "mask_no_ops": True}
    if env_name == "mdcpdp":
        # fixed episode length n + 2*depots - 1; one capacity per depot (generator)
        return {"n": max(2, 2 * (n // 2)), "depots": 2, "dist_mode": "L2", "reward_mode": "minmax",
                "problem_mode": "close", "depot_mode": "multiple", "max_cap": 2, "lw": 0.5}
    if env_name == "dpp":
        # synthetic PDN data (vf/eda.py): chip 4x4 / 5x5, quota n-2 decaps (fixed episode length), 1-3 keep-out cells
        return {"size": 4 if n <= 6 else 5, "k": max(2, n - 2), "keepout_min": 1, "keepout_max": 3}
    if env_name == "mdpp":
        # MDPP needs chips >= 8x8 (GOTCHAS): 64 cells, 1-3 probing ports
        return {"size": 8, "k": max(2, n - 2), "keepout_min": 1, "keepout_max": 3, "probes_min": 1, "probes_max": 3,
                "reward_type": "minmax"}
    if env_name == "ffsp":
        # un-flattened stages (what MultiStageFFSPPolicy asserts); run times 1..4; >= 3 jobs / 2 machines per stage (the
        # MatNet encoders normalise per instance over the job / machine axis: ill-conditioned over 2, undefined over 1)
        return {"jobs": max(3, min(n - 1, 5)), "stages": 2, "mas": 2, "max_time": 5, "flatten": False}
    raise KeyError(env_name)


# size-neutral options of vf.envs.SPECS[env].cfg(tier): drawn for the env under a policy (audit item 3); every other key
# of the config (sizes) stays what small_cfg fixes
WIDE_KEYS = {
    "atsp": ("tmat",),
    "cvrp": ("capacity", "vc"), "sdvrp": ("capacity", "vc"),
    "cvrptw": ("capacity", "scale", "max_time", "vc"),
    "svrp": ("tech_costs",),
    "op": ("prize_type", "max_length"),
    "pdp": ("force_start",),
    "mtvrp": ("variant", "speed", "scale_demand", "backhaul_ratio", "distance_limit"),
    "mdcpdp": ("depots", "dist_mode", "reward_mode", "problem_mode", "depot_mode", "max_cap", "lw"),
    # job shops: jobs stay small_cfg's; machines / operations per job / processing times / eligibility / no-op masking drawn
    "fjsp": ("mas", "min_ops", "max_ops", "max_pt", "max_elig", "same_mean", "mask_no_ops", "stepwise", "check_mask"),
    "jssp": ("mas", "min_ops", "max_ops", "one2one", "max_pt", "mask_no_ops", "stepwise", "check_mask"),
}


def env_cfgs(envn, n, tier="quick"):
    """Strategy of configs for SPECS[envn] at policy size n: small_cfg(envn, n) with the size-neutral keys (WIDE_KEYS)
    replaced by a draw of SPECS[envn].cfg(tier).  mTSP: agents range / cost type drawn here (the spec ties them to its
    own n).  Envs without such keys (tsp, pctsp, spctsp, smtwtp, dpp, mdpp, ffsp) get small_cfg."""
    import hypothesis.strategies as st
    base = small_cfg(envn, n)
    if envn == "mtsp":
        m = base["n"] - 1

        def mk(t):
            lo = min(t[0], m)
            return dict(base, min_agents=lo, max_agents=min(max(lo, lo + t[1]), m), cost_type=t[2])
        return st.tuples(st.integers(1, 4), st.integers(0, 3), st.sampled_from(["minmax", "minmax", "sum"])).map(mk)
    keys = WIDE_KEYS.get(envn)
    if not keys:
        return st.just(base)

    def overlay(full):
        cfg = dict(base)
        for k_ in keys:
            if k_ in full:  # (keys a spec may or may not draw yet: stepwise_reward / check_mask of the job shops)
                cfg[k_] = full[k_]
        if envn in ("fjsp", "jssp"):
            # toy policies: at most 3 machines / 3 operations per job (episode length)
            cfg["mas"] = min(int(cfg["mas"]), 3)
            cfg["max_ops"] = min(int(cfg["max_ops"]), 3)
            cfg["min_ops"] = min(int(cfg["min_ops"]), cfg["max_ops"])
            if envn == "jssp" and cfg.get("one2one"):
                cfg["min_ops"] = cfg["max_ops"] = cfg["mas"]  # documented precondition of the one-to-one machine map
            if envn == "fjsp":
                cfg["max_elig"] = max(1, min(int(cfg["max_elig"]), int(cfg["mas"])))
        return cfg
    return SPECS[envn].cfg(tier).map(overlay)


def inst_sources(envn, cfg, B):
    """Strategy of instance sources for a policy run: generator-drawn (3/4) or one of the hand-built sources the spec
    offers (lattice / off-lattice floats / tight time windows), as {"src":.., "lat": rows}."""
    import hypothesis.strategies as st
    spec = SPECS[envn]
    hand = [s_ for s_ in spec.sources if s_ != "gen"]
    if envn in ("dpp", "mdpp", "ffsp", "mdcpdp") or not hand:
        return st.just({"src": "gen"})

    @st.composite
    def pick(draw):
        if draw(st.integers(0, 3)) != 0:
            return {"src": "gen"}
        src = draw(st.sampled_from(hand))
        if src == "tgt":
            return {"src": src, "lat": draw(spec.tight(cfg, B))}
        return {"src": src, "lat": draw(spec.lattice(cfg, B, exact=(src == "lat")))}
    return pick()


def env_shapes(envn, cfg):
    """Strategy: None (5/6) or overrides of the size keys of vf.envs.ENV_SHAPE_FREE[envn] for the env OBJECT (an env
    built for another size than the instances it is handed; same rule as vf.envs.episode_cases)."""
    import hypothesis.strategies as st
    from .envs import ENV_SHAPE_FREE
    if envn not in ENV_SHAPE_FREE:
        return st.none()

    @st.composite
    def pick(draw):
        ov = {}
        for k_ in ENV_SHAPE_FREE[envn]:
            lo, hi = (1, 4) if k_ in ("jobs", "mas") else (2, 12)
            ov[k_] = draw(st.integers(lo, hi))
        if all(ov[k_] == cfg[k_] for k_ in ov):
            return None
        if envn == "fjsp":
            ov["max_elig"] = min(cfg["max_elig"], ov["mas"])
        return ov
    return pick()


# envs whose default-constructed object (rl4co.envs.get_env(name), generator for 20 nodes) decodes instances of any size
# exactly like an env built for them, PROVIDED the config keeps every env-constructor / generator-attribute option the
# env reads at reset / step / reward time at its default (probed on the pinned tree): policy(td, env=None | name)
# (MTVRPEnv() cannot be default-constructed on the pinned tree - "Cannot use subsample if variant_preset is not
#  specified" - and the default FJSPEnv / PCTSP / PDP / mTSP objects only take instances of their own default shape)
ENV_BY_NAME = {
    "tsp": {}, "op": {}, "svrp": {"tech_costs": [1, 2, 3]},
    # hand-built CVRP-family instances carry no vehicle capacity: the env object supplies its generator's (default 1)
    "cvrp": {"vc": 1.0}, "sdvrp": {"vc": 1.0}, "cvrptw": {"vc": 1.0},
}
_BY_NAME_DEFAULT = {"vc": 1.0}


def env_by_name_ok(envn, cfg):
    need = ENV_BY_NAME.get(envn)
    return need is not None and all(cfg.get(k_, _BY_NAME_DEFAULT.get(k_)) == v for k_, v in need.items())


def setup_dims(key, envn, n, base_cfg, B, tier="quick", by_name=True, shapes=True, sources=True, opts=True):
    """Strategy of the OPTIONAL setup dimensions shared by the policy-level checks (a dict; absent key = the module's
    frozen default, so cases recorded before these dimensions existed replay unchanged):
        ecfg       config with drawn size-neutral options (env_cfgs; 1/2 of the cases), else the caller's base_cfg
        src, lat   hand-built instances (inst_sources; CVRPTW hand-built instances are unscaled: ecfg.scale False)
        env_shape  env object built for another size (env_shapes; 1/6 for ENV_SHAPE_FREE names)
        env_via    "none" | "name": policy called with env=None / the env name (1/8 where env_by_name_ok)
        opts       constructor switches (policy_opts)
    Use resolve_setup(case, base_cfg) to get (cfg, make_batch kwargs)."""
    import hypothesis.strategies as st

    @st.composite
    def pick(draw):
        d = {}
        cfg = base_cfg
        if draw(st.booleans()):
            cfg = draw(env_cfgs(envn, n, tier))
            d["ecfg"] = cfg
            if sources:
                src = draw(inst_sources(envn, cfg, B))
                if src["src"] != "gen":
                    d.update(src)
                    if envn == "cvrptw":
                        d["ecfg"] = cfg = dict(cfg, scale=False)
        if shapes and draw(st.integers(0, 5)) == 0:
            sh = draw(env_shapes(envn, cfg))
            if sh:
                d["env_shape"] = sh
        if by_name and "env_shape" not in d and env_by_name_ok(envn, cfg) and draw(st.integers(0, 7)) == 0:
            d["env_via"] = draw(st.sampled_from(["none", "name"]))
        if opts:
            o = draw(policy_opts(key))
            if o:
                d["opts"] = o
        return d
    return pick()


def resolve_setup(case, base_cfg):
    """-> (cfg, kwargs for make_batch) of a case carrying setup_dims keys."""
    cfg = case.get("ecfg") or base_cfg
    kw = dict(src=case.get("src", "gen"), lat=case.get("lat"), env_shape=case.get("env_shape"),
              env_via=case.get("env_via", "object"))
    return cfg, kw


def setup_events(ctx, case, envn, cfg):
    """Class counters of the setup dimensions (generator measurement)."""
    if case.get("ecfg"):
        ctx.event("cfg:wide")
        ctx.event(f"cfg:wide|{envn}")
        if envn in ("fjsp", "jssp"):
            ctx.event(f"cfg:{envn}|{'mask_no_ops' if cfg['mask_no_ops'] else 'wait_allowed'}|mas={cfg['mas']}")
        if envn in ("cvrp", "sdvrp", "cvrptw") and cfg.get("vc", 1.0) != 1.0:
            ctx.event("cfg:vehicle_capacity!=1")
        if envn == "cvrptw":
            ctx.event(f"cfg:cvrptw|{'scaled' if cfg['scale'] else 'unscaled'}")
        if envn == "svrp":
            ctx.event("cfg:svrp|tech_costs" + ("=default" if list(cfg["tech_costs"]) == [1, 2, 3] else "!=default"))
        if envn == "op":
            ctx.event(f"cfg:op|{cfg['prize_type']}")
        if envn == "mtvrp":
            ctx.event("cfg:mtvrp|speed" + ("=1" if cfg.get("speed", 1.0) == 1.0 else "!=1")
                      + ("|unscaled_demand" if not cfg.get("scale_demand", True) else ""))
    else:
        ctx.event("cfg:frozen")
    ctx.event(f"src:{case.get('src', 'gen')}")
    if case.get("env_shape"):
        ctx.event("env:built_for_another_size")
        ctx.event(f"env:built_for_another_size|{envn}")
    if case.get("env_via", "object") != "object":
        ctx.event(f"env:given_as_{case['env_via']}")
    if case.get("opts"):
        ctx.event("ctor_switches")
        for k_, v in sorted(case["opts"].items()):
            ctx.event(f"ctor:{k_}={v}")


class StartFn:
    """A `select_start_nodes_fn(td, env, num_starts)` with known answers (documented hook of DecodingStrategy /
    BeamSearch): for instance b the feasible non-depot first moves of ITS reset mask, rotated by `offset`, the first
    num_starts of them (wrapping around when there are fewer: repeated starts), returned start-major (row j*B + b =
    start j of instance b).  Records every call (batch size, env object, num_starts) and the tensor it returned."""

    def __init__(self, offset, first):
        self.offset, self.first = int(offset), int(first)
        self.calls, self.out = [], None

    def __call__(self, td, env, num_starts):
        k = int(num_starts)
        m = td["action_mask"]
        B = m.shape[0]
        m = m.reshape(B, -1)
        self.calls.append((B, env, num_starts))
        out = torch.zeros(k * B, dtype=torch.long)
        for b in range(B):
            feas = [a for a in range(self.first, m.shape[1]) if bool(m[b, a])] or [0]
            o = self.offset % len(feas)
            rot = feas[o:] + feas[:o]
            for j in range(k):
                out[j * B + b] = rot[j % len(rot)]
        self.out = out.clone()
        return out


def to_double(td):
    td = td.clone()
    for k in list(td.keys()):
        v = td[k]
        if isinstance(v, torch.Tensor) and v.dtype == torch.float32:
            td[k] = v.double()
    return td


_DEFAULT_ENVS = {}


def default_env(env_name):
    """The env the policy builds when it is called with env=None / env=<name>: rl4co.envs.get_env(name) with every
    constructor default (harness-side object of the same construction, cached per process)."""
    if env_name not in _DEFAULT_ENVS:
        from rl4co.envs import get_env
        state = torch.get_rng_state()
        _DEFAULT_ENVS[env_name] = get_env(env_name)
        torch.set_rng_state(state)
    return _DEFAULT_ENVS[env_name]


def make_batch(env_name, cfg, B, seed, double=False, src="gen", lat=None, env_shape=None, env_via="object"):
    """-> (env, instance, reset td).  Instances: generator-drawn (src "gen", torch seeded with `seed`) or hand-built
    (src "lat" | "flt" | "tgt" with the drawn rows `lat`, through SPECS[env].instance).  env_shape: overrides of the
    config used for the ENV OBJECT only (the instances keep their own size).  env_via "none" | "name": the env object
    returned is the default-constructed one (what the policy builds itself when it is not handed an env object)."""
    spec = SPECS[env_name]
    ecfg = dict(cfg, **env_shape) if env_shape else cfg
    env = spec.env(ecfg) if env_via == "object" else default_env(env_name)
    state = torch.get_rng_state()
    if src == "gen" or lat is None:
        inst = spec.gen(cfg, B, seed)
    else:
        inst = spec.instance({"env": env_name, "cfg": cfg, "B": B, "src": src, "seed": seed, "lat": lat})
    torch.set_rng_state(state)
    if double:
        inst = to_double(inst)
    td = env.reset(inst.clone())  # reset writes into its argument (GOTCHAS)
    if double:
        td = to_double(td)
    return env, inst, td


def expand_starts(td, k):
    """Repeat every row k times, start-major: row s*B + b is a copy of row b (the layout the bundled
    multistart decoding uses; written here independently of rl4co.utils.ops.batchify)."""
    if k <= 1:
        return td.clone()
    return torch.cat([td.clone() for _ in range(k)], 0)


# --------------------------------------------------------------------------- deterministic MatNet init embedding
class DeterministicMatNetInit(nn.Module):
    """Functionally identical to rl4co MatNetInitEmbedding(mode='RandomOneHot') (zero row embeddings, one-hot column
    embeddings given by a permutation of the columns, the cost matrix passed through), except that the permutation is
    derived from a hash of the row's cost matrix instead of the global RNG (DESIGN §2.5).  Integer matrices (the FFSP
    run-time tables MultiStageFFSPPolicy feeds its stage encoders) get float32 embeddings as in the original (float64
    once the enclosing policy has been cast with .double())."""

    def __init__(self, embed_dim):
        super().__init__()
        self.embed_dim = embed_dim
        # follows .double() of the enclosing policy: dtype of the embeddings made for integer matrices
        self.register_buffer("_dtype_probe", torch.zeros(()), persistent=False)

    def forward(self, td):
        dmat = td["cost_matrix"]
        b, r, c = dmat.shape
        dt = dmat.dtype if dmat.dtype.is_floating_point else self._dtype_probe.dtype
        row_emb = torch.zeros(b, r, self.embed_dim, device=dmat.device, dtype=dt)
        col_emb = torch.zeros(b, c, self.embed_dim, device=dmat.device, dtype=dt)
        for i in range(b):
            raw = dmat[i].detach().to(torch.float32).contiguous().cpu().numpy().tobytes()
            s = int.from_bytes(hashlib.blake2b(raw, digest_size=8).digest(), "big") % (2 ** 62)
            g = torch.Generator().manual_seed(s)
            perm = torch.rand(c, generator=g).argsort()
            col_emb[i, torch.arange(c), perm] = 1.0
        return row_emb, col_emb, dmat


# --------------------------------------------------------------------------- construction
# constructor switches of AttentionModelPolicy (audit item 17); JSON-able values, translated by _am_kwargs
OPT_KEYS = ("am", "am_pomo", "symnco")
SDPA_VARIANTS = ("default", "simple_all", "simple_encoder", "simple_decoder", "decoder_str_simple", "decoder_str_default")


def policy_opts(key):
    """Strategy of constructor switches for the AttentionModelPolicy-based zoo keys (None = all defaults, 1/2):
    mask_inner, linear_bias_decoder, out_bias_pointer_attn, check_nan, feedforward_hidden (ff), sdpa (which scaled
    dot-product attention implementation the encoder / decoder use: torch's, or the library's own
    scaled_dot_product_attention_simple handed over as `sdpa_fn` (deprecated alias, both sides), `sdpa_fn_encoder`,
    `sdpa_fn_decoder` callables or the decoder's documented string form "simple" / "default"), and constructor-level
    temperature / tanh_clipping (ctor_temperature, ctor_tanh; 0 = no clipping)."""
    import hypothesis.strategies as st
    if key not in OPT_KEYS:
        return st.none()

    @st.composite
    def pick(draw):
        if draw(st.booleans()):
            return None
        o = {}
        if draw(st.integers(0, 2)) == 0:
            o["mask_inner"] = False
        if draw(st.integers(0, 2)) == 0:
            o["linear_bias_decoder"] = True
        if draw(st.integers(0, 2)) == 0:
            o["out_bias_pointer_attn"] = True
        if draw(st.integers(0, 3)) == 0:
            o["check_nan"] = False
        if draw(st.integers(0, 3)) == 0:
            o["ff"] = draw(st.sampled_from([16, 48, 128]))
        sd = draw(st.sampled_from(("default",) + SDPA_VARIANTS[1:] * 2))
        if sd != "default":
            o["sdpa"] = sd
        if draw(st.integers(0, 3)) == 0:
            o["ctor_temperature"] = draw(st.sampled_from([0.5, 2.0]))
        if draw(st.integers(0, 3)) == 0:
            o["ctor_tanh"] = draw(st.sampled_from([0.0, 5.0, 20.0]))
        return o or None
    return pick()


def _am_kwargs(opts):
    from rl4co.models.nn.attention import scaled_dot_product_attention_simple as simple
    kw = {}
    o = opts or {}
    for k_ in ("mask_inner", "linear_bias_decoder", "out_bias_pointer_attn", "check_nan"):
        if k_ in o:
            kw[k_] = bool(o[k_])
    if "ff" in o:
        kw["feedforward_hidden"] = int(o["ff"])
    sd = o.get("sdpa", "default")
    if sd == "simple_all":
        kw["sdpa_fn"] = simple
    elif sd == "simple_encoder":
        kw["sdpa_fn_encoder"] = simple
    elif sd == "simple_decoder":
        kw["sdpa_fn_decoder"] = simple
    elif sd == "decoder_str_simple":
        kw["sdpa_fn_decoder"] = "simple"
    elif sd == "decoder_str_default":
        kw["sdpa_fn_decoder"] = "default"
    elif sd != "default":
        raise KeyError(sd)
    if "ctor_temperature" in o:
        kw["temperature"] = float(o["ctor_temperature"])
    if "ctor_tanh" in o:
        kw["tanh_clipping"] = float(o["ctor_tanh"])
    return kw


def _construct(key, env_name, embed_dim, norm, env=None, opts=None):
    heads = 4
    ff = 2 * embed_dim
    okw = {}
    if opts and key not in ("mdam", "ptrnet", "nar_coarse"):
        if key not in OPT_KEYS:
            raise KeyError(f"constructor switches are not defined for zoo key {key}")
        okw = _am_kwargs(opts)
        ff = okw.pop("feedforward_hidden", ff)
    if key == "matnet_ffsp":
        from rl4co.models.zoo.matnet.policy import MultiStageFFSPPolicy
        p = MultiStageFFSPPolicy(stage_cnt=int(env.num_stage), embed_dim=embed_dim, num_heads=heads, num_encoder_layers=2,
                                 normalization=norm or "instance", feedforward_hidden=ff)
        for enc in p.encoders:  # RandomOneHot draws from the global RNG per forward (by design): DESIGN 2.5
            enc.init_embedding = DeterministicMatNetInit(embed_dim)
        return p
    if key == "mdam":
        from rl4co.models.zoo.mdam import MDAMPolicy
        # (num_paths=1 is not constructible into a working policy on the pinned tree: UnboundLocalError in the decoder)
        return MDAMPolicy(env_name=env_name, embed_dim=embed_dim, num_encoder_layers=2, num_heads=heads,
                          num_paths=int((opts or {}).get("num_paths", MDAM_PATHS)))
    if key == "am":
        from rl4co.models import AttentionModelPolicy
        return AttentionModelPolicy(env_name=env_name, embed_dim=embed_dim, num_encoder_layers=2, num_heads=heads,
                                    feedforward_hidden=ff, normalization=norm or "batch", **okw)
    if key == "am_pomo":
        # rl4co.models.zoo.pomo.model.POMO defaults: 6 layers, instance norm, no graph context
        from rl4co.models import AttentionModelPolicy
        return AttentionModelPolicy(env_name=env_name, embed_dim=embed_dim, num_encoder_layers=6, num_heads=heads,
                                    feedforward_hidden=ff, normalization=norm or "instance", use_graph_context=False, **okw)
    if key == "symnco":
        from rl4co.models.zoo.symnco import SymNCOPolicy
        return SymNCOPolicy(env_name=env_name, embed_dim=embed_dim, num_encoder_layers=2, num_heads=heads,
                            feedforward_hidden=ff, normalization=norm or "batch", **okw)
    if key == "ham":
        from rl4co.models.zoo.ham import HeterogeneousAttentionModelPolicy
        return HeterogeneousAttentionModelPolicy(env_name=env_name, embed_dim=embed_dim, num_encoder_layers=2,
                                                 num_heads=heads, feedforward_hidden=ff, normalization=norm or "batch")
    if key in ("matnet", "matnet_ctx"):
        from rl4co.models.zoo.matnet import MatNetPolicy
        mkw = dict(use_graph_context=True, bias=True) if key == "matnet_ctx" else {}
        p = MatNetPolicy(env_name=env_name, embed_dim=embed_dim, num_encoder_layers=2, num_heads=heads,
                         normalization=norm or "instance", **mkw)
        p.encoder.init_embedding = DeterministicMatNetInit(embed_dim)
        return p
    if key == "polynet":
        from rl4co.models.zoo.polynet.policy import PolyNetPolicy
        return PolyNetPolicy(k=POLYNET_K, env_name=env_name, embed_dim=embed_dim, num_encoder_layers=2, num_heads=heads,
                             feedforward_hidden=ff, normalization=norm or "instance")
    if key == "l2d":
        from rl4co.models.zoo.l2d import L2DPolicy
        return L2DPolicy(env_name=env_name, embed_dim=embed_dim, num_encoder_layers=2)
    if key == "mvmoe":
        from rl4co.models import AttentionModelPolicy
        moe = {"encoder": {"hidden_act": "ReLU", "num_experts": 4, "k": 2, "noisy_gating": True},
               "decoder": {"light_version": False, "num_experts": 4, "k": 2, "noisy_gating": True}}
        # (MVMoE_AM's own default decoder kwargs carry "out_bias": False, which PointerAttnMoE passes twice to MoE()
        #  -> TypeError at construction; the MVMoE_POMO decoder kwargs used here construct fine)
        return AttentionModelPolicy(env_name=env_name, embed_dim=embed_dim, num_encoder_layers=2, num_heads=heads,
                                    feedforward_hidden=ff, normalization=norm or "batch", moe_kwargs=moe)
    if key == "ptrnet":
        from rl4co.models import PointerNetworkPolicy
        o = opts or {}
        pkw = {}
        if "ptr_tanh" in o:      # pointer tanh clipping of the constructor (0 = none; default 10)
            pkw["tanh_clipping"] = float(o["ptr_tanh"])
        if "ptr_mask_inner" in o:  # mask the glimpse attention as well (default True)
            pkw["mask_inner"] = bool(o["ptr_mask_inner"])
        return PointerNetworkPolicy(env_name=env_name, embed_dim=embed_dim, hidden_dim=embed_dim, **pkw)
    if key == "polynet_matnet":
        from rl4co.models.zoo.polynet.policy import PolyNetPolicy
        p = PolyNetPolicy(k=POLYNET_K, encoder_type="MatNet", env_name=env_name, embed_dim=embed_dim, num_encoder_layers=2,
                          num_heads=heads, feedforward_hidden=ff, normalization=norm or "instance")
        p.encoder.init_embedding = DeterministicMatNetInit(embed_dim)
        return p
    if key == "l2d_stepwise":
        from rl4co.models.zoo.l2d import L2DPolicy
        return L2DPolicy(env_name=env_name, embed_dim=embed_dim, num_encoder_layers=2, stepwise_encoding=True)
    if key in ("mvmoe_k1", "mvmoe_kall", "mvmoe_enc"):
        from rl4co.models import AttentionModelPolicy
        ne, kk = {"mvmoe_k1": (4, 1), "mvmoe_kall": (3, 3), "mvmoe_enc": (4, 2)}[key]
        enc = {"hidden_act": "ReLU", "num_experts": ne, "k": kk, "noisy_gating": True}
        dec = None if key == "mvmoe_enc" else {"light_version": False, "num_experts": ne, "k": kk, "noisy_gating": True}
        return AttentionModelPolicy(env_name=env_name, embed_dim=embed_dim, num_encoder_layers=2, num_heads=heads,
                                    feedforward_hidden=ff, normalization=norm or "batch",
                                    moe_kwargs={"encoder": enc, "decoder": dec})
    if key == "nar":
        from rl4co.models.common.constructive.nonautoregressive import NonAutoregressivePolicy
        return NonAutoregressivePolicy(StubHeatmapEncoder(embed_dim), env_name=env_name)
    if key == "nar_coarse":
        # heat-map on a coarse log scale (accumulated beam scores tens of nats apart, numerically deterministic rows, exact
        # ties): vf/c13_heat.py; opts = {"kind": "two_speed" | "quant", "g", "levels", "c", "d", "split"}
        from rl4co.models.common.constructive.nonautoregressive import NonAutoregressivePolicy
        from .c13_heat import CoarseHeatmapEncoder
        return NonAutoregressivePolicy(CoarseHeatmapEncoder(embed_dim, opts), env_name=env_name)
    raise KeyError(key)


class StubHeatmapEncoder(nn.Module):
    """Harness stub for NonAutoregressivePolicy (the bundled heat-map encoders need torch_geometric): per-node features
    tanh(W locs), heat-map logits h_i^T M h_j  ->  ([B,N,N] heat-map logits, [B,N,E] init embeddings)."""

    def __init__(self, embed_dim):
        super().__init__()
        self.lin = nn.Linear(2, embed_dim)
        self.mix = nn.Linear(embed_dim, embed_dim, bias=False)

    def forward(self, td):
        h = torch.tanh(self.lin(td["locs"]))
        return torch.einsum("bie,bje->bij", self.mix(h), h), h


# --------------------------------------------------------------------------- mixture-of-experts gates
# rl4co initialises the gate weights of every MoE layer with zeros: in a freshly built model every token goes to experts
# (0, 1) with gates 0.5 / 0.5 and the dispatcher's re-ordering logic is never exercised.  Harness policies get random gate
# weights (what training produces), so tokens of one batch go to different experts with different gate values.  The expert
# choice is a discrete top-k: where the k-th and (k+1)-th gate logits of some token coincide within float32 rounding, the
# choice may legitimately differ between two batch layouts of the same computation - a forward pre-hook records the
# smallest such margin since the last `moe_watch`, and comparisons across layouts are don't-care below MOE_THR.
MOE_MARGIN = {"min": float("inf")}
MOE_THR = 1e-3


def _arm_moe(policy):
    from rl4co.models.nn.moe import MoE

    def pre(mod, args):
        if mod.k < mod.num_experts and not (mod.noisy_gating and mod.training):
            x = args[0].detach()
            lg = (x.reshape(-1, mod.input_size) @ mod.w_gate).float()
            if lg.numel():
                top = lg.topk(mod.k + 1, dim=-1).values
                MOE_MARGIN["min"] = min(MOE_MARGIN["min"], float((top[:, mod.k - 1] - top[:, mod.k]).min()))

    for m in policy.modules():
        if isinstance(m, MoE):
            with torch.no_grad():
                m.w_gate.normal_(0.0, 0.5)
            m.register_forward_pre_hook(pre)


def moe_watch(ctx):
    """Start watching the gate margins for the current case (see above)."""
    MOE_MARGIN["min"] = float("inf")
    ctx.dontcare_probe = lambda sig: ("moe_expert_choice_within_rounding" if MOE_MARGIN["min"] < MOE_THR else None)


def has_batchnorm(policy):
    return any(isinstance(m, nn.modules.batchnorm._BatchNorm) for m in policy.modules())


_CACHE = OrderedDict()


def build_policy(policy_key, env_name, env=None, seed=0, spread=1.5, embed_dim=32, double=False, norm=None, opts=None):
    import json
    ck = (policy_key, env_name, int(seed), float(spread), int(embed_dim), bool(double), norm,
          int(env.num_stage) if policy_key == "matnet_ffsp" else None, json.dumps(opts, sort_keys=True) if opts else None)
    if ck in _CACHE:
        _CACHE.move_to_end(ck)
        p = _CACHE[ck]
        p.eval()
        return p
    state = torch.get_rng_state()
    try:
        torch.manual_seed(int(seed))
        p = _construct(policy_key, env_name, embed_dim, norm, env, opts)
        _arm_moe(p)
        with torch.no_grad():
            for name, prm in p.named_parameters():
                if prm.requires_grad and prm.dim() >= 2:
                    prm.mul_(float(spread))
    finally:
        torch.set_rng_state(state)
    # No bundled policy of the zoo has an active dropout on the pinned tree (every nn.Dropout / LSTM dropout is built with
    # p = 0: measured for all keys), which is what makes a train-mode forward pass a deterministic function of its inputs -
    # the harness must NOT zero dropouts itself: a dropout that becomes active (a lost `dropout=0.0` argument) has to show
    # in the train-mode cases of C11 / C16.
    if double:
        p = p.double()
    p.eval()
    _CACHE[ck] = p
    while len(_CACHE) > 48:
        _CACHE.popitem(last=False)
    return p
