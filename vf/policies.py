"""Bundled constructive policies at toy size for the policy-level checks (C11, C13, C14, ...).

Public API (keep it small):

    ZOO                      list of (policy_key, env_name) pairs that run on CPU in this sandbox
    OWN_LOOP                 (policy_key, env_name) pairs with their own decoding loop (MultiStageFFSPPolicy, MDAM): built by
                             build_policy too, checked by dedicated sub-checks (C11 matnet_ffsp / mdam, C14 batchings)
    NO_FORCED_START          envs whose reset admits a single first move (no multistart / beam forced starts: C12)
    DROPPED                  {(policy_key, env_name) or policy_key: reason}  - entries of DESIGN's matrix that do not
    INFO[policy_key]         dict(batchnorm=bool, constructive=bool, multistart=bool, eval_only=bool)
    small_cfg(env_name, n)   -> config dict for vf.envs.SPECS[env_name] (cvrptw scale=True, mtsp >= 2 agents, ...)
    make_batch(env_name, cfg, B, seed, double=False) -> (env, instance_td, reset_td)
                             generator-drawn instance (torch seeded with `seed`), reset on a clone; `double` casts
                             every floating tensor of both to float64
    build_policy(policy_key, env_name, env=None, seed=0, spread=1.5, embed_dim=32, double=False, norm=None)
                             -> nn.Module in eval() mode, dropout 0, parameters initialised under
                             torch.manual_seed(seed) and multiplied by `spread` (trainable tensors with dim >= 2
                             only: weight matrices, not biases / norm gains), cached per process.
                             `norm` overrides the normalisation ("batch" | "instance" | "layer") where the policy has one.
    expand_starts(td, k)     -> td repeated k times along the batch, start-major (row s*B + b), harness-own code
    has_batchnorm(policy)    -> True if any BatchNorm module is inside (train mode then couples the rows of a batch)

Spread init (DESIGN §2.4): freshly initialised policies emit nearly uniform distributions (exact ties); x1.25..2.5 on
the weight matrices gives mostly decisive (top-2 gap > 1e-4) and non-saturated steps; measured by C11 (decisive
fraction in evidence).  The global torch RNG state is preserved by build_policy.
"""
import hashlib
from collections import OrderedDict

import torch
import torch.nn as nn

from .envs import SPECS

# --------------------------------------------------------------------------- matrix
ZOO = [
    ("am", "tsp"), ("am", "cvrp"), ("am", "cvrptw"), ("am", "sdvrp"), ("am", "svrp"), ("am", "op"),
    ("am", "pctsp"), ("am", "spctsp"), ("am", "pdp"), ("am", "mtsp"), ("am", "mtvrp"), ("am", "smtwtp"),
    ("am_pomo", "tsp"), ("am_pomo", "cvrp"), ("am_pomo", "sdvrp"),
    ("symnco", "tsp"), ("symnco", "cvrp"),
    ("ham", "pdp"),
    ("matnet", "atsp"),
    ("polynet", "tsp"), ("polynet", "cvrp"),
    ("l2d", "jssp"), ("l2d", "fjsp"),
    ("mvmoe", "mtvrp"),
    ("ptrnet", "tsp"),
    # multi-depot pickup-delivery (AM falls back to the static dynamic-embedding, logged) and decap placement on the
    # synthetic PDN data of vf/eda.py (MDPP needs chips >= 8x8)
    ("am", "mdcpdp"), ("am", "dpp"), ("am", "mdpp"),
]
# Policies with their OWN decoding loop (no DecodingStrategy, no evaluate path): dedicated sub-checks in C11 / C14.
#   matnet_ffsp  rl4co.models.zoo.matnet.policy.MultiStageFFSPPolicy on FFSPEnv(flatten_stages=False):
#                forward(td, env, phase, num_starts) -> reward, summed log_likelihood, actions
#   mdam         rl4co.models.zoo.mdam.MDAMPolicy: one reward / log-likelihood per decoder path, last path's actions
OWN_LOOP = [("matnet_ffsp", "ffsp"), ("mdam", "tsp"), ("mdam", "cvrp"), ("mdam", "op"), ("mdam", "pctsp")]
MDAM_PATHS = 3
# envs whose reset state admits exactly one first move: the generic start rule (nodes 1..k) can never be forced there
# (start rules are C12's business), so forced-start decode modes are not drawn for them
NO_FORCED_START = ("mdcpdp",)
DROPPED = {
    "l2d_attn": "L2DAttnPolicy cannot decode at all in the pinned tree ('tuple' object has no attribute 'node_embeddings')",
    "nargnn": "needs torch_geometric (not installed)",
    "deepaco": "needs torch_geometric / numba (not installed)",
    "mdam": "own multi-decoder loop, no evaluate path, one reward per path: not in ZOO; covered path-wise by the dedicated "
            "sub-checks (C11 `mdam`, C14 batchings); MDAM/sdvrp cannot decode at any batch size",
    ("matnet", "ffsp"): "MatNetPolicy(env_name='ffsp') cannot be constructed in the pinned tree (TypeError: "
                        "AttentionModelDecoder.__init__() got an unexpected keyword argument 'out_bias'); the FFSP model "
                        "that does run is MultiStageFFSPPolicy (OWN_LOOP entry matnet_ffsp)",
    "mvmoe_light": "light gating averages over the batch and samples an expert at inference (by design, DESIGN C14)",
}
INFO = {
    "am": dict(batchnorm=True, constructive=True, multistart=True),
    "am_pomo": dict(batchnorm=False, constructive=True, multistart=True),
    "symnco": dict(batchnorm=True, constructive=True, multistart=True),
    "ham": dict(batchnorm=True, constructive=True, multistart=True),
    "matnet": dict(batchnorm=False, constructive=True, multistart=True),
    "polynet": dict(batchnorm=False, constructive=True, multistart=True),
    # select_start_nodes raises NotImplementedError for jssp/fjsp (documented "not yet supported")
    "l2d": dict(batchnorm=True, constructive=True, multistart=False),
    # noisy gating adds fresh noise in train mode (by design): eval only
    "mvmoe": dict(batchnorm=True, constructive=True, multistart=True, eval_only=True),
    # PointerNetworkPolicy is not a ConstructivePolicy: own loop, `eval_tours` instead of `actions`, summed LL only
    "ptrnet": dict(batchnorm=False, constructive=False, multistart=False),
    # own loops (OWN_LOOP): instance norm (MatNet encoders) / batch norm (MDAM encoder); hard-coded float32 buffers
    "matnet_ffsp": dict(batchnorm=False, constructive=False, multistart=False),
    "mdam": dict(batchnorm=True, constructive=False, multistart=False),
}
POLYNET_K = 3


# --------------------------------------------------------------------------- configs / data
def small_cfg(env_name, n):
    """A vf.envs.SPECS config of size n suitable for policy runs (generator defaults otherwise)."""
    n = int(n)
    if env_name in ("tsp", "pctsp", "spctsp", "smtwtp"):
        return {"n": n}
    if env_name == "atsp":
        return {"n": n, "tmat": True}
    if env_name in ("cvrp", "sdvrp"):
        return {"n": n, "capacity": None}
    if env_name == "cvrptw":
        # unscaled inputs (coordinates 0..150, times 0..480) saturate small networks: scale=True (GOTCHAS)
        return {"n": n, "capacity": None, "scale": True, "max_time": 480}
    if env_name == "svrp":
        return {"n": n, "tech_costs": [1, 2, 3]}
    if env_name == "op":
        return {"n": n, "prize_type": "dist", "max_length": None}
    if env_name == "pdp":
        return {"n": max(2, 2 * (n // 2)), "force_start": False}  # env default; multistart needs a free start
    if env_name == "mtsp":
        n = max(n, 4)
        return {"n": n, "min_agents": 2, "max_agents": 3, "cost_type": "minmax"}
    if env_name == "mtvrp":
        return {"n": n, "variant": "all"}
    if env_name == "jssp":
        return {"jobs": max(2, min(n - 2, 4)), "mas": 2, "min_ops": 2, "max_ops": 2, "one2one": True, "max_pt": 9,
                "mask_no_ops": True}
    if env_name == "fjsp":
        return {"jobs": max(2, min(n - 2, 4)), "mas": 2, "min_ops": 1, "max_ops": 2, "max_pt": 9, "max_elig": 2,
                "same_mean": False, "mask_no_ops": True}
    if env_name == "mdcpdp":
        # fixed episode length n + 2*depots - 1; one capacity per depot (generator)
        return {"n": max(2, 2 * (n // 2)), "depots": 2, "dist_mode": "L2", "reward_mode": "minmax",
                "problem_mode": "close", "depot_mode": "multiple", "max_cap": 2, "lw": 0.5}
    if env_name == "dpp":
        # synthetic PDN data (vf/eda.py): chip 4x4 / 5x5, quota n-2 decaps (fixed episode length), 1-3 keep-out cells
        return {"size": 4 if n <= 6 else 5, "k": max(2, n - 2), "keepout_min": 1, "keepout_max": 3}
    if env_name == "mdpp":
        # MDPP needs chips >= 8x8 (GOTCHAS): 64 cells, 1-3 probing ports
        return {"size": 8, "k": max(2, n - 2), "keepout_min": 1, "keepout_max": 3, "probes_min": 1, "probes_max": 3,
                "reward_type": "minmax"}
    if env_name == "ffsp":
        # un-flattened stages (what MultiStageFFSPPolicy asserts); run times 1..4; >= 3 jobs / 2 machines per stage (the
        # MatNet encoders normalise per instance over the job / machine axis: ill-conditioned over 2, undefined over 1)
        return {"jobs": max(3, min(n - 1, 5)), "stages": 2, "mas": 2, "max_time": 5, "flatten": False}
    raise KeyError(env_name)


def to_double(td):
    td = td.clone()
    for k in list(td.keys()):
        v = td[k]
        if isinstance(v, torch.Tensor) and v.dtype == torch.float32:
            td[k] = v.double()
    return td


def make_batch(env_name, cfg, B, seed, double=False):
    spec = SPECS[env_name]
    env = spec.env(cfg)
    state = torch.get_rng_state()
    inst = spec.gen(cfg, B, seed)
    torch.set_rng_state(state)
    if double:
        inst = to_double(inst)
    td = env.reset(inst.clone())  # reset writes into its argument (GOTCHAS)
    if double:
        td = to_double(td)
    return env, inst, td


def expand_starts(td, k):
    """Repeat every row k times, start-major: row s*B + b is a copy of row b (the layout the bundled
    multistart decoding uses; written here independently of rl4co.utils.ops.batchify)."""
    if k <= 1:
        return td.clone()
    return torch.cat([td.clone() for _ in range(k)], 0)


# --------------------------------------------------------------------------- deterministic MatNet init embedding
class DeterministicMatNetInit(nn.Module):
    """Functionally identical to rl4co MatNetInitEmbedding(mode='RandomOneHot') (zero row embeddings, one-hot column
    embeddings given by a permutation of the columns, the cost matrix passed through), except that the permutation is
    derived from a hash of the row's cost matrix instead of the global RNG (DESIGN §2.5).  Integer matrices (the FFSP
    run-time tables MultiStageFFSPPolicy feeds its stage encoders) get float32 embeddings as in the original (float64
    once the enclosing policy has been cast with .double())."""

    def __init__(self, embed_dim):
        super().__init__()
        self.embed_dim = embed_dim
        # follows .double() of the enclosing policy: dtype of the embeddings made for integer matrices
        self.register_buffer("_dtype_probe", torch.zeros(()), persistent=False)

    def forward(self, td):
        dmat = td["cost_matrix"]
        b, r, c = dmat.shape
        dt = dmat.dtype if dmat.dtype.is_floating_point else self._dtype_probe.dtype
        row_emb = torch.zeros(b, r, self.embed_dim, device=dmat.device, dtype=dt)
        col_emb = torch.zeros(b, c, self.embed_dim, device=dmat.device, dtype=dt)
        for i in range(b):
            raw = dmat[i].detach().to(torch.float32).contiguous().cpu().numpy().tobytes()
            s = int.from_bytes(hashlib.blake2b(raw, digest_size=8).digest(), "big") % (2 ** 62)
            g = torch.Generator().manual_seed(s)
            perm = torch.rand(c, generator=g).argsort()
            col_emb[i, torch.arange(c), perm] = 1.0
        return row_emb, col_emb, dmat


# --------------------------------------------------------------------------- construction
def _construct(key, env_name, embed_dim, norm, env=None):
    heads = 4
    ff = 2 * embed_dim
    if key == "matnet_ffsp":
        from rl4co.models.zoo.matnet.policy import MultiStageFFSPPolicy
        p = MultiStageFFSPPolicy(stage_cnt=int(env.num_stage), embed_dim=embed_dim, num_heads=heads, num_encoder_layers=2,
                                 normalization=norm or "instance", feedforward_hidden=ff)
        for enc in p.encoders:  # RandomOneHot draws from the global RNG per forward (by design): DESIGN 2.5
            enc.init_embedding = DeterministicMatNetInit(embed_dim)
        return p
    if key == "mdam":
        from rl4co.models.zoo.mdam import MDAMPolicy
        return MDAMPolicy(env_name=env_name, embed_dim=embed_dim, num_encoder_layers=2, num_heads=heads,
                          num_paths=MDAM_PATHS)
    if key == "am":
        from rl4co.models import AttentionModelPolicy
        return AttentionModelPolicy(env_name=env_name, embed_dim=embed_dim, num_encoder_layers=2, num_heads=heads,
                                    feedforward_hidden=ff, normalization=norm or "batch")
    if key == "am_pomo":
        # rl4co.models.zoo.pomo.model.POMO defaults: 6 layers, instance norm, no graph context
        from rl4co.models import AttentionModelPolicy
        return AttentionModelPolicy(env_name=env_name, embed_dim=embed_dim, num_encoder_layers=6, num_heads=heads,
                                    feedforward_hidden=ff, normalization=norm or "instance", use_graph_context=False)
    if key == "symnco":
        from rl4co.models.zoo.symnco import SymNCOPolicy
        return SymNCOPolicy(env_name=env_name, embed_dim=embed_dim, num_encoder_layers=2, num_heads=heads,
                            feedforward_hidden=ff, normalization=norm or "batch")
    if key == "ham":
        from rl4co.models.zoo.ham import HeterogeneousAttentionModelPolicy
        return HeterogeneousAttentionModelPolicy(env_name=env_name, embed_dim=embed_dim, num_encoder_layers=2,
                                                 num_heads=heads, feedforward_hidden=ff, normalization=norm or "batch")
    if key == "matnet":
        from rl4co.models.zoo.matnet import MatNetPolicy
        p = MatNetPolicy(env_name=env_name, embed_dim=embed_dim, num_encoder_layers=2, num_heads=heads,
                         normalization=norm or "instance")
        p.encoder.init_embedding = DeterministicMatNetInit(embed_dim)
        return p
    if key == "polynet":
        from rl4co.models.zoo.polynet.policy import PolyNetPolicy
        return PolyNetPolicy(k=POLYNET_K, env_name=env_name, embed_dim=embed_dim, num_encoder_layers=2, num_heads=heads,
                             feedforward_hidden=ff, normalization=norm or "instance")
    if key == "l2d":
        from rl4co.models.zoo.l2d import L2DPolicy
        return L2DPolicy(env_name=env_name, embed_dim=embed_dim, num_encoder_layers=2)
    if key == "mvmoe":
        from rl4co.models import AttentionModelPolicy
        moe = {"encoder": {"hidden_act": "ReLU", "num_experts": 4, "k": 2, "noisy_gating": True},
               "decoder": {"light_version": False, "num_experts": 4, "k": 2, "noisy_gating": True}}
        # (MVMoE_AM's own default decoder kwargs carry "out_bias": False, which PointerAttnMoE passes twice to MoE()
        #  -> TypeError at construction; the MVMoE_POMO decoder kwargs used here construct fine)
        return AttentionModelPolicy(env_name=env_name, embed_dim=embed_dim, num_encoder_layers=2, num_heads=heads,
                                    feedforward_hidden=ff, normalization=norm or "batch", moe_kwargs=moe)
    if key == "ptrnet":
        from rl4co.models import PointerNetworkPolicy
        return PointerNetworkPolicy(env_name=env_name, embed_dim=embed_dim, hidden_dim=embed_dim)
    raise KeyError(key)


def has_batchnorm(policy):
    return any(isinstance(m, nn.modules.batchnorm._BatchNorm) for m in policy.modules())


_CACHE = OrderedDict()


def build_policy(policy_key, env_name, env=None, seed=0, spread=1.5, embed_dim=32, double=False, norm=None):
    ck = (policy_key, env_name, int(seed), float(spread), int(embed_dim), bool(double), norm,
          int(env.num_stage) if policy_key == "matnet_ffsp" else None)
    if ck in _CACHE:
        _CACHE.move_to_end(ck)
        p = _CACHE[ck]
        p.eval()
        return p
    state = torch.get_rng_state()
    try:
        torch.manual_seed(int(seed))
        p = _construct(policy_key, env_name, embed_dim, norm, env)
        with torch.no_grad():
            for name, prm in p.named_parameters():
                if prm.requires_grad and prm.dim() >= 2:
                    prm.mul_(float(spread))
    finally:
        torch.set_rng_state(state)
    for m in p.modules():
        if isinstance(m, nn.Dropout):
            m.p = 0.0
        if isinstance(m, (nn.LSTM, nn.GRU)):
            m.dropout = 0.0
    if double:
        p = p.double()
    p.eval()
    _CACHE[ck] = p
    while len(_CACHE) > 48:
        _CACHE.popitem(last=False)
    return p
