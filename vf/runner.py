"""Check runner: sharded Hypothesis search, evidence, replay files, exit protocol.

A property module (vf/props/cXX.py) exports
    PROPERTY = "Cxx"
    SUBS     = [Sub(...), ...]
    RULE     = "how cases are generated / what is non-trivial" (evidence text)
    ASSUMPTIONS = [...]
Every sub-check is (strategy of JSON-able *cases*, execute(case, ctx)).  All work is
done by execute(), so a replay is execute(json.load(file)["case"]) with no Hypothesis.
"""
from __future__ import annotations

import dataclasses
import hashlib
import importlib
import json
import math
import os
import sys
import time
import traceback
from collections import Counter
from typing import Any, Callable, Optional

from .findings import Known

HERE = os.path.dirname(os.path.dirname(os.path.abspath(__file__)))
REPO = os.environ.get("VF_REPO", "/repo")


# --------------------------------------------------------------------------- errors
class Violation(Exception):
    def __init__(self, payload):
        super().__init__(payload.get("msg", ""))
        self.payload = payload


class SkipCase(Exception):
    """Abort the current case without verdict (known finding hit, excluded slice)."""


class HarnessError(Exception):
    pass


class CaseTimeout(BaseException):
    """A single case ran into the hard wall-clock limit: abandoned without verdict (inconclusive).  Not an Exception, so
    that no `except Exception` of the code under test or of a check swallows or reinterprets it."""


def _hard_limit(tier):
    return float(os.environ.get("VF_CASE_HARD_S", "450" if tier == "quick" else "1200"))


class time_limit:
    """Nest-safe SIGALRM wall-clock limit: raises `exc()` in the main thread after `seconds`; on exit the enclosing
    limit (handler and remaining time) is put back.  Outside the main thread it does nothing."""

    def __init__(self, seconds, exc):
        self.sec, self.exc = float(seconds), exc

    def _fire(self, *_):
        raise self.exc()

    def __enter__(self):
        import signal
        import threading

        self.on = threading.current_thread() is threading.main_thread() and self.sec > 0
        if self.on:
            self.t0 = time.time()
            self.prev_left = signal.getitimer(signal.ITIMER_REAL)[0]
            self.prev = signal.signal(signal.SIGALRM, self._fire)
            signal.setitimer(signal.ITIMER_REAL, self.sec)
        return self

    def __exit__(self, et, ev, tb):
        import signal

        if self.on:
            signal.setitimer(signal.ITIMER_REAL, 0)
            signal.signal(signal.SIGALRM, self.prev)
            if self.prev_left > 0:  # re-arm the enclosing limit with what is left of it (at least a moment)
                signal.setitimer(signal.ITIMER_REAL, max(0.05, self.prev_left - (time.time() - self.t0)))
        return False


class hard_timeout:
    """Wall-clock guard around ONE case (worker main thread, SIGALRM).  A case of the unchanged tree takes seconds; a
    changed tree can turn one into an effectively endless computation (observed: nested tensordicts growing without
    bound), which must not keep the whole check from returning.  Hitting the limit is counted (`inconclusive`), never
    a violation."""

    def __init__(self, ctx, tier):
        self.ctx, self.sec = ctx, _hard_limit(tier)

    def __enter__(self):
        self.tl = time_limit(self.sec, CaseTimeout)
        self.tl.__enter__()
        return self

    def __exit__(self, et, ev, tb):
        self.tl.__exit__(et, ev, tb)
        if et is not None and issubclass(et, CaseTimeout):
            self.ctx.skipped_deadline += 1
            self.ctx.event("case_abandoned_at_hard_time_limit")
        return False


# --------------------------------------------------------------------------- helpers
def h64(obj) -> int:
    s = json.dumps(obj, sort_keys=True, default=str).encode()
    return int.from_bytes(hashlib.blake2b(s, digest_size=8).digest(), "big")


def derive_seed(*parts) -> int:
    s = "|".join(str(p) for p in parts).encode()
    return int.from_bytes(hashlib.blake2b(s, digest_size=4).digest(), "big")


def jsonable(x):
    """Best-effort conversion of tensors / numpy / tuples to JSON-able python."""
    try:
        import torch

        if isinstance(x, torch.Tensor):
            return x.detach().cpu().tolist()
    except Exception:
        pass
    try:
        import numpy as np

        if isinstance(x, np.ndarray):
            return x.tolist()
        if isinstance(x, np.generic):
            return x.item()
    except Exception:
        pass
    if isinstance(x, dict):
        return {str(k): jsonable(v) for k, v in x.items()}
    if isinstance(x, (list, tuple, set, frozenset)):
        return [jsonable(v) for v in x]
    if isinstance(x, float):
        if math.isnan(x):
            return "nan"
        if math.isinf(x):
            return "inf" if x > 0 else "-inf"
        return x
    if isinstance(x, (int, str, bool)) or x is None:
        return x
    return repr(x)


def repo_frame(tb) -> Optional[str]:
    """Innermost traceback frame that lies inside the repository under test."""
    found = None
    for fs in traceback.extract_tb(tb):
        fn = os.path.abspath(fs.filename)
        if fn.startswith(os.path.abspath(REPO) + os.sep) and "/rl4co/" in fn:
            found = f"{os.path.relpath(fn, REPO)}:{fs.name}"
    return found


def harness_frame_is_innermost(tb) -> bool:
    frames = traceback.extract_tb(tb)
    if not frames:
        return True
    fn = os.path.abspath(frames[-1].filename)
    return fn.startswith(os.path.join(HERE, "vf"))


# --------------------------------------------------------------------------- Sub / Ctx
@dataclasses.dataclass
class Sub:
    name: str
    execute: Callable[[dict, "Ctx"], None]
    strategy: Optional[Callable[[str], Any]] = None  # tier -> hypothesis strategy
    budget: dict = dataclasses.field(default_factory=lambda: {"quick": 200, "thorough": 4000})
    shards: int = 16
    shrink: bool = True
    # stateful alternative: factory(ctx, tier) -> RuleBasedStateMachine subclass
    machine: Optional[Callable] = None
    steps: dict = dataclasses.field(default_factory=lambda: {"quick": 20, "thorough": 50})
    # exhaustive alternative: tier -> list of cases (sharded round-robin)
    enumerate: Optional[Callable[[str], list]] = None
    weight: float = 1.0  # scheduling hint (heavier first)
    minimize: Optional[Callable[[dict], Any]] = None  # case -> iterable of smaller candidate cases


class Ctx:
    def __init__(self, prop, sub, tier, seed, shard=0, known: Known | None = None):
        self.prop, self.sub, self.tier, self.seed, self.shard = prop, sub, tier, seed, shard
        self.known = known or Known()
        self.evaluations = 0
        self.nontrivial: set[int] = set()
        self.classes: Counter = Counter()
        self.samples: list = []
        self.known_hits: Counter = Counter()
        self.excluded: Counter = Counter()
        self.skipped_deadline = 0
        self.violations_seen: list = []
        self.cur: Any = None
        self.last_violation = None
        self.sample_cap = 3

    # -- bookkeeping
    def begin(self, case):
        self.evaluations += 1
        self.cur = case
        # optional probe installed by a check for the current case: fn(sig) -> label | None.  A label means the observed
        # difference is explained by a rounding-dependent discrete choice INSIDE the code under test that the check
        # measured (e.g. a mixture-of-experts gate whose k-th and (k+1)-th scores coincide within float32 rounding):
        # the case is counted under dont_care:<label> and abandoned without verdict.  Never applied to crashes.
        self.dontcare_probe = None

    def nontriv(self, key=None):
        self.nontrivial.add(h64(key if key is not None else self.cur))

    def event(self, label, n=1):
        self.classes[label] += n

    def exclude(self, label):
        self.excluded[label] += 1

    def sample(self, obj):
        if len(self.samples) < self.sample_cap:
            self.samples.append(jsonable(obj))

    # -- verdicts
    def violation(self, sig: str, msg: str, detail=None, abort_known=False):
        """Report a violation.  Known (open) findings are counted and the search goes on
        (returns False; raises SkipCase if abort_known).  Anything else raises Violation."""
        kf = self.known.match(self.prop, sig)
        if kf is not None:
            self.known_hits[kf["id"]] += 1
            if abort_known:
                raise SkipCase()
            return False
        probe = getattr(self, "dontcare_probe", None)
        if probe is not None and not sig.startswith(("crash|", "hang|")):
            lab = probe(sig)
            if lab:
                self.event(f"dont_care:{lab}")
                raise SkipCase()
        payload = {
            "property": self.prop,
            "sub": self.sub,
            "sig": sig,
            "msg": msg,
            "detail": jsonable(detail),
            "case": jsonable(self.cur),
        }
        if len(self.violations_seen) < 3:
            self.violations_seen.append(payload)
        self.last_violation = payload
        raise Violation(payload)

    def check(self, cond, sig, msg, detail=None):
        if not cond:
            return self.violation(sig, msg, detail)
        return True

    def guard(self, fn, *args, what="call", **kwargs):
        """Call code under test; an exception whose traceback passes through the repository
        is a violation 'crash|<what>|<Type>|<frame>'; one raised purely inside the harness
        propagates (exit 2)."""
        try:
            return fn(*args, **kwargs)
        except (Violation, SkipCase):
            raise
        except Exception as e:  # noqa
            tb = sys.exc_info()[2]
            fr = repo_frame(tb)
            if fr is None:
                raise
            sig = f"crash|{what}|{type(e).__name__}|{fr}"
            self.violation(sig, f"{type(e).__name__}: {str(e)[:300]}", detail={"frame": fr}, abort_known=True)


# --------------------------------------------------------------------------- one job
def load_prop(prop):
    return importlib.import_module(f"vf.props.{prop.lower()}")


def find_sub(mod, name) -> Sub:
    for s in mod.SUBS:
        if s.name == name:
            return s
    raise HarnessError(f"no sub-check {name} in {mod.__name__}")


def _seed_case(case):
    import torch

    torch.manual_seed(h64(case) % (2**31))


def execute_case(sub: Sub, case, ctx: Ctx):
    """Run one case outside Hypothesis. Returns payload of the violation or None."""
    ctx.begin(case)
    _seed_case(case)
    try:
        with hard_timeout(ctx, ctx.tier):
            sub.execute(case, ctx)
    except (SkipCase, CaseTimeout):
        return None
    except Violation as v:
        return v.payload
    return None


def quiet_logs():
    import logging
    import warnings

    warnings.filterwarnings("ignore")
    for name in list(logging.root.manager.loggerDict) + ["rl4co", "lightning", "lightning.pytorch", "torchrl"]:
        if name.startswith(("rl4co", "lightning", "pytorch_lightning", "torchrl")):
            logging.getLogger(name).setLevel(logging.ERROR)
    logging.getLogger().setLevel(logging.ERROR)


def run_job(job):
    """Executed in a worker process. Returns a plain dict."""
    t0 = time.time()
    quiet_logs()
    prop, subname, tier, seed, shard, nshards, n_examples, deadline, kind, extra = job
    res = {
        "sub": subname,
        "shard": shard,
        "evaluations": 0,
        "nontrivial": [],
        "classes": {},
        "samples": [],
        "known_hits": {},
        "excluded": {},
        "skipped_deadline": 0,
        "violation": None,
        "error": None,
        "wall": 0.0,
        "kind": kind,
    }
    ctx = None
    try:
        import torch

        torch.set_num_threads(1)
        mod = load_prop(prop)
        sub = find_sub(mod, subname)
        ctx = Ctx(prop, subname, tier, seed, shard)

        if kind == "corpus":
            # extra = replay record
            rec = extra
            payload = execute_case(sub, rec["case"], ctx)
            res["corpus"] = {"file": rec.get("_file"), "expect": rec.get("expect", "pass"),
                             "failed": payload is not None,
                             "known_hits": dict(ctx.known_hits)}
            if payload is not None:
                res["violation"] = payload
        elif kind == "enumerate":
            cases = sub.enumerate(tier)
            for i, case in enumerate(cases):
                if i % nshards != shard:
                    continue
                if time.time() > deadline:
                    ctx.skipped_deadline += 1
                    continue
                payload = execute_case(sub, case, ctx)
                if payload is not None:
                    res["violation"] = payload
                    break
        else:
            res["violation"] = _run_hypothesis(sub, ctx, tier, seed, shard, n_examples, deadline)
    except Exception:
        res["error"] = traceback.format_exc()
    if ctx is not None:
        res["evaluations"] = ctx.evaluations
        res["nontrivial"] = list(ctx.nontrivial)
        res["classes"] = dict(ctx.classes)
        res["samples"] = ctx.samples
        res["known_hits"] = dict(ctx.known_hits)
        res["excluded"] = dict(ctx.excluded)
        res["skipped_deadline"] = ctx.skipped_deadline
    res["wall"] = time.time() - t0
    return res


def _run_hypothesis(sub: Sub, ctx: Ctx, tier, seed, shard, n_examples, deadline):
    import hypothesis
    from hypothesis import HealthCheck, Phase, given, settings
    from hypothesis import errors as herr

    phases = [Phase.explicit, Phase.generate]
    if sub.shrink:
        phases.append(Phase.shrink)
    hseed = derive_seed(seed, ctx.prop, sub.name, shard)
    common = dict(
        max_examples=max(1, n_examples),
        database=None,
        deadline=None,
        derandomize=False,
        report_multiple_bugs=False,
        print_blob=False,
        phases=phases,
        suppress_health_check=[HealthCheck.too_slow, HealthCheck.data_too_large,
                               HealthCheck.large_base_example],
    )
    last = {"payload": None}

    shrink_budget = float(os.environ.get("VF_SHRINK_S", "45" if tier == "quick" else "240"))
    first_fail = {"t": None}

    def body_case(case):
        if first_fail["t"] is not None:
            # bounded shrinking: once the budget is spent every *new* candidate passes trivially, so the
            # shrinker stops making progress; only the best failing case found so far still executes
            if time.time() - first_fail["t"] > shrink_budget and (
                ctx.last_violation is None or h64(jsonable(case)) != h64(ctx.last_violation["case"])
            ):
                return
        elif time.time() > deadline:
            ctx.skipped_deadline += 1
            return
        ctx.begin(case)
        _seed_case(case)
        try:
            with hard_timeout(ctx, tier):
                sub.execute(case, ctx)
        except (SkipCase, CaseTimeout):
            return
        except Violation as v:
            last["payload"] = v.payload
            if first_fail["t"] is None:
                first_fail["t"] = time.time()
            raise

    try:
        if sub.machine is not None:
            from hypothesis.stateful import run_state_machine_as_test

            cls = sub.machine(ctx, tier, deadline)
            st = settings(stateful_step_count=sub.steps.get(tier, 20), **common)
            run_state_machine_as_test(hypothesis.seed(hseed)(cls), settings=st)
        else:
            strat = sub.strategy(tier)
            test = hypothesis.seed(hseed)(settings(**common)(given(strat)(body_case)))
            test()
        return None
    except Violation as v:
        payload = v.payload
    except (herr.Flaky,) as e:  # FlakyFailure derives from Flaky
        payload = ctx.last_violation
        if payload is None:
            raise HarnessError(f"flaky without recorded violation: {e}")
    # the last recorded failing run is the minimal one Hypothesis replays at the end
    if ctx.last_violation is not None:
        payload = ctx.last_violation
    # confirm through the Hypothesis-free replay path
    for cand in [payload] + ctx.violations_seen[:3]:
        c2 = Ctx(ctx.prop, sub.name, tier, seed, shard, ctx.known)
        p2 = execute_case(sub, cand["case"], c2)
        if p2 is not None:
            p2["confirmed_by_replay"] = True
            return _minimize(sub, p2, ctx, tier, seed, shard)
    raise HarnessError("violation not reproducible through replay path: " + json.dumps(payload)[:2000])


def _minimize(sub, payload, ctx, tier, seed, shard, budget_s=30.0):
    """Greedy delta-debugging over the candidates proposed by sub.minimize(case) (used where the
    Hypothesis shrinker is off: state machines, slow policy-level cases)."""
    mini = getattr(sub, "minimize", None)
    if mini is None:
        return payload
    t0 = time.time()
    best = payload
    progress = True
    while progress and time.time() - t0 < budget_s:
        progress = False
        for cand in mini(best["case"]):
            if time.time() - t0 > budget_s:
                break
            c2 = Ctx(ctx.prop, sub.name, tier, seed, shard, ctx.known)
            try:
                p2 = execute_case(sub, cand, c2)
            except Exception:
                continue
            if p2 is not None and p2["sig"] == best["sig"]:
                p2["confirmed_by_replay"] = True
                best = p2
                progress = True
                break
    return best


def ops_minimizer(case):
    """Default minimiser for state-machine histories: drop suffixes, then single operations."""
    ops = case.get("ops", [])
    n = len(ops)
    for cut in (n // 2, n - 1):
        if 0 < cut < n:
            yield {**case, "ops": ops[:cut]}
    for i in range(n):
        yield {**case, "ops": ops[:i] + ops[i + 1:]}


# --------------------------------------------------------------------------- orchestration
def plan_jobs(mod, tier, seed, deadline, only=None):
    jobs = []
    prop = mod.PROPERTY
    # corpus first
    cdir = os.path.join(HERE, "replays", "corpus")
    if os.path.isdir(cdir):
        for fn in sorted(os.listdir(cdir)):
            if fn.startswith(prop + "-") and fn.endswith(".json"):
                with open(os.path.join(cdir, fn)) as f:
                    rec = json.load(f)
                rec["_file"] = os.path.join("replays", "corpus", fn)
                jobs.append((prop, rec["sub"], tier, seed, 0, 1, 1, deadline, "corpus", rec))
    for sub in mod.SUBS:
        if only and sub.name not in only:
            continue
        if sub.enumerate is not None:
            n = sub.shards
            for k in range(n):
                jobs.append((prop, sub.name, tier, seed, k, n, 0, deadline, "enumerate", None))
            continue
        total = sub.budget.get(tier, sub.budget.get("quick", 100))
        scale = float(os.environ.get("VF_BUDGET_SCALE", "1"))
        total = max(1, int(total * scale))
        n = max(1, min(sub.shards, total))
        per = math.ceil(total / n)
        for k in range(n):
            jobs.append((prop, sub.name, tier, seed, k, n, per, deadline, "search", None))
    return jobs


def write_replay(payload):
    d = os.path.join(HERE, "replays", "found")
    os.makedirs(d, exist_ok=True)
    name = f"{payload['property']}-{payload['sub']}-{h64(payload['case']):016x}.json"
    path = os.path.join(d, name)
    with open(path, "w") as f:
        json.dump(payload, f, indent=1)
    return os.path.join("replays", "found", name)


def run_check(prop, tier, seed, jobs_n=16, only=None, time_cap=None):
    t0 = time.time()
    mod = load_prop(prop)
    known = Known()
    caps = getattr(mod, "TIME_CAP", {"quick": 600, "thorough": 3600})
    cap = time_cap or caps.get(tier, 600)
    deadline = t0 + cap
    jobs = plan_jobs(mod, tier, seed, deadline, only)
    weights = {s.name: s.weight for s in mod.SUBS}
    jobs.sort(key=lambda j: (j[8] != "corpus", -weights.get(j[1], 1.0)))
    results = []
    if jobs_n <= 1 or os.environ.get("VF_SERIAL"):
        for j in jobs:
            results.append(run_job(j))
    else:
        import multiprocessing as mp
        from concurrent.futures import ProcessPoolExecutor, as_completed

        # make sure heavy imports happen once, before forking
        import torch  # noqa
        import hypothesis  # noqa
        import rl4co  # noqa

        torch.set_num_threads(1)
        quiet_logs()
        if hasattr(mod, "preimport"):
            mod.preimport()
        with ProcessPoolExecutor(max_workers=jobs_n, mp_context=mp.get_context("fork")) as ex:
            futs = [ex.submit(run_job, j) for j in jobs]
            for fu in as_completed(futs):
                results.append(fu.result())
    return finish(mod, prop, tier, seed, results, known, t0)


def finish(mod, prop, tier, seed, results, known, t0):
    errors = [r for r in results if r["error"]]
    evaluations = sum(r["evaluations"] for r in results)
    nontriv = set()
    classes, known_hits, excluded = Counter(), Counter(), Counter()
    per_sub = {}
    samples = []
    skipped = 0
    for r in sorted(results, key=lambda r: (r["sub"], r["shard"])):
        nontriv.update((r["sub"], h) for h in r["nontrivial"])
        classes.update({f"{r['sub']}:{k}": v for k, v in r["classes"].items()})
        known_hits.update(r["known_hits"])
        excluded.update(r["excluded"])
        skipped += r["skipped_deadline"]
        ps = per_sub.setdefault(r["sub"], {"evaluations": 0, "nontrivial": 0, "wall_cpu_s": 0.0})
        ps["evaluations"] += r["evaluations"]
        ps["nontrivial"] += len(r["nontrivial"])
        ps["wall_cpu_s"] = round(ps["wall_cpu_s"] + r["wall"], 2)
        for s in r["samples"]:
            if sum(1 for x in samples if x.get("sub") == r["sub"]) < 2:
                samples.append({"sub": r["sub"], "case": s})

    out_lines = []
    violations = []
    corpus_info = []
    for r in results:
        if r["kind"] == "corpus":
            ci = r.get("corpus") or {}
            corpus_info.append(ci)
            # corpus entries expecting a known finding: hit => KNOWN-FINDING (already counted)
            if r["violation"] is not None:
                violations.append(r["violation"])
        elif r["violation"] is not None:
            violations.append(r["violation"])

    # KNOWN-FINDING lines: one per open finding actually reproduced in this run
    for fid, n in sorted(known_hits.items()):
        e = known.by_id(fid)
        out_lines.append(f"KNOWN-FINDING: property={prop} {fid}: {e['what']} (reproduced {n}x in this run)")

    rc = 0
    replay_paths = []
    if violations:
        # smallest case first
        violations.sort(key=lambda p: len(json.dumps(p["case"])))
        seen_sigs = set()
        for p in violations:
            if p["sig"] in seen_sigs:
                continue
            seen_sigs.add(p["sig"])
            path = write_replay(p)
            replay_paths.append(path)
            out_lines.append(f"VIOLATION property={prop} replay={path}")
            out_lines.append(f"  sub={p['sub']} sig={p['sig']} :: {p['msg'][:400]}")
        rc = 1
    if errors:
        for r in errors:
            out_lines.append(f"HARNESS-ERROR property={prop} sub={r['sub']} shard={r['shard']}\n{r['error']}")
        if rc == 0:
            rc = 2

    wall = time.time() - t0
    ev = {
        "property_id": prop,
        "tier": tier,
        "seed": int(seed),
        "level": "exploration",
        "coverage": {
            "evaluations": int(evaluations),
            "distinct_nontrivial": int(len(nontriv)),
            "rule": getattr(mod, "RULE", ""),
            "samples": samples[:12] if samples else [],
            "per_sub": per_sub,
            "classes": dict(sorted(classes.items())),
            "known_findings_hit": dict(known_hits),
            "excluded_by_construction": dict(excluded),
            "inconclusive_deadline_skips": int(skipped),
            "corpus_replayed": corpus_info,
            "exhaustive": False,
        },
        "assumptions": list(getattr(mod, "ASSUMPTIONS", [])),
        "wall_s": round(wall, 2),
        "violations": len(replay_paths),
    }
    if hasattr(mod, "evidence_extra"):
        ev["coverage"].update(mod.evidence_extra(tier))
    edir = os.environ.get("VF_EVIDENCE_DIR", os.path.join(HERE, "evidence"))
    os.makedirs(edir, exist_ok=True)
    if rc != 2:
        with open(os.path.join(edir, f"{prop}.json"), "w") as f:
            json.dump(ev, f, indent=1)
    for line in out_lines:
        print(line)
    print(f"[{prop}] tier={tier} seed={seed} evaluations={evaluations} nontrivial={len(nontriv)} "
          f"known={dict(known_hits)} skipped={skipped} wall={wall:.1f}s rc={rc}")
    for name, ps in per_sub.items():
        print(f"   {name}: {ps}")
    return rc


def run_replay(prop, path):
    mod = load_prop(prop)
    with open(path) as f:
        rec = json.load(f)
    sub = find_sub(mod, rec["sub"])
    import torch

    torch.set_num_threads(1)
    ctx = Ctx(prop, sub.name, "quick", 0)
    payload = execute_case(sub, rec["case"], ctx)
    known = Known()
    for fid, n in ctx.known_hits.items():
        print(f"KNOWN-FINDING: property={prop} {fid}: {known.by_id(fid)['what']}")
    if payload is not None:
        print(f"VIOLATION property={prop} replay={path}")
        print(f"  sub={payload['sub']} sig={payload['sig']} :: {payload['msg'][:1000]}")
        if payload.get("detail") is not None:
            print("  detail=" + json.dumps(payload["detail"])[:2000])
        return 1
    print(f"[{prop}] replay passed: {path}")
    return 0
