"""./check <Cxx> --tier quick|thorough [--seed N] [--only sub,...] | --replay file"""
import argparse
import os
import sys
import traceback


def main(argv=None):
    ap = argparse.ArgumentParser()
    ap.add_argument("prop")
    ap.add_argument("--tier", default=os.environ.get("VERIF_TIER", "quick"), choices=["quick", "thorough"])
    ap.add_argument("--seed", type=int, default=None)
    ap.add_argument("--replay", default=None)
    ap.add_argument("--only", default=None, help="comma separated sub-check names")
    ap.add_argument("--jobs", type=int, default=int(os.environ.get("VF_JOBS", "16")))
    ap.add_argument("--time-cap", type=float, default=None)
    a = ap.parse_args(argv)
    seed = a.seed if a.seed is not None else int(os.environ.get("VERIF_SEED", "1") or 1)
    try:
        from . import runner

        if a.replay:
            return runner.run_replay(a.prop.upper(), a.replay)
        only = a.only.split(",") if a.only else None
        return runner.run_check(a.prop.upper(), a.tier, seed, a.jobs, only, a.time_cap)
    except SystemExit:
        raise
    except BaseException:
        traceback.print_exc()
        print(f"HARNESS-ERROR property={a.prop}")
        return 2


if __name__ == "__main__":
    sys.exit(main())
