"""Thin bridge between Hypothesis rule-based state machines and replayable op lists.

A *harness* class is plain Python:
    class H:
        def __init__(self, ctx, init: dict): ...
        def do_<name>(self, **args): ...      # one operation on real object + model
        def check(self): ...                  # invariant, called after every operation
        (optional) def pre_<name>(self) -> bool
make_machine() wraps it in a RuleBasedStateMachine whose rules only *record* the
operation (name, args) into the case and forward to the harness, so the whole history
shrinks as one value and the shrunk history is replayable without Hypothesis through
run_history().
"""
import time

import hypothesis.strategies as st
from hypothesis.stateful import RuleBasedStateMachine, initialize, invariant, precondition, rule


def run_history(harness_cls, case, ctx):
    h = harness_cls(ctx, case.get("init", {}))
    try:
        h.check()
        for name, args in case["ops"]:
            pre = getattr(h, "pre_" + name, None)
            if pre is not None and not pre():
                continue
            getattr(h, "do_" + name)(**args)
            h.check()
        if hasattr(h, "finish"):
            h.finish()
    finally:
        if hasattr(h, "teardown"):
            h.teardown()


def make_machine(harness_cls, init_strategy, rules: dict, ctx, deadline):
    """rules: name -> dict(argname -> strategy).  init_strategy: strategy of dicts."""
    import torch

    from .runner import SkipCase, h64

    class M(RuleBasedStateMachine):
        def __init__(self):
            super().__init__()
            self.h = None
            self.dead = False
            self.case = {"init": None, "ops": []}

        @initialize(init=init_strategy)
        def _init(self, init):
            if time.time() > deadline:
                ctx.skipped_deadline += 1
                self.dead = True
                return
            self.case["init"] = init
            ctx.begin(self.case)
            torch.manual_seed(h64(init) % (2**31))
            try:
                self.h = harness_cls(ctx, init)
                self.h.check()
            except SkipCase:
                self.dead = True

        def teardown(self):
            if self.h is not None:
                try:
                    if not self.dead and hasattr(self.h, "finish"):
                        try:
                            self.h.finish()
                        except SkipCase:
                            pass
                finally:
                    if hasattr(self.h, "teardown"):
                        self.h.teardown()

    def mk(name, argstrats):
        def r(self, **args):
            if self.dead or self.h is None:
                return
            pre = getattr(self.h, "pre_" + name, None)
            if pre is not None and not pre():
                return
            self.case["ops"].append([name, args])
            try:
                getattr(self.h, "do_" + name)(**args)
                self.h.check()
            except SkipCase:
                self.dead = True

        r.__name__ = "r_" + name
        return rule(**argstrats)(r)

    for name, argstrats in rules.items():
        setattr(M, "r_" + name, mk(name, argstrats))
    M.__name__ = harness_cls.__name__ + "Machine"
    M.__qualname__ = M.__name__
    return M
