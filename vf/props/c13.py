"""C13 — beam search returns feasible, correctly scored and distinct beams.

Code under test: rl4co.utils.decoding.BeamSearch (pre_decoder_hook, _step, _make_beam_step, _backtrack,
_select_best_beam, post_decoder_hook) as invoked by ConstructivePolicy.forward:
    policy(td, env, decode_type="beam_search", beam_width=W, select_best=..., return_sum_log_likelihood=False)

Observation (black box, DESIGN 2.5): the policy runs against a delegating *spy env* that
  * records the forced first moves handed out by select_start_nodes,
  * carries three harness keys through the run (vf_hist [R,Tcap] executed action history of the state in that row,
    vf_len, vf_inst instance id); BeamSearch re-indexes the whole td by its beam parents, so after every env.step the
    spy knows, per row, the action sequence that was *really executed* to reach that row's state = the prefix of the
    kept beam in that slot,
  * records every get_reward call (all W*B beams inside _select_best_beam, then the returned rows).
Nothing of rl4co is patched.  (The score-geometry classes of the evidence are measured with a forward hook on the policy's
decoder that is registered only while the HARNESS reference beam search runs, never during the run under test.)

Oracles
 1 feasible    every beam (all W*B, also with select_best) is complete and feasible for the independent problem
               definition (vf.oracles, trimmed at the row's own finishing step, tail = depot padding only); returned
               reward == independent objective == env.get_reward on the independently replayed final state; the run
               stops exactly when the last beam is done.
 2 replay      vf.models.decode.reference_logprobs along each returned sequence reproduces the returned per-step
               log-probs (forced move 0); the returned (back-tracked) sequence of row r IS the sequence executed in row r.
 3 distinct    forced starts of an instance pairwise distinct => its W returned sequences pairwise distinct.
 4 top-W       guided reference beam search (vf/models/beam.py): at every step, per instance, every kept prefix is a
               feasible one-node expansion of a previous kept beam of the SAME instance (with multiplicity) and the
               sorted reference scores of the kept beams equal the reference's W best candidate scores (1e-5*(1+|s|);
               1e-9 in float64).  Following the implementation's kept set makes every step assertable, also behind
               near-ties; steps whose W-th/(W+1)-th gap is <= 1e-5 are counted as non-decisive (evidence only).
 5 best        with select_best the returned reward is the maximum over that instance's beams (independent objectives
               and the spied rewards), the returned actions are one of the maximal beams, the returned reward is the
               independent objective of the RETURNED actions, and the returned log-probs are that beam's.

Coarse heat-map policies (zoo key nar_coarse, vf/c13_heat.py): rl4co's NonAutoregressivePolicy / NonAutoregressiveDecoder
on a harness stub encoder whose heat-map lives on a coarse log grid (-g * integer level, g >= 17 nats), so that accumulated
beam scores routinely differ by tens of nats, whole steps are numerically deterministic (every row's best move has float32
log-prob exactly 0.0 although alternatives exist) and exact ties occur.  Same oracles; what they add is oracle 4 on steps
where the W best expansions differ from "every beam keeps its best child" although every row looks forced.

mTSP (cost_type minmax = env default, and sum) is part of the domain: with minmax the env reads the reward from the
ROLLOUT STATE (td["reward"] accumulated by _step), so the state handed back next to the actions must be the state of the
beam the actions belong to - oracles 1 and 5 judge the sequences with vf.oracles.routing.judge_mtsp.

Sub-checks big_<regime> (large stacked batches): same call, AM policy with embed 16 / 1 layer, stacked batches whose
index quantities (parent slot, parent slot * B, flat row, candidate index W*N) cross int8 / uint8 / int16 / uint16.  The
spy runs in light mode (last history only, plus vf_row = the flat row each row's state was taken from, i.e. the beam
parents really used).  Asserted, vectorised over all W*B beams: rows stay inside their instance; returned sequence ==
executed sequence of the row; every beam valid (TSP permutation / mTSP each city once, routes <= agents) and complete;
reward == independent objective (float64); all actions inside the env mask, episode length, padding tail, log-probs ==
one teacher-forced pass of vf.models.decode.reference_logprobs over all W*B sequences; beams of an instance pairwise
distinct; best-selection as in oracle 5.  NOT asserted there: oracle 4 (the per-instance python reference beam search).
"""
import hypothesis.strategies as st
import torch

from ..envs import SPECS, py_instance
from ..c13_heat import DecoderProbe, coarse_params, step_classes
from ..models.beam import reference_beam_search
from ..models.decode import ref_log_softmax, reference_logprobs
from ..play import judge_row, violated
from ..policies import (INFO, StartFn, build_policy, expand_starts, has_batchnorm, make_batch, resolve_setup, setup_dims,
                        setup_events, small_cfg)
from ..runner import Sub, h64
from .c11 import HANG_S, Hang, watchdog

PROPERTY = "C13"
RULE = (
    "beam_search: case = (env in tsp/cvrp/cvrptw(scale=True)/op/pctsp/spctsp/sdvrp/pdp/mtsp (2/10 of the cases; cost_type "
    "minmax 2/3, sum 1/3; agents per instance from one of 4 ranges), n 3-8 (mtsp: 4-8 locations incl. depot), beam width "
    "2..n (pdp: mostly <= number of pickups; mtsp: mostly <= number of cities; 1/8 of the cases beam_width=None = env "
    "default), B 1-4, instance seed, AM policy seed 0-3 x spread {1.25,1.5,2.0}, select_best on/off, capacity / "
    "max_length / agent-range variant, env check_solution on/off, float64 slice in thorough). Instances whose forced first moves are not feasible at reset "
    "(OP start rule, C12) are excluded and counted. Non-trivial = the reference measured real re-ordering (some kept "
    "beam's parent slot != its own slot) and, for variable-length envs, is additionally classed by whether beams "
    "finish at different steps; distinct = case hash. Decisive fraction (W-th/(W+1)-th candidate gap > 1e-5) is "
    "reported as event counters; select_best_not_slot0|mtsp/<cost type> counts instances whose best beam is not beam 0. "
    "Round-3b dimensions of beam_search (optional case keys, class counters decoding:* / flag:* / policy:* / cfg:* / src:* / "
    "env:* / ctor:*): decoding configuration (1/2: temperature 1|0.5|2, tanh clipping default|0|5|10 as policy attribute or "
    "kwarg, top_k 0 x6|1|2|3, top_p 0 x6|0.5|0.8|0.95); return flags return_sum_log_likelihood (1/4), return_entropy (1/3), "
    "select_best left at BeamSearch's own default (1/3 of the select_best cases), beam search requested through phase + "
    "<phase>_decode_type (1/5), injected [B,T] step-relevance mask on "
    "tsp/atsp/pdp (1/4); caller-supplied select_start_nodes_fn (1/5); other policies (1/4: am_pomo tsp/cvrp/sdvrp, symnco "
    "tsp/cvrp, ham/pdp, matnet/atsp, mvmoe/mtvrp, am/mtvrp); env configuration / hand-built instances / env built for "
    "another size / constructor switches as in C11 (vf.policies.setup_dims; no env=None: the spy env is the observation "
    "channel). Filtered cases count `filter_removed_feasible` (some decoded step of some beam lost a feasible action) and "
    "`instances_tainted_by_ambiguous_filter_cut` (don't-care from that step on). "
    "Coarse heat-map policies (1/6 of the beam_search cases, zoo key nar_coarse = NonAutoregressivePolicy on "
    "vf.c13_heat.CoarseHeatmapEncoder, TSP, W 2-4, B 1-3, no env-default width; heat-map = -g*integer level, a deterministic "
    "per-instance function of the locations): kind two_speed (3/4; (diffuse nodes d, grid step g) from (12,17) (13,19.5) "
    "(14,22) x4 | (12,20) (13,17) (14,20) (10,17) (15,25); n = 2d+3..6 = 23-36 nodes; level cap 24|64|8; rank increment "
    "sharpness c 6|12|25; diffuse nodes by index parity x3 | by location) and kind quant (1/4; n 3-9, bilinear heat-map "
    "quantised row-wise, g 20|17|25|40, 2-4 levels, c 0.5-4); decoding configuration drawn for 1/4 of them (temperature "
    "1 x2|0.5|2|0.02, tanh clipping default|0 x2|10). Score-geometry classes of every unfiltered case (measured on the decoder "
    "outputs of the harness' own guided reference run): steps_all_rows_deterministic_with_alternatives (the best move of "
    "EVERY stacked row has log-prob exactly 0.0 in the working dtype while some row has more than one feasible move), "
    "steps_kept_score_spread>16.6 (some instance's kept scores lie more than 16.6 nats apart), steps_deterministic_and_"
    "spread>16.6, steps_deterministic_spread_and_top_w!=argmax_children (both, and the W best expansions are NOT 'every "
    "beam keeps its best child': what a forced-step shortcut gets wrong), case:* = cases with at least one such step; "
    "nontrivial_deterministic_step_where_top_w!=argmax_children counts the non-trivial cases of that last class separately. "
    "big_<regime> (one sub-check, one shard per regime; tiny AM policy embed 16 / 1 layer): int16_rows = tsp|mtsp, W 8-12, "
    "n = W..W+2 nodes (mtsp: cities), B = ceil(2^15/(W-1)) + 0..12%; int16_wide = same with W 20-31; uint16_rows = tsp, "
    "W in {8,10,12,16}, B = ceil(2^16/(W-1)) + 0..12%; int8_slots = tsp|mtsp, W 129-136, n = W..W+6, B 1-3; uint8_slots = "
    "tsp, W 257-262, n = W..W+6, B 1-2; each with instance seed, policy seed 0-3 x spread, select_best on/off, env checker "
    "on/off. The first example of every run is the strategy's minimal one = the regime's exact boundary case (tsp, smallest "
    "W, n = W, smallest B, e.g. n=10 W=10 B=3641 with (W-1)*B = 32769); quick = boundary case + 1 drawn case per regime. "
    "Non-trivial (big) = the spy observed real re-ordering AND a kept beam whose parent slot * B (rows regimes) / parent "
    "slot (slots regimes) lies beyond the regime's limit, i.e. the out-of-range index was really used."
)
ASSUMPTIONS = [
    "AM policy at toy size (embed 32, 2 encoder layers, batch norm, eval mode; big_<regime>: embed 16, 1 layer, 2 heads), "
    "spread-initialised, dropout 0; tanh clipping / temperature / top-k / top-p as drawn (default 10 / 1 / off); 1/6 of the "
    "cases the coarse heat-map policy nar_coarse (TSP), 1/4 of the others another bundled policy (BEAM_ZOO); PolyNet and L2D are not in the domain (PolyNet's strategy vector is tied to "
    "the row index, so a beam changing slot changes its distribution: replay differs by O(1), probed; L2D -> C11)",
    "filters: the candidates of a beam are the actions its filtered step distribution keeps (documented process_logits "
    "semantics, vf.models.decode.ref_filter), scored with the renormalised log-probs; every beam keeps its most probable "
    "action, so an instance always has >= W finite candidates (precondition checked; otherwise don't-care); a beam whose "
    "kept set hinges on float rounding makes its instance don't-care for oracle 4 from that step on and its step / row "
    "don't-care for the log-prob and entropy comparisons",
    "return flags: with return_sum_log_likelihood the returned value is compared with the sum of the reference step "
    "log-probs (1e-5 x steps); entropy = sum over the steps of the entropy of the (filtered) step distribution along the "
    "returned sequence, forced start 0; an injected td['mask'] zeroes the flagged steps of the row it belongs to",
    "the reference trusts the bundled encoder/decoder modules, env.step / env masks and env.select_start_nodes (C12), "
    "not BeamSearch / process_logits / get_log_likelihood",
    "the compared score is the sum of the step log-probs of ALL steps so far (forced first move 0, post-finish padding "
    "steps included) - what BeamSearch ranks",
    "nar_coarse: the stub encoder is harness code (trusted); the policy class, its decoder and BeamSearch are rl4co's. A "
    "softmax step costs a beam's best child at most log(#feasible) nats, so kept scores more than 16.6 nats apart need "
    "log((n-1)!) > 16.6 on TSP (n >= 12, in practice 23-36 nodes: the leading beam must meanwhile walk through as many "
    "nodes with numerically deterministic rows as the trailing beam spends on sinking) - the reason for the larger n of the "
    "two_speed kind. Scores reach magnitude ~25, scaled logits ~1400: the kept-vs-top-W tolerance 1e-5*(1+|s|) stays below "
    "3e-4 there, the smallest score difference the grid can produce between distinct candidates is log 2 (tie of two) or "
    "|g - log((d-1)!)| >= 0.49; exact ties of the grid are don't-care as everywhere (score multisets are compared)",
    "float32: per-step log-probs 1e-5*(1+|x|) + 32*eps*max|scaled logit|; accumulated scores 1e-5*(1+|s|); rewards "
    "1e-5*(1+sum|terms|); float64 slice 1e-9",
    "spy env delegates every attribute to the real env; harness keys vf_* ride along in the TensorDict (the decoder and "
    "the envs ignore unknown keys)",
    "OP: instances whose forced first moves (nodes 1..W) are not all feasible are excluded (start rule F17 belongs to "
    "C12); instances where the start rule samples feasible (possibly repeated) starts are kept",
    "mTSP: n locations = depot + n-1 cities; forced first moves are cities 1..W (wrapping around beyond n-1: repeated "
    "starts, distinctness then not asserted); every (W, B, cost type, select_best) combination probed on the unchanged "
    "tree runs (B = 1 included), so nothing is excluded; sequences are judged up to the last city visit (the closing "
    "return to the depot is implicit, trailing depot actions are padding while batch mates finish) with "
    "vf.oracles.routing.judge_mtsp in the cost type of the env object; more agents than the tour uses are allowed",
    "mTSP minmax: env.get_reward returns the reward accumulated in the rollout state; the check treats 'reward == "
    "objective of the actions returned in the same row' as part of 'correctly scored'",
    "big_<regime>: float32 only; only TSP and mTSP (vectorised float64 verdict vec_judge, cross-checked per case against "
    "the row oracle judge_tsp / judge_mtsp on 4-8 rows incl. the rows around 2^15 / 2^16); feasibility additionally "
    "through the env's own masks in the teacher-forced replay; oracle 4 (kept == top-W, reference beam search) is NOT "
    "asserted there (python reference per instance is too slow at 3e4-8e4 rows); log-prob tolerance as above",
    "big_<regime>: index ranges reached: int8/uint8/int16/uint16 for row-like quantities ((W-1)*B up to ~8e4), int8/uint8 "
    "for slot-like quantities (W-1 up to 261), candidate index W*N up to ~7e4 (> int16/uint16 in uint8_slots). int32 "
    "(2^31 rows or candidates) is out of reach on this machine and not covered; int16 SLOT counts (W >= 32769) neither",
    "not in the domain (vf.policies zoo entries am/mdcpdp, am/dpp, am/mdpp): BeamSearch forces env.select_start_nodes "
    "(nodes 1..W) as first moves, which the MDCPDP reset mask (depot 0 only) never admits - every case would be "
    "'forced_start_infeasible(C12)'; AM on DPP/MDPP cannot decode in the [batch, beams] layout unless B == W "
    "(crash in DPPContext, defect candidate gated in C11)",
]
TIME_CAP = {"quick": 300, "thorough": 2400}

ENVS = ["tsp", "cvrp", "cvrptw", "op", "pctsp", "spctsp", "sdvrp", "pdp", "mtsp", "mtsp"]
VARLEN = ("cvrp", "cvrptw", "op", "pctsp", "spctsp", "sdvrp", "mtsp", "mtvrp")
DEPOT = ("cvrp", "cvrptw", "op", "pctsp", "spctsp", "sdvrp", "mtsp", "mtvrp")
GAP = 1e-5
# other bundled policies under beam search (1/4 of the cases): BeamSearch re-indexes the STATE by beam parents, the
# decoder caches (PrecomputedCache incl. the non-tensor graph_context=0 of the POMO config, MatNet's tuple embeddings,
# HAM's heterogeneous encoder, the MoE decoder) are per instance and must survive that.  Not defined: PolyNet (its
# strategy vector is tied to the ROW index, so a beam that changes slot changes its distribution - probed: the replay
# of a returned sequence differs by O(1)); L2D (random forced starts, scheduling oracle): left to C11.
BEAM_ZOO = [("am_pomo", "tsp"), ("am_pomo", "cvrp"), ("am_pomo", "sdvrp"), ("symnco", "tsp"), ("symnco", "cvrp"),
            ("ham", "pdp"), ("matnet", "atsp"), ("mvmoe", "mtvrp"), ("am", "mtvrp")]
FIXED_LEN = ("tsp", "atsp", "pdp")  # envs where a [B,T] step-relevance mask can be injected (episode length known)
TOP_K = [0] * 6 + [1, 2, 3]
TOP_P = [0.0] * 6 + [0.5, 0.8, 0.95]


# --------------------------------------------------------------------------- strategy
@st.composite
def cases(draw, tier="quick"):
    zoo = None
    coarse = None
    if draw(st.integers(0, 5)) == 0:
        # coarse heat-map policy (vf/c13_heat.py): accumulated scores tens of nats apart, numerically deterministic rows
        coarse = coarse_params(draw, st)
        zoo = ["nar_coarse", "tsp"]
        envn = "tsp"
    elif draw(st.integers(0, 3)) == 0:
        # (entries at the end of a sampled_from list are under-sampled in short per-shard runs: the entry is a hash of an
        #  independently drawn integer, which makes the coverage of the policy list even)
        zoo = list(BEAM_ZOO[h64([draw(st.integers(0, 2 ** 20)), "beam_zoo"]) % len(BEAM_ZOO)])
        envn = zoo[1]
    else:
        envn = draw(st.sampled_from(ENVS))
    n = draw(st.sampled_from([3, 4, 5, 6, 7, 8])) if coarse is None else coarse[0]
    if envn == "pdp":
        n = max(2, 2 * (n // 2))
        wmax = max(2, n // 2) if draw(st.sampled_from([True] * 4 + [False])) else n  # beyond the pickups the forced starts repeat
    elif envn == "mtsp":
        n = max(4, n)  # n locations = depot + n-1 cities
        wmax = (n - 1) if draw(st.sampled_from([True] * 7 + [False])) else n  # beyond the cities the forced starts repeat
    else:
        wmax = n
    W = draw(st.sampled_from(list(range(2, wmax + 1)))) if coarse is None else coarse[1]
    extra = {}
    if envn == "mtsp":
        # default objective minmax: the reward lives in the ROLLOUT STATE (td["reward"]), not in the action sequence
        extra["ct"] = draw(st.sampled_from(["minmax", "minmax", "sum"]))
    if zoo is not None:
        extra["zoo"] = zoo
    key = zoo[0] if zoo else "am"
    case = dict(
        **extra,
        env=envn, n=n, W=W, B=(draw(st.integers(1, 4)) if coarse is None else coarse[2]), iseed=draw(st.integers(0, 2 ** 20)),
        pseed=draw(st.integers(0, 3)), spread=draw(st.sampled_from([1.25, 1.5, 1.5, 1.6, 2.0])),
        select_best=draw(st.booleans()), variant=draw(st.integers(0, 3)), check=draw(st.booleans()),
        f64=(tier != "quick") and key not in ("mvmoe",) and draw(st.sampled_from([False, False, False, True])),
        wdefault=draw(st.sampled_from([False] * 7 + [True])),  # beam_width=None: the env's own number of starts
    )
    if coarse is not None:
        case["opts"] = coarse[3]
        case["wdefault"] = False  # (the env default would be W = n = 23-36 beams)
    # ---- decoding configuration under beam search (audit items 1, 22): temperature / tanh clipping (policy attribute
    # or decoding kwarg) / top-k / top-p, the return flags, BeamSearch's own select_best default, an injected [B,T]
    # step-relevance mask (fixed-length envs)
    if coarse is not None:
        # the grid of the heat-map is the point: mostly the policy's own decoding configuration (temperature 1, no tanh
        # clipping - clipping folds all levels below the best into one); 1/4 of the cases a drawn one
        if draw(st.integers(0, 3)) == 0:
            case["dec"] = dict(temperature=draw(st.sampled_from([1.0, 1.0, 0.5, 2.0, 0.02])),
                               tanh=draw(st.sampled_from([None, 0.0, 0.0, 10.0])), via=draw(st.sampled_from(["attr", "kwargs"])),
                               top_k=draw(st.sampled_from(TOP_K)), top_p=draw(st.sampled_from(TOP_P)))
    elif draw(st.booleans()):
        # (temperature 0.02: a confident policy - whole steps in which the best move of EVERY row has float32
        #  log-probability exactly 0.0 while feasible alternatives exist)
        dec = dict(temperature=draw(st.sampled_from([1.0, 0.5, 2.0, 0.02])), tanh=draw(st.sampled_from([None, 0.0, 5.0, 10.0])),
                   via=draw(st.sampled_from(["attr", "kwargs"])), top_k=draw(st.sampled_from(TOP_K)),
                   top_p=draw(st.sampled_from(TOP_P)))
        if dec["tanh"] == 0.0:
            case["spread"] = min(case["spread"], 1.5)  # without clipping large spreads saturate the softmax
        case["dec"] = dec
    if draw(st.integers(0, 3)) == 0:
        case["ret_sum"] = True
    if draw(st.integers(0, 2)) == 0:
        case["ret_entropy"] = True
    if case["select_best"] and draw(st.integers(0, 2)) == 0:
        case["sb_default"] = True  # select_best not passed: BeamSearch's own default (True)
    if envn in FIXED_LEN and draw(st.integers(0, 3)) == 0:
        case["stepmask"] = draw(st.lists(st.booleans(), min_size=4, max_size=24))
    # ---- decode type taken from the `<phase>_decode_type` attribute of a drawn phase instead of the decode_type kwarg
    if draw(st.integers(0, 4)) == 0:
        case["dt_via"] = "phase"
        case["phase"] = draw(st.sampled_from(["train", "val", "test"]))
    # ---- a caller-supplied start rule (select_start_nodes_fn) instead of env.select_start_nodes
    if draw(st.integers(0, 4)) == 0:
        case["ssn"] = draw(st.integers(0, 7))
        case["wdefault"] = False
    # ---- env configuration / instance source / env built for another size / constructor switches
    base = env_cfg(envn, n, case["variant"], case.get("ct"))
    if envn != "mtsp":  # (mTSP: the agent ranges / cost types of env_cfg are the wide domain already)
        case.update(draw(setup_dims(key, envn, n, base, case["B"], tier, by_name=False, opts=coarse is None)))
    return case


def env_cfg(envn, n, variant, ct=None):
    cfg = small_cfg(envn, n)
    v = int(variant)
    if envn in ("cvrp", "sdvrp", "cvrptw"):
        cfg["capacity"] = [None, None, 10.0, 20.0][v]  # small capacities: more routes, beams of different length
    elif envn == "op":
        cfg["max_length"] = [None, 2.0, 3.0, 3.0][v]   # 3.0: every node is a feasible first move
    elif envn == "mtsp":
        # agents drawn per instance from [lo, hi] by the generator (1 agent = a TSP from the depot; more agents than
        # the tour uses are allowed); cost type of the env object
        m = cfg["n"] - 1
        lo, hi = [(2, 3), (1, 2), (1, m), (3, 4)][v]
        cfg["min_agents"], cfg["max_agents"] = min(lo, m), min(hi, m)
        cfg["cost_type"] = ct or "minmax"
    elif envn == "mtvrp":
        cfg["variant"] = ["all", "cvrp", "ovrptw", "vrpbl"][v]
    elif envn == "atsp":
        cfg["tmat"] = v != 1
    return cfg


def minimize(case):
    c = dict(case)
    if c["B"] > 1:
        yield {**c, "B": c["B"] - 1}
        yield {**c, "B": 1}
    if c["W"] > 2:
        yield {**c, "W": c["W"] - 1}
        yield {**c, "W": 2}
    step = 2 if c["env"] == "pdp" else 1
    lo = 2 if c["env"] == "pdp" else (4 if c["env"] == "mtsp" else 3)
    if c["n"] - step >= lo:
        yield {**c, "n": c["n"] - step, "W": min(c["W"], c["n"] - step)}
    for key in ("lat", "ecfg", "env_shape", "opts", "dec", "stepmask", "ssn", "ret_sum", "ret_entropy", "sb_default", "dt_via",
                "zoo"):
        if key in c and not (key == "zoo" and c["env"] in ("atsp", "mtvrp")):
            d = {kk: vv for kk, vv in c.items() if kk != key}
            if key == "lat":
                d.pop("src", None)
            if key == "ecfg" and "lat" in c:
                continue
            if key == "zoo" and c["zoo"][0] == "nar_coarse":
                d.pop("opts", None)
            yield d
    for key, val in (("f64", False), ("select_best", False), ("check", True), ("wdefault", False), ("variant", 0),
                     ("spread", 1.5),
                     ("pseed", 0)):
        if c.get(key) != val:
            d = {**c, key: val}
            if key == "select_best":
                d.pop("sb_default", None)
            yield d


# --------------------------------------------------------------------------- spy env
TCAP_EXTRA = 8


class SpyEnv:
    """Delegates everything to the real env; observes forced starts, executed histories and reward calls."""

    def __init__(self, env, light=False, B=None):
        object.__setattr__(self, "_env", env)
        self.starts = []
        self.steps = []    # per env.step call: dict(hist [R,Tcap], len [R], inst [R], done [R]) AFTER the step
        self.rewards = []  # per get_reward call: (actions, rewards)
        self.lost_keys = 0
        # light (large stacked batches): only the LAST step record is kept; per step the spy keeps the flat row every
        # row's state was taken from (harness key vf_row = arange(R) written after each step and re-indexed by
        # BeamSearch together with the state) and the first step at which a row held another instance's state
        self.light = bool(light)
        self.B = B
        self.n_steps = 0
        self.parents = []  # light: per env.step call t >= 1 the [R] parent rows (step 0: the forced start, no parent)
        self.first_actions = None  # light: actions executed by the first env.step call
        self.crossed_at = None

    def __getattr__(self, k):
        return getattr(object.__getattribute__(self, "_env"), k)

    def select_start_nodes(self, td, num_starts):
        a = self._env.select_start_nodes(td, num_starts=num_starts)
        self.starts.append(a.clone())
        return a

    def step(self, td):
        R = td.batch_size[0]
        if "vf_hist" not in td.keys():
            self.lost_keys += 1
            return self._env.step(td)
        hist = td["vf_hist"].clone()
        ln = td["vf_len"].clone()
        inst = td["vf_inst"].clone()
        a = td["action"].clone().long()
        ar = torch.arange(R)
        if int(ln.max()) < hist.shape[1]:
            hist[ar, ln] = a
        ln = ln + 1
        out = self._env.step(td)
        nxt = out["next"]
        nxt.set("vf_hist", hist)
        nxt.set("vf_len", ln)
        nxt.set("vf_inst", inst)
        if self.light:
            if self.n_steps == 0:
                self.first_actions = a.clone()
            if "vf_row" in td.keys():
                self.parents.append(td["vf_row"].clone())
            nxt.set("vf_row", torch.arange(R))
            if self.crossed_at is None and not torch.equal(inst, torch.arange(R) % self.B):
                self.crossed_at = self.n_steps
            self.steps = [dict(hist=hist, len=ln, inst=inst, done=nxt["done"].reshape(R, -1).all(-1).clone())]
        else:
            self.steps.append(dict(hist=hist.clone(), len=ln.clone(), inst=inst.clone(),
                                   done=nxt["done"].reshape(R, -1).all(-1).clone()))
        self.n_steps += 1
        return out

    def get_reward(self, td, actions):
        r = self._env.get_reward(td, actions)
        self.rewards.append((actions.clone(), r.clone()))
        return r


# --------------------------------------------------------------------------- helpers
def _close(a, b, tol, slack=0.0):
    a, b = a.double(), b.double()
    return bool(((a - b).abs() <= tol * (1 + b.abs()) + slack).all())


def _maxdiff(a, b):
    d = (a.double() - b.double()).abs()
    return float(d.max()) if d.numel() else 0.0


def _regime(W, n):
    return "W=2" if W == 2 else ("W=n" if W >= n else "2<W<n")


# --------------------------------------------------------------------------- main check
def _zoo(case):
    z = case.get("zoo")
    return (z[0], z[1]) if z else ("am", case["env"])


def _tag(case):
    """environment tag of the violation signatures / event classes (mTSP: with the cost type of the env object; other
    policies than the attention model: with the zoo key)."""
    key = _zoo(case)[0]
    t = case["env"] if case["env"] != "mtsp" else f"mtsp/{case.get('ct') or 'minmax'}"
    return t if key == "am" else f"{key}/{t}"


def _decoding(case, policy):
    """-> (temperature, tanh clipping, top_k, top_p, decoding kwargs, attribute values to set) of the drawn decoding
    configuration; defaults = the policy's own attributes (constructor values)."""
    dec = case.get("dec")
    dT, dC = float(policy.temperature), float(policy.tanh_clipping)
    if not dec:
        return dT, dC, 0, 0.0, {}, None
    Tm = float(dec["temperature"])
    C = dC if dec["tanh"] is None else float(dec["tanh"])
    top_k, top_p = int(dec.get("top_k") or 0), float(dec.get("top_p") or 0.0)
    kw, attrs = {}, None
    if dec["via"] == "attr":
        attrs = (Tm, C)
    else:
        kw = dict(temperature=Tm, tanh_clipping=C)
    if top_k > 0:
        kw["top_k"] = top_k
    if top_p > 0:
        kw["top_p"] = top_p
    return Tm, C, top_k, top_p, kw, attrs


def execute(case, ctx):
    envn, W, B = case["env"], int(case["W"]), int(case["B"])
    key = _zoo(case)[0]
    if "mvmoe" in key:
        from ..policies import moe_watch
        moe_watch(ctx)  # expert choices within float32 rounding are don't-care (vf.policies, MoE gates)
    f64 = bool(case["f64"])
    sb = bool(case["select_best"])
    cfg, mkw = resolve_setup(case, env_cfg(envn, case["n"], case["variant"], case.get("ct")))
    n = cfg["n"]
    tag = _tag(case)
    slice_ = f"{tag}|{'best' if sb else 'all'}"
    env, inst, td0 = make_batch(envn, cfg, B, case["iseed"], double=f64, **mkw)
    policy = build_policy(key, envn, env, seed=case["pseed"], spread=case["spread"], double=f64, opts=case.get("opts"))
    policy.eval()
    wdefault = bool(case.get("wdefault", False))
    if wdefault:
        # documented default: beam_width=None -> env.get_num_starts(td) (trusted here, C12); a width below 2 is
        # rejected by a documented assertion
        W = int(env.get_num_starts(td0))
        if W < 2:
            ctx.exclude("default_width<2")
            return
    if envn == "pdp" and cfg.get("force_start"):
        ctx.exclude("forced_start_infeasible(C12)")  # the reset mask admits the depot only (F36, C12)
        return

    # ---- forced first moves must be feasible at reset, otherwise the case is C12's business
    m0 = expand_starts(td0, W)["action_mask"]
    first = 1 if SPECS[envn].has_depot_action else 0
    if not bool(td0["action_mask"][:, first:].any(-1).all()):
        # an instance without any feasible first move but the depot (OP with a short budget): there is nothing to force
        # (the OP start rule then raises 'invalid multinomial distribution', part of F17, C12)
        ctx.exclude("no_feasible_first_move_but_the_depot(C12)")
        return
    if case.get("ssn") is None:
        # OP: with fewer than W feasible nodes in some row the start rule samples feasible nodes from the global RNG (seeded
        # identically here and before the policy call; the reference uses the starts the spy saw anyway); otherwise it
        # hands out nodes 1..W whether feasible or not (F17, C12) - those instances are excluded right here
        if envn == "op" and bool((td0["action_mask"][:, 1:].sum(-1) < W).any()):
            ctx.event("op_sampled_starts")
        torch.manual_seed(case["iseed"])
        a0 = ctx.guard(env.select_start_nodes, td0.clone(), num_starts=W, what=f"select_start_nodes|{envn}")
        if a0.shape[0] != m0.shape[0] or int(a0.max()) >= m0.shape[1] or int(a0.min()) < 0 \
                or not bool(m0.gather(1, a0.view(-1, 1)).all()):
            ctx.exclude("forced_start_infeasible(C12)")
            return

    ctx.event(f"env:{tag}")
    ctx.event(f"policy:{key}")
    ctx.event(f"width:{_regime(W, n - 1 if envn == 'mtsp' else n)}" + ("(default)" if wdefault else ""))
    ctx.event("select_best" if sb else "all_beams")
    ctx.event("env_checker_on" if case.get("check", True) else "env_checker_off")
    setup_events(ctx, case, envn, cfg)
    if f64:
        ctx.event("float64")
    try:
        with watchdog():
            _run(case, ctx, cfg, env, inst, td0, policy, slice_, W, wdefault)
    except Hang:
        ctx.violation(f"hang|{slice_}", f"beam search / replay did not return within {HANG_S}s at toy size")


def _run(case, ctx, cfg, env, inst, td0, policy, slice_, W, wdefault):
    envn, B = case["env"], int(case["B"])
    key = _zoo(case)[0]
    tag = _tag(case)
    f64 = bool(case["f64"])
    sb = bool(case["select_best"])
    n = cfg["n"]
    R = W * B
    tol = 1e-9 if f64 else 1e-5
    rtol = 1e-12 if f64 else 1e-6
    eps = 2.0 ** -52 if f64 else 2.0 ** -23
    Tcap = 6 * n + 24 + TCAP_EXTRA
    src = case.get("src", "gen")
    ninf = float("-inf")

    Tm, C, top_k, top_p, dkw, attrs = _decoding(case, policy)
    filtered = top_k > 0 or (0.0 < top_p < 1.0)
    fkw = dict(top_k=top_k, top_p=top_p)
    ret_sum, ret_ent = bool(case.get("ret_sum")), bool(case.get("ret_entropy"))
    if case.get("dec"):
        ctx.event("decoding:non_default")
        ctx.event(f"decoding:T={Tm}|C={C}|via={case['dec']['via']}")
        if filtered:
            ctx.event("decoding:filtered")
            ctx.event(f"decoding:top_k={top_k}|top_p={top_p}")
    for flag in ("ret_sum", "ret_entropy", "sb_default"):
        if case.get(flag):
            ctx.event(f"flag:{flag}")

    spy = SpyEnv(env)
    tdin = td0.clone()
    tdin.set("vf_hist", torch.full((B, Tcap), -1, dtype=torch.long))
    tdin.set("vf_len", torch.zeros(B, dtype=torch.long))
    tdin.set("vf_inst", torch.arange(B))
    # step-relevance mask injected into the reset td (fixed-length envs): get_log_likelihood zeroes the flagged steps of
    # the row the mask belongs to (the key rides along with the state through every beam re-ordering)
    stepmask = None
    if case.get("stepmask") is not None and envn in FIXED_LEN:
        Tfix = n
        bits = case["stepmask"]
        stepmask = torch.tensor([[bits[(b * Tfix + t) % len(bits)] for t in range(Tfix)] for b in range(B)],
                                dtype=torch.bool)
        td0 = td0.clone()
        td0.set("mask", stepmask)  # (the references replay from td0: the key must ride through their env.step calls too)
        tdin.set("mask", stepmask.clone())
        ctx.event("stepmask_injected")
    ssn = None
    if case.get("ssn") is not None:
        ssn = StartFn(case["ssn"], 1 if SPECS[envn].has_depot_action else 0)
        ctx.event("select_start_nodes_fn")
    kw = dict(decode_type="beam_search", beam_width=(None if wdefault else W), return_actions=True,
              return_sum_log_likelihood=ret_sum, max_steps=6 * n + 24, **dkw)
    saved_types = None
    if case.get("dt_via") == "phase":
        # beam search requested through `phase` + `<phase>_decode_type` (the other phases carry another type)
        del kw["decode_type"]
        kw["phase"] = case["phase"]
        saved_types = {p_: getattr(policy, f"{p_}_decode_type") for p_ in ("train", "val", "test")}
        for p_ in saved_types:
            setattr(policy, f"{p_}_decode_type", "beam_search" if p_ == case["phase"] else "greedy")
        ctx.event(f"decode_type_via_phase:{case['phase']}")
    if not case.get("sb_default"):
        kw["select_best"] = sb
    if ret_ent:
        kw["return_entropy"] = True
    if ssn is not None:
        kw["select_start_nodes_fn"] = ssn
    torch.manual_seed(case["iseed"])
    # check=False: the env as constructed with the documented check_solution=False (no checker between beam search and
    # the caller); the env object is shared per process, so the flag is restored right after the call
    check0 = env.check_solution
    env.check_solution = bool(case.get("check", True))
    saved = (policy.temperature, policy.tanh_clipping)
    if attrs is not None:
        policy.temperature, policy.tanh_clipping = attrs
    opts0 = (policy.temperature, policy.tanh_clipping, getattr(policy, "mask_logits", None))
    try:
        with torch.no_grad():
            out = ctx.guard(policy, tdin, spy, what=f"policy|{slice_}", **kw)
        # per-call decoding options are options of the CALL: the policy's configured defaults are what they were
        # (a later call that does not repeat them must decode with the configured values)
        opts1 = (policy.temperature, policy.tanh_clipping, getattr(policy, "mask_logits", None))
        ctx.check(opts1 == opts0, f"policy_options_changed_by_call|{slice_}",
                  f"(temperature, tanh_clipping, mask_logits) of the policy object were {opts0} before the call with "
                  f"decoding kwargs {sorted(k_ for k_ in kw if k_ in ('temperature', 'tanh_clipping', 'mask_logits'))} "
                  f"and are {opts1} after it")
    finally:
        env.check_solution = check0
        policy.temperature, policy.tanh_clipping = saved
        if saved_types is not None:
            for p_, v in saved_types.items():
                setattr(policy, f"{p_}_decode_type", v)
    A_ret, ll_ret, rew_ret = out["actions"], out["log_likelihood"], out["reward"].reshape(-1)
    T = A_ret.shape[1]
    Rret = B if sb else R
    ctx.check(A_ret.shape[0] == Rret and rew_ret.shape[0] == Rret
              and (tuple(ll_ret.shape) == (Rret,) if ret_sum else tuple(ll_ret.shape) == (Rret, T))
              and (not ret_ent or tuple(out["entropy"].shape) == (Rret,)),
              f"shape|{slice_}", f"actions {tuple(A_ret.shape)} ll {tuple(ll_ret.shape)} reward "
              f"{tuple(out['reward'].shape)} for B={B}, W={W}, select_best={sb}"
              + (" (BeamSearch default)" if case.get("sb_default") else "") + f", return_sum_log_likelihood={ret_sum}")

    # ---- what the spy saw
    n_start_calls = len(spy.starts) + (len(ssn.calls) if ssn is not None else 0)
    if spy.lost_keys or n_start_calls != 1 or not spy.rewards:
        # the observation channel itself failed (keys dropped / unexpected call pattern): not a verdict on the property
        raise RuntimeError(f"spy channel broken: lost={spy.lost_keys} starts={n_start_calls} rewards={len(spy.rewards)}")
    if len(spy.steps) != T:
        ctx.violation(f"episode_length|{tag}", f"returned sequences have {T} steps but {len(spy.steps)} environment steps "
                      f"were executed")
        return
    if ssn is not None:
        # the caller's start rule replaces the env's: called once as fn(td, env, beam_width) on the un-expanded batch
        ctx.check(len(spy.starts) == 0 and len(ssn.calls) == 1 and ssn.calls[0][0] == B and ssn.calls[0][1] is spy
                  and ssn.calls[0][2] == W, f"start_fn_call|{tag}",
                  f"select_start_nodes_fn was called {len(ssn.calls)}x with (batch, env, num_starts) = "
                  f"{[(c[0], type(c[1]).__name__, c[2]) for c in ssn.calls]}, env.select_start_nodes {len(spy.starts)}x "
                  f"(expected one call (B={B}, the env, {W}))")
        starts = ssn.out.long()
    else:
        starts = spy.starts[0].long()
    m0 = expand_starts(td0, W)["action_mask"]
    if starts.shape[0] != R or int(starts.max()) >= m0.shape[1] or int(starts.min()) < 0 \
            or not bool(m0.gather(1, starts.view(-1, 1)).all()):
        if ssn is not None:
            raise RuntimeError("harness start function returned an infeasible start")
        ctx.exclude("forced_start_infeasible(C12)")
        return
    # all beams (before best-selection)
    if sb:
        allc = [(a, r) for a, r in spy.rewards if a.shape[0] == R]
        if not allc:
            ctx.exclude("select_best_without_all_beam_reward_call")
            return
        A, rew_spy = allc[0][0], allc[0][1].reshape(-1)
        ctx.check(tuple(A.shape) == (R, T), f"shape|{slice_}", f"best-selection compared actions of shape {tuple(A.shape)}")
    else:
        A, rew_spy = A_ret, rew_ret

    # beams stay inside their instance: row r of the td always holds a state of instance r % B
    want_inst = torch.arange(R) % B
    for t, s in enumerate(spy.steps):
        if s["inst"].shape[0] != R or not torch.equal(s["inst"], want_inst):
            ctx.violation(f"beam_crosses_instances|{tag}",
                          f"after step {t} the rows hold states of instances {s['inst'].tolist()} (row r must hold r % B)")
    # executed history of the final slots == returned (back-tracked) sequences
    H = spy.steps[-1]["hist"][:, :T]
    if not torch.equal(H, A):
        bad = [r for r in range(R) if not torch.equal(H[r], A[r])]
        ctx.violation(f"backtrack_vs_executed|{tag}",
                      f"returned sequence of row {bad[0]} is {A[bad[0]].tolist()} but the state in that row was reached by "
                      f"{H[bad[0]].tolist()}", {"returned": A, "executed": H})

    # ---- Oracle 2 (+ feasibility through the env's own masks): replay along the returned sequences
    ref = reference_logprobs(policy, env, td0, A, num_starts=W, forced_first=True, temperature=Tm, tanh_clipping=C, **fkw)
    ctx.check(bool(ref.in_mask.all()), f"action_outside_mask|{tag}", "a returned beam takes an action outside the env mask",
              {"actions": A, "in_mask": ref.in_mask})
    ctx.check(ref.mask_ok, f"decoder_mask_mismatch|{tag}", "decoder-returned mask differs from td['action_mask']")
    ctx.check(ref.all_done_at == T, f"episode_length|{tag}",
              f"returned {T} steps but replaying the beams finishes every row after {ref.all_done_at}")
    slack = 32 * eps * ref.scale
    # steps whose kept set (top-k / top-p) hinges on float rounding are don't-care (all False without filters):
    # per-step comparisons skip the step, summed ones (return_sum_log_likelihood / entropy) the row
    okst = ~ref.ambig
    okrow = okst.all(1)
    want = ref.logp
    smask = None
    if stepmask is not None:
        if "mask" not in ref.td.keys():
            ctx.exclude("stepmask_dropped_by_env")
        else:
            smask = stepmask[torch.arange(R) % B]  # row r belongs to instance r mod B
            ctx.check(torch.equal(ref.td["mask"], smask), f"stepmask_changed|{tag}", "env.step altered the injected mask key")
            want = torch.where(smask, want, torch.zeros_like(want))
    if filtered:
        ctx.check(bool((ref.logp[okst] > ninf).all()), f"beam_through_filtered_action|{tag}",
                  f"a returned beam takes an action outside the reference kept set of top_k={top_k} / top_p={top_p} although "
                  f"every beam always has a kept candidate", {"actions": A, "reference": ref.logp, "ambiguous": ref.ambig})
        removed = (ref.nkept < ref.nfeas) & ~ref.forced.view(1, -1)
        ctx.event("steps_filter_removed", int(removed.sum()))
        ctx.event("steps_filter_ambiguous", int(ref.ambig.sum()))
        if bool(removed.any()):
            ctx.event("filter_removed_feasible")

    def ll_matches(got, rows_got, rows_ref, tol_):
        """got [len(rows_got)(,T)] returned log-likelihood of rows_ref of the reference (per step, or summed)."""
        w, ok_, sl_ = want[rows_ref], okst[rows_ref], slack[rows_ref]
        g = got[rows_got]
        if ret_sum:
            rr = ok_.all(1)
            d = (g.double() - w.sum(1)).abs()
            return bool((d <= tol_ * max(1, T) * (1 + w.sum(1).abs()) + sl_.sum(1))[rr].all())
        d = (g.double() - w).abs()
        return bool((d <= tol_ * (1 + w.abs()) + sl_)[ok_].all())

    ent_ref = ref.entropy.sum(1)
    ent_slack = 4 * slack.sum(1)

    def ent_matches(got, rows_got, rows_ref):
        rr = okrow[rows_ref]
        d = (got[rows_got].double() - ent_ref[rows_ref]).abs()
        return bool((d <= tol * max(1, T) * (1 + ent_ref[rows_ref].abs()) + ent_slack[rows_ref])[rr].all())

    allrows = torch.arange(R)
    if not sb:
        if not ll_matches(ll_ret, allrows, allrows, tol):
            ctx.violation(f"ll_vs_replay|{tag}",
                          f"returned {'summed' if ret_sum else 'per-step'} log-probs differ from the policy's log-probs along "
                          f"the returned sequence by {_maxdiff(ll_ret, want.sum(1) if ret_sum else want):.3e}",
                          {"ll": ll_ret, "replay": want, "actions": A, "ambiguous": ref.ambig})
        if not ret_sum:
            ctx.check(bool((ll_ret[:, 0] == 0).all()), f"forced_start_nonzero|{tag}",
                      "forced first move contributes a non-zero log-prob", {"ll0": ll_ret[:, 0]})
            if smask is not None:
                ctx.check(bool((ll_ret[~smask] == 0).all()), f"irrelevant_step_nonzero|{tag}",
                          "a step flagged irrelevant contributes a non-zero log-prob", {"ll": ll_ret, "mask": smask})
        if ret_ent and not ent_matches(out["entropy"], allrows, allrows):
            ctx.violation(f"entropy_vs_replay|{tag}",
                          f"returned entropy differs from the summed entropies of the step distributions along the returned "
                          f"sequence by {_maxdiff(out['entropy'], ent_ref):.3e}", {"entropy": out["entropy"], "replay": ent_ref})

    # ---- Oracle 1: complete + feasible, reward == objective == get_reward on the replayed state
    spec = SPECS[envn]
    jcase = {"env": envn, "cfg": cfg, "src": src}
    objs, terms = [], []
    for r in range(R):
        row = py_instance(envn, inst[r % B])
        acts = A[r].tolist()
        fin = int(ref.done_at[r])
        if fin > T:
            ctx.violation(f"beam_incomplete|{tag}", f"beam in row {r} never reports done: {acts}")
            fin = T
        body, tail = acts[:fin], acts[fin:]
        if tail and envn in DEPOT and any(a != 0 for a in tail):
            ctx.violation(f"tail_not_padding|{tag}", f"row {r}: actions after the finishing step {fin} are {tail}")
        v = judge_row(jcase, spec, row, body)
        bad = violated(jcase, v)
        if bad:
            ctx.violation(f"infeasible_beam|{tag}|{bad[0][0]}", f"beam in row {r} violates {bad}: {body}",
                          {"row": r, "actions": acts, "instance": row})
        objs.append(v.obj)
        terms.append(abs(v.terms))
    objs_t = torch.tensor(objs, dtype=torch.float64)
    terms_t = torch.tensor(terms, dtype=torch.float64)
    otol = (1e-9 if f64 else 1e-5) * (1 + terms_t)
    if not bool(((rew_spy.double() - objs_t).abs() <= otol).all()):
        r = int(((rew_spy.double() - objs_t).abs() - otol).argmax())
        ctx.violation(f"reward_vs_objective|{tag}", f"reward {float(rew_spy[r])} != objective {objs[r]} (row {r})",
                      {"row": r, "actions": A[r], "instance": py_instance(envn, inst[r % B])})
    r2 = ctx.guard(env.get_reward, ref.td.clone(), A.clone(), what=f"get_reward|{tag}").reshape(-1)
    ctx.check(_close(rew_spy, r2, rtol), f"reward_vs_get_reward|{tag}",
              f"reward of the beams differs from env.get_reward(replayed final td, actions) by {_maxdiff(rew_spy, r2):.3e}")

    # ---- Oracle 3: distinct beams
    for b in range(B):
        st_b = [int(starts[j * B + b]) for j in range(W)]
        if len(set(st_b)) < W:
            ctx.event("forced_starts_repeat")
            continue
        seqs = [tuple(A[j * B + b].tolist()) for j in range(W)]
        if len(set(seqs)) < W:
            ctx.violation(f"duplicate_beams|{tag}", f"instance {b}: forced starts {st_b} are distinct but the returned "
                          f"beams are not pairwise distinct: {seqs}")

    # ---- Oracle 4: guided reference beam search on the kept prefixes the spy saw
    follow = []
    for t in range(1, T):
        s = spy.steps[t]
        follow.append([[tuple(s["hist"][j * B + b, :t + 1].tolist()) for j in range(W)] for b in range(B)])
    # step 0 of the run: every slot executed its forced start
    h0 = spy.steps[0]["hist"][:, 0]
    ctx.check(torch.equal(h0, starts), f"forced_start_not_executed|{tag}",
              f"first executed moves {h0.tolist()} are not the forced starts {starts.tolist()}"
              + (" handed out by select_start_nodes_fn" if ssn is not None else ""))
    # (decoder outputs of the HARNESS reference run, recorded for the step classes below; unfiltered cases only)
    probe = None if filtered else DecoderProbe(policy.decoder)
    try:
        bref = reference_beam_search(policy, env, td0, W, starts=starts, follow=follow, temperature=Tm, tanh_clipping=C, **fkw)
    finally:
        if probe is not None:
            probe.close()
    if bref.invalid is not None:
        t, b, slot, p_ = bref.invalid
        prev = [bm.prefix for bm in bref.steps[t - 1].kept[b]]
        ctx.violation(f"kept_not_an_expansion|{tag}",
                      f"step {t}, instance {b}, slot {slot}: kept beam {list(p_)} is not a feasible"
                      + (f" (kept by top_k={top_k} / top_p={top_p})" if filtered else "")
                      + f" one-node expansion of the previous beams {prev} (with multiplicity)",
                      {"step": t, "instance": b, "prefix": p_})
    ctx.check(bref.mask_ok, f"decoder_mask_mismatch|{tag}", "decoder-returned mask differs from td['action_mask'] (beam ref)")
    # instances whose candidate set became rounding-dependent at some step (filters only) are don't-care from there on
    taint = [(bref.tainted_at[b] if bref.tainted_at and bref.tainted_at[b] is not None else T + 1) for b in range(B)]
    if any(tt <= T for tt in taint):
        ctx.event("instances_tainted_by_ambiguous_filter_cut", sum(tt <= T for tt in taint))
    n_dec = n_multi = 0
    for t in range(1, T):
        stp = bref.steps[t]
        for b in range(B):
            if t >= taint[b]:
                continue
            kept = sorted((bm.score for bm in stp.kept[b]), reverse=True)
            top = stp.top[b]
            if stp.ncand[b] > W:
                n_multi += 1
                n_dec += stp.gap[b] > GAP
            for i in range(W):
                if abs(kept[i] - top[i]) > tol * (1 + abs(top[i])):
                    ctx.violation(
                        f"kept_not_top_w|{tag}",
                        f"step {t}, instance {b}: accumulated scores of the kept beams {kept} are not the {W} best of the "
                        f"{stp.ncand[b]} feasible expansions {top} (W-th/(W+1)-th gap {stp.gap[b]:.3e})"
                        + (f" under temperature={Tm}, tanh_clipping={C}, top_k={top_k}, top_p={top_p}" if case.get("dec") else ""),
                        {"step": t, "instance": b, "kept": [list(bm.prefix) for bm in stp.kept[b]], "kept_scores": kept,
                         "top": top})
    ctx.event("steps_with_choice", n_multi)
    ctx.event("steps_decisive(gap>1e-5)", n_dec)
    # score geometry of the steps (generator measurement): numerically deterministic steps (every stacked row's best move
    # has log-prob exactly 0.0 in the working dtype while alternatives exist), kept scores more than 16.6 nats apart, and
    # steps where both hold and the W best expansions are NOT "every beam keeps its best child"
    cls = None
    if probe is not None and bref.invalid is None:
        cls = step_classes(bref, probe.rec, ref_log_softmax, Tm, C, tol, skip_from=taint)
        ctx.event("steps_all_rows_deterministic_with_alternatives", cls["det"])
        ctx.event("steps_kept_score_spread>16.6", cls["spread"])
        ctx.event("steps_deterministic_and_spread>16.6", cls["det_spread"])
        ctx.event("steps_deterministic_spread_and_top_w!=argmax_children", cls["det_spread_differs"])
        ctx.event("steps_top_w!=argmax_children", cls["differs"])
        for lab, cnt in (("all_rows_deterministic_with_alternatives", cls["det"]), ("kept_score_spread>16.6", cls["spread"]),
                         ("deterministic_step_where_top_w!=argmax_children", cls["det_spread_differs"])):
            if cnt:
                ctx.event(f"case:{lab}")
                if key == "nar_coarse":
                    ctx.event(f"case:{lab}|nar_coarse/{(case.get('opts') or {}).get('kind', 'two_speed')}")
        ctx.event("max_kept_score_spread:" + ("<1" if cls["max_spread"] < 1 else "1-16.6" if cls["max_spread"] <= 16.6
                                              else "16.6-40" if cls["max_spread"] <= 40 else ">40"))
    # the reference's per-step log-probs along the final beams' ancestry == returned per-step log-probs (same layout)
    lp_anc = torch.zeros(R, T, dtype=torch.float64)
    last = bref.steps[-1]
    clean = torch.tensor([taint[r % B] > T for r in range(R)])
    for b in range(B):
        for j in range(W):
            slot, t = j, T - 1
            while t >= 0:
                bm = bref.steps[t].kept[b][slot]
                lp_anc[j * B + b, t] = bm.logp
                slot, t = bm.parent, t - 1
    if bool(clean.any()) and not _close(ref.logp[clean], lp_anc[clean], tol, slack[clean]):
        ctx.event("replay_vs_beamref_layout_noise")  # harness self-consistency across layouts (not a verdict on rl4co)
    if not sb and not ret_sum and bool(clean.any()):
        anc = lp_anc if smask is None else torch.where(smask, lp_anc, torch.zeros_like(lp_anc))
        if not _close(ll_ret[clean], anc[clean], tol, (8 * eps * ref.scale)[clean]):
            ctx.violation(f"ll_vs_beam_ancestry|{tag}",
                          f"returned per-step log-probs differ from those of the beam's ancestors by "
                          f"{_maxdiff(ll_ret[clean], anc[clean]):.3e}", {"ll": ll_ret, "reference": anc})

    # ---- Oracle 5: best-selection
    if sb:
        for b in range(B):
            rows = [j * B + b for j in range(W)]
            o = [objs[r] for r in rows]
            best = max(o)
            tb = (1e-9 if f64 else 1e-5) * (1 + max(terms[r] for r in rows))
            if abs(float(rew_ret[b]) - best) > tb:
                ctx.violation(f"select_best_not_max|{tag}",
                              f"instance {b}: returned reward {float(rew_ret[b])} but its beams have objectives {o}",
                              {"instance": b, "beam_rewards": [float(rew_spy[r]) for r in rows]})
            spied_best = max(float(rew_spy[r]) for r in rows)
            ctx.check(abs(float(rew_ret[b]) - spied_best) <= rtol * (1 + abs(spied_best)), f"select_best_not_max|{tag}",
                      f"instance {b}: returned reward {float(rew_ret[b])} but the compared beam rewards were "
                      f"{[float(rew_spy[r]) for r in rows]}")
            match = [r for r in rows if torch.equal(A[r], A_ret[b])]
            if not match:
                ctx.violation(f"select_best_actions|{tag}", f"instance {b}: returned actions {A_ret[b].tolist()} are none of "
                              f"its beams {[A[r].tolist() for r in rows]}")
                continue
            ctx.check(any(abs(objs[r] - best) <= tb for r in match), f"select_best_actions|{tag}",
                      f"instance {b}: returned actions belong to a beam with objective {[objs[r] for r in match]}, best {best}")
            # the reported reward is the objective of the RETURNED sequence (envs that keep their reward in the rollout
            # state - mTSP minmax - report whatever state best-selection hands back)
            ctx.check(abs(float(rew_ret[b]) - objs[match[0]]) <= tb, f"select_best_reward_vs_returned_actions|{tag}",
                      f"instance {b}: returned reward {float(rew_ret[b])} but the returned actions {A_ret[b].tolist()} have "
                      f"objective {objs[match[0]]}")
            ok = any(ll_matches(ll_ret, torch.tensor([b]), torch.tensor([r]), tol) for r in match)
            if not ok:
                ctx.violation(f"ll_vs_replay|{tag}|best",
                              f"instance {b}: returned log-probs {ll_ret[b].tolist()} are not those of the selected "
                              f"beam {want[match[0]].tolist()}" + (" (summed)" if ret_sum else ""), {"actions": A_ret[b]})
            if not ret_sum:
                ctx.check(float(ll_ret[b, 0]) == 0.0, f"forced_start_nonzero|{tag}",
                          "forced first move contributes a non-zero log-prob")
                if smask is not None:
                    ctx.check(bool((ll_ret[b][~stepmask[b]] == 0).all()), f"irrelevant_step_nonzero|{tag}",
                              f"instance {b}: a step flagged irrelevant contributes a non-zero log-prob",
                              {"ll": ll_ret[b], "mask": stepmask[b]})
            if ret_ent and not any(ent_matches(out["entropy"], torch.tensor([b]), torch.tensor([r])) for r in match):
                ctx.violation(f"entropy_vs_replay|{tag}|best",
                              f"instance {b}: returned entropy {float(out['entropy'][b])} is not that of the selected beam "
                              f"({[float(ent_ref[r]) for r in match]})", {"actions": A_ret[b]})
            if len(set(round(x, 9) for x in o)) > 1:
                ctx.event("select_best_beams_differ_in_reward")
                if o.index(best) != 0:
                    ctx.event("select_best_not_slot0")
                    if envn == "mtsp":
                        ctx.event(f"select_best_not_slot0|{tag}")

    # ---- coverage bookkeeping
    differ = bool(ref.done_at.min() != ref.done_at.max())
    if envn in VARLEN and differ:
        ctx.event("beams_finish_at_different_steps")
    if bref.reordered:
        ctx.event("reordered")
        ctx.nontriv()
        if envn in VARLEN and differ:
            ctx.event("nontrivial_varlen_different_finish")
        if filtered and bool(removed.any()):
            ctx.event("nontrivial_filter_removed_feasible")
        if key != "am":
            ctx.event(f"nontrivial_policy:{key}")
        if cls is not None and cls["det_spread_differs"]:
            ctx.event("nontrivial_deterministic_step_where_top_w!=argmax_children")
    frac = "all" if n_dec == n_multi else ("most" if n_dec >= 0.8 * max(1, n_multi) else "some")
    ctx.event(f"decisive:{frac}")
    ctx.sample({"env": envn, "policy": key, "n": n, "W": W, "B": B, "select_best": sb, "T": T, "dec": case.get("dec"),
                "beams_instance0": [A[j * B].tolist() for j in range(W)],
                "scores_instance0": [round(bm.score, 4) for bm in last.kept[0]]})


# =========================================================================== large stacked batches
# Index buffers of a beam search (parent slot 0..W-1, parent slot * B, flat row 0..W*B-1, candidate index 0..W*N-1) are
# small integers at toy size.  This slice draws stacked batches whose indices cross the ranges of every narrow integer
# type an implementation could plausibly hold them in, with a tiny policy, and asserts the vectorised part of the oracle.
I8, U8, I16, U16 = 2 ** 7, 2 ** 8, 2 ** 15, 2 ** 16
BIG_HANG_S = 900
REGIMES = {
    # name: what crosses
    "int16_rows": "(W-1)*B >= 2^15 with W 8-12: parent-slot*B and flat rows beyond int16",
    "int16_wide": "(W-1)*B >= 2^15 with W 20-31, n >= W: same with many slots (candidate index W*N > 255)",
    "uint16_rows": "(W-1)*B >= 2^16 with W 8-16: beyond uint16",
    "int8_slots": "W 129-136 on n >= W, B 1-3: parent SLOT beyond int8 (and rows beyond int8/uint8)",
    "uint8_slots": "W 257-262 on n >= W, B 1-2: parent slot beyond uint8",
}


def _ceil_div(a, b):
    return -(-a // b)


@st.composite
def big_cases(draw, tier="quick", regime="int16_rows"):
    """One regime per sub-check.  The minimal example of each strategy (always Hypothesis' first example of a run) is the
    regime's exact boundary case on TSP: smallest width, n = W, the smallest B whose last slot lies beyond the limit,
    best-selection on, env checker off."""
    if regime == "int16_rows":
        envn = draw(st.sampled_from(["tsp", "mtsp", "tsp"]))
        W = draw(st.sampled_from([10, 8, 9, 11, 12]))
        lim = I16
    elif regime == "int16_wide":
        envn = draw(st.sampled_from(["tsp", "mtsp", "tsp"]))
        W = draw(st.integers(20, 31))
        lim = I16
    elif regime == "uint16_rows":
        envn = "tsp"
        W = draw(st.sampled_from([10, 8, 12, 16]))
        lim = U16
    elif regime == "int8_slots":
        envn = draw(st.sampled_from(["tsp", "tsp", "mtsp"]))
        W = draw(st.integers(I8 + 1, I8 + 8))
        lim = None
    else:
        assert regime == "uint8_slots"
        envn = "tsp"
        W = draw(st.integers(U8 + 1, U8 + 6))
        lim = None
    d = draw(st.integers(0, 2 if W < 100 else 6))
    n = W + d + (1 if envn == "mtsp" else 0)  # mtsp: n locations = depot + cities; forced starts distinct iff W <= cities
    if lim is not None:
        bmin = _ceil_div(lim, W - 1)
        B = bmin + draw(st.integers(0, bmin // 8))  # bmin: only the last slot's rows lie beyond the limit
    else:
        B = draw(st.integers(1, 3 if regime == "int8_slots" else 2))
    extra = {"ct": draw(st.sampled_from(["minmax", "minmax", "sum"]))} if envn == "mtsp" else {}
    return dict(regime=regime, env=envn, **extra, n=n, W=W, B=B, iseed=draw(st.integers(0, 2 ** 20)),
                pseed=draw(st.integers(0, 3)), spread=draw(st.sampled_from([1.5, 1.25, 2.0])),
                select_best=draw(st.sampled_from([True, False])), check=draw(st.sampled_from([False, True])))


def big_minimize(case):
    c = dict(case)
    lim = {"int16_rows": I16, "int16_wide": I16, "uint16_rows": U16}.get(c["regime"])
    if lim is not None:
        bmin = _ceil_div(lim, c["W"] - 1)
        if c["B"] > bmin:
            yield {**c, "B": bmin}
        # still failing below the limit: not a matter of the index range
        for b in (bmin - 1, bmin // 2, bmin // 16, 2):
            if 1 <= b < c["B"]:
                yield {**c, "B": b}
    elif c["B"] > 1:
        yield {**c, "B": 1}
    for key, val in (("select_best", False), ("check", False), ("spread", 1.5), ("pseed", 0)):
        if c.get(key) != val:
            yield {**c, key: val}


_TINY = {}


def tiny_policy(envn, seed, spread):
    """AM policy with embed 16, 1 encoder layer, 2 heads (batch norm, eval mode), spread-initialised like
    vf.policies.build_policy; cached per process; global RNG state preserved."""
    key = (envn, int(seed), float(spread))
    if key not in _TINY:
        from rl4co.models import AttentionModelPolicy
        state = torch.get_rng_state()
        try:
            torch.manual_seed(int(seed))
            p = AttentionModelPolicy(env_name=envn, embed_dim=16, num_encoder_layers=1, num_heads=2, feedforward_hidden=32,
                                     normalization="batch")
            with torch.no_grad():
                for _, prm in p.named_parameters():
                    if prm.requires_grad and prm.dim() >= 2:
                        prm.mul_(float(spread))
        finally:
            torch.set_rng_state(state)
        for m in p.modules():
            if isinstance(m, torch.nn.Dropout):
                m.p = 0.0
        _TINY[key] = p
    p = _TINY[key]
    p.eval()
    return p


def big_cfg(case):
    envn, n = case["env"], int(case["n"])
    cfg = small_cfg(envn, n)
    if envn == "mtsp":
        cfg.update(min_agents=1, max_agents=min(4, n - 1), cost_type=case.get("ct") or "minmax")
    return cfg


def vec_judge(envn, ct, inst, A, B):
    """Vectorised independent verdict for TSP / mTSP (float64), rows r of A belong to instance r % B.
    -> valid [R] bool, objective [R], terms [R] (sum of all leg lengths), fin [R] (steps up to the last city visit).
    TSP: valid = the row is a permutation of 0..n-1; objective = -closed tour length.
    mTSP: valid = every city 1..n-1 exactly once and (#depot visits before the last city) + 1 <= num_agents (the C01
    oracle's rule: routes = the action list split at depot visits, trailing depot padding stripped); objective =
    -(longest | sum of) depot-to-depot route lengths of depot + actions + depot (padding legs depot->depot are 0)."""
    R, T = A.shape
    idx = torch.arange(R) % B
    locs = inst["locs"].double()
    n = locs.shape[1]
    L = locs[idx]
    inr = (A >= 0) & (A < n)
    Ac = A.clamp(0, n - 1)
    cnt = torch.zeros(R, n, dtype=torch.long).scatter_add(1, Ac, inr.long())
    if envn == "tsp":
        valid = inr.all(1) & (cnt == 1).all(1) & (T == n)
        P = L.gather(1, Ac.unsqueeze(-1).expand(R, T, 2))
        tot = (P - P.roll(-1, 1)).pow(2).sum(-1).sqrt().sum(1)
        return valid, -tot, tot, torch.full((R,), T, dtype=torch.long)
    pos = torch.arange(1, T + 1).view(1, T)
    fin = (pos * (Ac != 0)).max(1).values                      # steps up to (including) the last city visit
    zeros_before = ((Ac == 0) & (pos <= fin.view(R, 1))).sum(1)
    m = inst["num_agents"].reshape(-1).long()[idx]
    valid = inr.all(1) & (cnt[:, 1:] == 1).all(1) & (zeros_before + 1 <= m)
    z = torch.zeros(R, 1, dtype=torch.long)
    seq = torch.cat([z, Ac, z], 1)
    P = L.gather(1, seq.unsqueeze(-1).expand(R, T + 2, 2))
    legs = (P[:, 1:] - P[:, :-1]).pow(2).sum(-1).sqrt()        # [R, T+1]; leg i: seq[i] -> seq[i+1]
    seg = torch.cat([z, (Ac == 0).long().cumsum(1)], 1)         # route of leg i = #depot visits among actions[:i]
    routes = torch.zeros(R, T + 2, dtype=torch.float64).scatter_add(1, seg, legs)
    tot = legs.sum(1)
    obj = -routes.max(1).values if ct == "minmax" else -tot
    return valid, obj, tot, fin


def execute_big(case, ctx):
    envn, n, W, B = case["env"], int(case["n"]), int(case["W"]), int(case["B"])
    sb = bool(case["select_best"])
    tag = _tag(case)
    slice_ = f"{tag}|{'best' if sb else 'all'}|big"
    cfg = big_cfg(case)
    env, inst, td0 = make_batch(envn, cfg, B, case["iseed"])
    policy = tiny_policy(envn, case["pseed"], case["spread"])
    ctx.event(f"regime:{case['regime']}")
    ctx.event(f"env:{tag}")
    ctx.event("select_best" if sb else "all_beams")
    ctx.event("env_checker_on" if case.get("check", True) else "env_checker_off")
    for name, lim in (("int8", I8), ("uint8", U8), ("int16", I16), ("uint16", U16)):
        if (W - 1) * B >= lim:
            ctx.event(f"(W-1)*B>={name}")
        if W - 1 >= lim:
            ctx.event(f"W-1>={name}")
    try:
        with watchdog(BIG_HANG_S):
            _run_big(case, ctx, cfg, env, inst, td0, policy, tag, slice_)
    except Hang:
        ctx.violation(f"hang|{slice_}", f"beam search / replay did not return within {BIG_HANG_S}s (W={W}, B={B}, n={n})")


def _first(mask):
    return int(torch.nonzero(mask.reshape(-1))[0])


def _run_big(case, ctx, cfg, env, inst, td0, policy, tag, slice_):
    envn, n, W, B = case["env"], int(case["n"]), int(case["W"]), int(case["B"])
    ct = cfg.get("cost_type")
    sb = bool(case["select_best"])
    R = W * B
    tol, rtol, eps = 1e-5, 1e-6, 2.0 ** -23
    max_steps = 6 * n + 24
    Tcap = n + (cfg["max_agents"] if envn == "mtsp" else 0) + 8

    spy = SpyEnv(env, light=True, B=B)
    tdin = td0.clone()
    tdin.set("vf_hist", torch.full((B, Tcap), -1, dtype=torch.long))
    tdin.set("vf_len", torch.zeros(B, dtype=torch.long))
    tdin.set("vf_inst", torch.arange(B))
    torch.manual_seed(case["iseed"])
    # env built with the documented check_solution=False in half of the cases (restored right after: shared env object)
    check0 = env.check_solution
    env.check_solution = bool(case.get("check", True))
    try:
        with torch.no_grad():
            out = ctx.guard(policy, tdin, spy, what=f"policy|{slice_}", decode_type="beam_search", beam_width=W,
                            select_best=sb, return_actions=True, return_sum_log_likelihood=False, max_steps=max_steps)
    finally:
        env.check_solution = check0
    A_ret, ll_ret, rew_ret = out["actions"].long(), out["log_likelihood"], out["reward"].reshape(-1)
    T = A_ret.shape[1]
    Rret = B if sb else R
    ctx.check(A_ret.shape[0] == Rret and rew_ret.shape[0] == Rret and tuple(ll_ret.shape) == (Rret, T),
              f"shape|{slice_}", f"actions {tuple(A_ret.shape)} ll {tuple(ll_ret.shape)} reward "
              f"{tuple(out['reward'].shape)} for B={B}, W={W}, select_best={sb}")
    if spy.lost_keys or len(spy.starts) != 1 or not spy.rewards:
        raise RuntimeError(f"spy channel broken: lost={spy.lost_keys} starts={len(spy.starts)} rewards={len(spy.rewards)}")
    if spy.n_steps != T or T > Tcap:
        ctx.violation(f"episode_length|{tag}|big", f"returned sequences have {T} steps, {spy.n_steps} environment steps were "
                      f"executed (n={n}, at most {Tcap - 8} steps finish every row)")
        return
    starts = spy.starts[0].long()
    m0 = expand_starts(td0, W)["action_mask"]
    if starts.shape[0] != R or int(starts.max()) >= m0.shape[1] or int(starts.min()) < 0 \
            or not bool(m0.gather(1, starts.view(-1, 1)).all()):
        ctx.exclude("forced_start_infeasible(C12)")
        return
    if sb:
        allc = [(a, r) for a, r in spy.rewards if a.shape[0] == R]
        if not allc:
            ctx.exclude("select_best_without_all_beam_reward_call")
            return
        A, rew_spy = allc[0][0].long(), allc[0][1].reshape(-1)
        ctx.check(tuple(A.shape) == (R, T), f"shape|{slice_}", f"best-selection compared actions of shape {tuple(A.shape)}")
    else:
        A, rew_spy = A_ret, rew_ret

    # ---- rows stay inside their instance; executed history of the final rows == returned (back-tracked) sequences
    if spy.crossed_at is not None:
        ctx.violation(f"beam_crosses_instances|{tag}|big",
                      f"after step {spy.crossed_at} some row r holds a state of another instance than r % B (B={B}, W={W})")
    ar = torch.arange(R)
    for t, P in enumerate(spy.parents):
        if not torch.equal(P % B, ar % B):
            r = _first(P % B != ar % B)
            ctx.violation(f"beam_crosses_instances|{tag}|big", f"step {t + 1}: row {r} (instance {r % B}) continues the state "
                          f"of row {int(P[r])} (instance {int(P[r]) % B})")
    H = spy.steps[-1]["hist"][:, :T]
    if not torch.equal(H, A):
        bad = (H != A).any(1)
        r = _first(bad)
        ctx.violation(f"backtrack_vs_executed|{tag}|big",
                      f"{int(bad.sum())} of {R} returned sequences are not the sequence that was executed to reach the state in "
                      f"their row; first: row {r} (slot {r // B}, instance {r % B}) returned {A[r].tolist()}, executed "
                      f"{H[r].tolist()}", {"row": r, "returned": A[r], "executed": H[r]})

    # ---- Oracle 1 (vectorised): every beam complete + feasible; reward == independent objective
    valid, obj, terms, fin = vec_judge(envn, ct, inst, A, B)
    # harness self-consistency: the vectorised verdict agrees with the C01 oracle on a few rows (both ends, around 2^15)
    spec, jcase = SPECS[envn], {"env": envn, "cfg": cfg, "src": "gen"}
    for r in sorted({0, 1, R // 2, R - 1, I16 - 1, I16, U16 - 1, U16} & set(range(R))):
        v = judge_row(jcase, spec, py_instance(envn, inst[r % B]), A[r].tolist()[:int(fin[r])])
        if bool(valid[r]) != (not violated(jcase, v)) or (bool(valid[r]) and abs(v.obj - float(obj[r])) > 1e-9 * (1 + abs(v.terms))):
            raise RuntimeError(f"vectorised verdict disagrees with the row oracle at row {r}: {bool(valid[r])}/{float(obj[r])} "
                               f"vs {violated(jcase, v)}/{v.obj} for {A[r].tolist()}")
    if not bool(valid.all()):
        r = _first(~valid)
        ctx.violation(f"infeasible_beam|{tag}|big",
                      f"{int((~valid).sum())} of {R} beams are not valid solutions; first: row {r} (slot {r // B}, instance "
                      f"{r % B}): {A[r].tolist()}", {"row": r, "actions": A[r], "instance": py_instance(envn, inst[r % B])})
    otol = 1e-5 * (1 + terms)
    if not bool(((rew_spy.double() - obj).abs() <= otol).all()):
        r = int(((rew_spy.double() - obj).abs() - otol).argmax())
        ctx.violation(f"reward_vs_objective|{tag}|big", f"reward {float(rew_spy[r])} != objective {float(obj[r])} (row {r}): "
                      f"{A[r].tolist()}", {"row": r, "actions": A[r], "instance": py_instance(envn, inst[r % B])})

    # ---- Oracle 2: teacher-forced replay of all W*B returned sequences (reference loop, one vectorised pass)
    ref = reference_logprobs(policy, env, td0, A, num_starts=W, forced_first=True)
    if not bool(ref.in_mask.all()):
        r = _first(~ref.in_mask.all(1))
        ctx.violation(f"action_outside_mask|{tag}|big", f"{int((~ref.in_mask.all(1)).sum())} of {R} returned beams take an action "
                      f"outside the env mask; first: row {r}: {A[r].tolist()}", {"row": r, "actions": A[r]})
    ctx.check(ref.mask_ok, f"decoder_mask_mismatch|{tag}|big", "decoder-returned mask differs from td['action_mask']")
    ctx.check(ref.all_done_at == T, f"episode_length|{tag}|big",
              f"returned {T} steps but replaying the beams finishes every row after {ref.all_done_at}")
    if not torch.equal(ref.done_at, fin):
        r = _first(ref.done_at != fin)
        ctx.violation(f"beam_incomplete|{tag}|big", f"row {r}: the env reports done after {int(ref.done_at[r])} steps (T+1 = "
                      f"never), the last city is visited at step {int(fin[r])}: {A[r].tolist()}")
    if envn in DEPOT:
        tail = (torch.arange(1, T + 1).view(1, T) > fin.view(R, 1)) & (A != 0)
        if bool(tail.any()):
            r = _first(tail.any(1))
            ctx.violation(f"tail_not_padding|{tag}|big", f"row {r}: actions after the finishing step {int(fin[r])}: {A[r].tolist()}")
    r2 = ctx.guard(env.get_reward, ref.td.clone(), A.clone(), what=f"get_reward|{tag}|big").reshape(-1)
    ctx.check(_close(rew_spy, r2, rtol), f"reward_vs_get_reward|{tag}|big",
              f"reward of the beams differs from env.get_reward(replayed final td, actions) by {_maxdiff(rew_spy, r2):.3e}")
    slack = 32 * eps * ref.scale
    if not sb:
        if not _close(ll_ret, ref.logp, tol, slack):
            d = ((ll_ret.double() - ref.logp).abs() - tol * (1 + ref.logp.abs()) - slack).max(1).values
            r = int(d.argmax())
            ctx.violation(f"ll_vs_replay|{tag}|big",
                          f"returned per-step log-probs differ from the policy's log-probs along the returned sequence by "
                          f"{_maxdiff(ll_ret, ref.logp):.3e} ({int((d > 0).sum())} of {R} rows; worst row {r}, slot {r // B})",
                          {"row": r, "ll": ll_ret[r], "replay": ref.logp[r], "actions": A[r]})
        ctx.check(bool((ll_ret[:, 0] == 0).all()), f"forced_start_nonzero|{tag}|big",
                  "forced first move contributes a non-zero log-prob")

    # ---- Oracle 3: distinct beams (instances whose forced starts are pairwise distinct)
    Aw, Sw = A.view(W, B, T), starts.view(W, B)
    ss = Sw.sort(0).values
    st_ok = (ss[1:] != ss[:-1]).all(0) if W > 1 else torch.ones(B, dtype=torch.bool)
    if not bool(st_ok.all()):
        ctx.event("forced_starts_repeat", int((~st_ok).sum()))
    dup = torch.zeros(B, dtype=torch.bool)
    for j in range(W - 1):
        dup |= (Aw[j + 1:] == Aw[j:j + 1]).all(-1).any(0)
    dup &= st_ok
    if bool(dup.any()):
        b = _first(dup)
        ctx.violation(f"duplicate_beams|{tag}|big", f"{int(dup.sum())} of {B} instances have forced starts that are pairwise "
                      f"distinct but returned beams that are not; first: instance {b}: {Aw[:, b].tolist()}")
    ctx.check(torch.equal(spy.first_actions, starts), f"forced_start_not_executed|{tag}|big",
              "the first executed moves are not the forced starts handed out by select_start_nodes")

    # ---- Oracle 5: best-selection
    if sb:
        objw, reww, termw = obj.view(W, B), rew_spy.double().view(W, B), terms.view(W, B)
        best = objw.max(0).values
        tb = 1e-5 * (1 + termw.max(0).values)
        bad = (rew_ret.double() - best).abs() > tb
        if bool(bad.any()):
            b = _first(bad)
            ctx.violation(f"select_best_not_max|{tag}|big",
                          f"{int(bad.sum())} of {B} instances: returned reward is not the maximum over the instance's beams; "
                          f"first: instance {b}: returned {float(rew_ret[b])}, beam objectives {objw[:, b].tolist()}",
                          {"instance": b, "beam_rewards": reww[:, b]})
        sbest = reww.max(0).values
        bad = (rew_ret.double() - sbest).abs() > rtol * (1 + sbest.abs())
        if bool(bad.any()):
            b = _first(bad)
            ctx.violation(f"select_best_not_max|{tag}|big", f"instance {b}: returned reward {float(rew_ret[b])} but the compared "
                          f"beam rewards were {reww[:, b].tolist()}")
        eq = (Aw == A_ret.view(1, B, T)).all(-1)  # [W,B] beams equal to the returned sequence
        if not bool(eq.any(0).all()):
            b = _first(~eq.any(0))
            ctx.violation(f"select_best_actions|{tag}|big", f"instance {b}: returned actions {A_ret[b].tolist()} are none of its "
                          f"beams {Aw[:, b].tolist()}")
        else:
            jm = eq.long().argmax(0)  # first matching slot
            rows = jm * B + torch.arange(B)
            bad = (obj[rows] - best).abs() > tb
            if bool(bad.any()):
                b = _first(bad)
                ctx.violation(f"select_best_actions|{tag}|big", f"instance {b}: returned actions belong to a beam with objective "
                              f"{float(obj[rows[b]])}, best {float(best[b])}")
            # reported reward == independent objective of the RETURNED sequence (judged on its own, as instance b)
            v_ret, obj_ret, terms_ret, _ = vec_judge(envn, ct, inst, A_ret, B)
            bad = (rew_ret.double() - obj_ret).abs() > 1e-5 * (1 + terms_ret)
            if bool(bad.any()) or not bool(v_ret.all()):
                b = _first(bad | ~v_ret)
                ctx.violation(f"select_best_reward_vs_returned_actions|{tag}|big",
                              f"instance {b}: returned reward {float(rew_ret[b])} but the returned actions {A_ret[b].tolist()} "
                              f"have objective {float(obj_ret[b])} (valid={bool(v_ret[b])})")
            if not _close(ll_ret, ref.logp[rows], tol, slack[rows]):
                d = ((ll_ret.double() - ref.logp[rows]).abs() - tol * (1 + ref.logp[rows].abs()) - slack[rows]).max(1).values
                b = int(d.argmax())
                ctx.violation(f"ll_vs_replay|{tag}|best|big",
                              f"{int((d > 0).sum())} of {B} instances: returned per-step log-probs are not those of the selected "
                              f"beam; worst: instance {b}: {ll_ret[b].tolist()} vs {ref.logp[rows[b]].tolist()}",
                              {"actions": A_ret[b]})
            ctx.check(bool((ll_ret[:, 0] == 0).all()), f"forced_start_nonzero|{tag}|big",
                      "forced first move contributes a non-zero log-prob")
        differ = (objw.max(0).values - objw.min(0).values) > 1e-9
        ctx.event("select_best_instances_beams_differ_in_reward", int(differ.sum()))
        ctx.event("select_best_instances_best_not_slot0", int((differ & (objw.argmax(0) != 0)).sum()))

    # ---- coverage bookkeeping: which parent rows / slots were REALLY used (observed through vf_row)
    pmax = smax = 0
    reordered = False
    over = {"int8": 0, "uint8": 0, "int16": 0, "uint16": 0}
    for P in spy.parents:
        pmax = max(pmax, int(P.max()))
        smax = max(smax, int(P.max()) // B)
        reordered = reordered or not torch.equal(P, ar)
        off = (P // B) * B  # the product parent-slot * batch size an implementation adds to the instance index
        for name, lim in (("int8", I8), ("uint8", U8), ("int16", I16), ("uint16", U16)):
            over[name] += int((off >= lim).sum())
    for name, cnt in over.items():
        if cnt:
            ctx.event(f"kept_beams_with_parent_slot*B>={name}", cnt)
    for name, lim in (("int8", I8), ("uint8", U8)):
        if smax >= lim:
            ctx.event(f"parent_slot>={name}_used")
    if reordered:
        ctx.event("reordered")
    lim = {"int16_rows": I16, "int16_wide": I16, "uint16_rows": U16}.get(case["regime"])
    crossed = (pmax // B) * B >= lim if lim is not None else smax >= (I8 if case["regime"] == "int8_slots" else U8)
    if reordered and crossed:
        ctx.nontriv()
    else:
        ctx.event("boundary_not_exercised")
    if envn in VARLEN and bool(ref.done_at.min() != ref.done_at.max()):
        ctx.event("beams_finish_at_different_steps")
    ctx.sample({"regime": case["regime"], "env": tag, "n": n, "W": W, "B": B, "rows": R, "select_best": sb, "T": T,
                "max_parent_row_used": pmax})



SUBS = [
    Sub("beam_search", execute, strategy=lambda tier: cases(tier), budget={"quick": 1728, "thorough": 7200}, shards=16,
        shrink=False, minimize=minimize),
] + [
    # one sub-check per index-range regime, one shard each: Hypothesis' first example of a run is always the strategy's
    # minimal one = the regime's exact boundary case (e.g. tsp n=10, W=10, B=3641: the smallest stacked batch whose last
    # slot lies beyond int16); the following ones are drawn.  quick: boundary case + 1 drawn per regime
    Sub(f"big_{regime}", execute_big, strategy=(lambda tier, regime=regime: big_cases(tier, regime)),
        budget={"quick": 2, "thorough": 12}, shards=1, shrink=False, minimize=big_minimize, weight=4.0)
    for regime in REGIMES
]
