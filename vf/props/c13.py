"""C13 — beam search returns feasible, correctly scored and distinct beams.

Code under test: rl4co.utils.decoding.BeamSearch (pre_decoder_hook, _step, _make_beam_step, _backtrack,
_select_best_beam, post_decoder_hook) as invoked by ConstructivePolicy.forward:
    policy(td, env, decode_type="beam_search", beam_width=W, select_best=..., return_sum_log_likelihood=False)

Observation (black box, DESIGN 2.5): the policy runs against a delegating *spy env* that
  * records the forced first moves handed out by select_start_nodes,
  * carries three harness keys through the run (vf_hist [R,Tcap] executed action history of the state in that row,
    vf_len, vf_inst instance id); BeamSearch re-indexes the whole td by its beam parents, so after every env.step the
    spy knows, per row, the action sequence that was *really executed* to reach that row's state = the prefix of the
    kept beam in that slot,
  * records every get_reward call (all W*B beams inside _select_best_beam, then the returned rows).
Nothing of rl4co is patched.

Oracles
 1 feasible    every beam (all W*B, also with select_best) is complete and feasible for the independent problem
               definition (vf.oracles, trimmed at the row's own finishing step, tail = depot padding only); returned
               reward == independent objective == env.get_reward on the independently replayed final state; the run
               stops exactly when the last beam is done.
 2 replay      vf.models.decode.reference_logprobs along each returned sequence reproduces the returned per-step
               log-probs (forced move 0); the returned (back-tracked) sequence of row r IS the sequence executed in row r.
 3 distinct    forced starts of an instance pairwise distinct => its W returned sequences pairwise distinct.
 4 top-W       guided reference beam search (vf/models/beam.py): at every step, per instance, every kept prefix is a
               feasible one-node expansion of a previous kept beam of the SAME instance (with multiplicity) and the
               sorted reference scores of the kept beams equal the reference's W best candidate scores (1e-5*(1+|s|);
               1e-9 in float64).  Following the implementation's kept set makes every step assertable, also behind
               near-ties; steps whose W-th/(W+1)-th gap is <= 1e-5 are counted as non-decisive (evidence only).
 5 best        with select_best the returned reward is the maximum over that instance's beams (independent objectives
               and the spied rewards), the returned actions are one of the maximal beams and the returned log-probs
               are that beam's.
"""
import hypothesis.strategies as st
import torch

from ..envs import SPECS, py_instance
from ..models.beam import reference_beam_search
from ..models.decode import reference_logprobs
from ..play import judge_row, violated
from ..policies import build_policy, expand_starts, make_batch, small_cfg
from ..runner import Sub
from .c11 import HANG_S, Hang, watchdog

PROPERTY = "C13"
RULE = (
    "case = (env in tsp/cvrp/cvrptw(scale=True)/op/pctsp/spctsp/sdvrp/pdp, n 3-8, beam width 2..n (pdp: mostly <= number "
    "of pickups; 1/8 of the cases beam_width=None = env default), B 1-4, instance seed, AM policy seed 0-3 x spread {1.25,1.5,2.0}, select_best on/off, capacity / "
    "max_length variant, env check_solution on/off, float64 slice in thorough). Instances whose forced first moves are not feasible at reset "
    "(OP start rule, C12) are excluded and counted. Non-trivial = the reference measured real re-ordering (some kept "
    "beam's parent slot != its own slot) and, for variable-length envs, is additionally classed by whether beams "
    "finish at different steps; distinct = case hash. Decisive fraction (W-th/(W+1)-th candidate gap > 1e-5) is "
    "reported as event counters."
)
ASSUMPTIONS = [
    "AM policy at toy size (embed 32, 2 encoder layers, batch norm, eval mode), spread-initialised, dropout 0, default "
    "tanh clipping 10 / temperature 1",
    "the reference trusts the bundled encoder/decoder modules, env.step / env masks and env.select_start_nodes (C12), "
    "not BeamSearch / process_logits / get_log_likelihood",
    "the compared score is the sum of the step log-probs of ALL steps so far (forced first move 0, post-finish padding "
    "steps included) - what BeamSearch ranks",
    "float32: per-step log-probs 1e-5*(1+|x|) + 32*eps*max|scaled logit|; accumulated scores 1e-5*(1+|s|); rewards "
    "1e-5*(1+sum|terms|); float64 slice 1e-9",
    "spy env delegates every attribute to the real env; harness keys vf_* ride along in the TensorDict (the decoder and "
    "the envs ignore unknown keys)",
    "OP: instances whose forced first moves (nodes 1..W) are not all feasible are excluded (start rule F17 belongs to "
    "C12); instances where the start rule samples feasible (possibly repeated) starts are kept",
    "not in the domain (vf.policies zoo entries am/mdcpdp, am/dpp, am/mdpp): BeamSearch forces env.select_start_nodes "
    "(nodes 1..W) as first moves, which the MDCPDP reset mask (depot 0 only) never admits - every case would be "
    "'forced_start_infeasible(C12)'; AM on DPP/MDPP cannot decode in the [batch, beams] layout unless B == W "
    "(crash in DPPContext, defect candidate gated in C11)",
]
TIME_CAP = {"quick": 300, "thorough": 2400}

ENVS = ["tsp", "cvrp", "cvrptw", "op", "pctsp", "spctsp", "sdvrp", "pdp"]
VARLEN = ("cvrp", "cvrptw", "op", "pctsp", "spctsp", "sdvrp")
DEPOT = ("cvrp", "cvrptw", "op", "pctsp", "spctsp", "sdvrp")
GAP = 1e-5


# --------------------------------------------------------------------------- strategy
@st.composite
def cases(draw, tier="quick"):
    envn = draw(st.sampled_from(ENVS))
    n = draw(st.sampled_from([3, 4, 5, 6, 7, 8]))
    if envn == "pdp":
        n = max(2, 2 * (n // 2))
        wmax = max(2, n // 2) if draw(st.sampled_from([True] * 4 + [False])) else n  # beyond the pickups the forced starts repeat
    else:
        wmax = n
    W = draw(st.sampled_from(list(range(2, wmax + 1))))
    return dict(
        env=envn, n=n, W=W, B=draw(st.integers(1, 4)), iseed=draw(st.integers(0, 2 ** 20)),
        pseed=draw(st.integers(0, 3)), spread=draw(st.sampled_from([1.25, 1.5, 1.5, 1.6, 2.0])),
        select_best=draw(st.booleans()), variant=draw(st.integers(0, 3)), check=draw(st.booleans()),
        f64=(tier != "quick") and draw(st.sampled_from([False, False, False, True])),
        wdefault=draw(st.sampled_from([False] * 7 + [True])),  # beam_width=None: the env's own number of starts
    )


def env_cfg(envn, n, variant):
    cfg = small_cfg(envn, n)
    v = int(variant)
    if envn in ("cvrp", "sdvrp", "cvrptw"):
        cfg["capacity"] = [None, None, 10.0, 20.0][v]  # small capacities: more routes, beams of different length
    elif envn == "op":
        cfg["max_length"] = [None, 2.0, 3.0, 3.0][v]   # 3.0: every node is a feasible first move
    return cfg


def minimize(case):
    c = dict(case)
    if c["B"] > 1:
        yield {**c, "B": c["B"] - 1}
        yield {**c, "B": 1}
    if c["W"] > 2:
        yield {**c, "W": c["W"] - 1}
        yield {**c, "W": 2}
    step = 2 if c["env"] == "pdp" else 1
    lo = 2 if c["env"] == "pdp" else 3
    if c["n"] - step >= lo:
        yield {**c, "n": c["n"] - step, "W": min(c["W"], c["n"] - step)}
    for key, val in (("f64", False), ("select_best", False), ("check", True), ("wdefault", False), ("variant", 0),
                     ("spread", 1.5),
                     ("pseed", 0)):
        if c.get(key) != val:
            yield {**c, key: val}


# --------------------------------------------------------------------------- spy env
TCAP_EXTRA = 8


class SpyEnv:
    """Delegates everything to the real env; observes forced starts, executed histories and reward calls."""

    def __init__(self, env):
        object.__setattr__(self, "_env", env)
        self.starts = []
        self.steps = []    # per env.step call: dict(hist [R,Tcap], len [R], inst [R], done [R]) AFTER the step
        self.rewards = []  # per get_reward call: (actions, rewards)
        self.lost_keys = 0

    def __getattr__(self, k):
        return getattr(object.__getattribute__(self, "_env"), k)

    def select_start_nodes(self, td, num_starts):
        a = self._env.select_start_nodes(td, num_starts=num_starts)
        self.starts.append(a.clone())
        return a

    def step(self, td):
        R = td.batch_size[0]
        if "vf_hist" not in td.keys():
            self.lost_keys += 1
            return self._env.step(td)
        hist = td["vf_hist"].clone()
        ln = td["vf_len"].clone()
        inst = td["vf_inst"].clone()
        a = td["action"].clone().long()
        ar = torch.arange(R)
        if int(ln.max()) < hist.shape[1]:
            hist[ar, ln] = a
        ln = ln + 1
        out = self._env.step(td)
        nxt = out["next"]
        nxt.set("vf_hist", hist)
        nxt.set("vf_len", ln)
        nxt.set("vf_inst", inst)
        self.steps.append(dict(hist=hist.clone(), len=ln.clone(), inst=inst.clone(),
                               done=nxt["done"].reshape(R, -1).all(-1).clone()))
        return out

    def get_reward(self, td, actions):
        r = self._env.get_reward(td, actions)
        self.rewards.append((actions.clone(), r.clone()))
        return r


# --------------------------------------------------------------------------- helpers
def _close(a, b, tol, slack=0.0):
    a, b = a.double(), b.double()
    return bool(((a - b).abs() <= tol * (1 + b.abs()) + slack).all())


def _maxdiff(a, b):
    d = (a.double() - b.double()).abs()
    return float(d.max()) if d.numel() else 0.0


def _regime(W, n):
    return "W=2" if W == 2 else ("W=n" if W >= n else "2<W<n")


# --------------------------------------------------------------------------- main check
def execute(case, ctx):
    envn, W, B = case["env"], int(case["W"]), int(case["B"])
    f64 = bool(case["f64"])
    sb = bool(case["select_best"])
    cfg = env_cfg(envn, case["n"], case["variant"])
    n = cfg["n"]
    slice_ = f"{envn}|{'best' if sb else 'all'}"
    env, inst, td0 = make_batch(envn, cfg, B, case["iseed"], double=f64)
    policy = build_policy("am", envn, env, seed=case["pseed"], spread=case["spread"], double=f64)
    policy.eval()
    wdefault = bool(case.get("wdefault", False))
    if wdefault:
        # documented default: beam_width=None -> env.get_num_starts(td) (trusted here, C12); a width below 2 is
        # rejected by a documented assertion
        W = int(env.get_num_starts(td0))
        if W < 2:
            ctx.exclude("default_width<2")
            return

    # ---- forced first moves must be feasible at reset, otherwise the case is C12's business
    m0 = expand_starts(td0, W)["action_mask"]
    # OP: with fewer than W feasible nodes in some row the start rule samples feasible nodes from the global RNG (seeded
    # identically here and before the policy call; the reference uses the starts the spy saw anyway); otherwise it
    # hands out nodes 1..W whether feasible or not (F17, C12) - those instances are excluded right here
    if envn == "op" and bool((td0["action_mask"][:, 1:].sum(-1) < W).any()):
        ctx.event("op_sampled_starts")
    torch.manual_seed(case["iseed"])
    a0 = ctx.guard(env.select_start_nodes, td0.clone(), num_starts=W, what=f"select_start_nodes|{envn}")
    if a0.shape[0] != m0.shape[0] or int(a0.max()) >= m0.shape[1] or int(a0.min()) < 0 \
            or not bool(m0.gather(1, a0.view(-1, 1)).all()):
        ctx.exclude("forced_start_infeasible(C12)")
        return

    ctx.event(f"env:{envn}")
    ctx.event(f"width:{_regime(W, n)}" + ("(default)" if wdefault else ""))
    ctx.event("select_best" if sb else "all_beams")
    ctx.event("env_checker_on" if case.get("check", True) else "env_checker_off")
    if f64:
        ctx.event("float64")
    try:
        with watchdog():
            _run(case, ctx, cfg, env, inst, td0, policy, slice_, W, wdefault)
    except Hang:
        ctx.violation(f"hang|{slice_}", f"beam search / replay did not return within {HANG_S}s at toy size")


def _run(case, ctx, cfg, env, inst, td0, policy, slice_, W, wdefault):
    envn, B = case["env"], int(case["B"])
    f64 = bool(case["f64"])
    sb = bool(case["select_best"])
    n = cfg["n"]
    R = W * B
    tol = 1e-9 if f64 else 1e-5
    rtol = 1e-12 if f64 else 1e-6
    eps = 2.0 ** -52 if f64 else 2.0 ** -23
    Tcap = 6 * n + 24 + TCAP_EXTRA

    spy = SpyEnv(env)
    tdin = td0.clone()
    tdin.set("vf_hist", torch.full((B, Tcap), -1, dtype=torch.long))
    tdin.set("vf_len", torch.zeros(B, dtype=torch.long))
    tdin.set("vf_inst", torch.arange(B))
    torch.manual_seed(case["iseed"])
    # check=False: the env as constructed with the documented check_solution=False (no checker between beam search and
    # the caller); the env object is shared per process, so the flag is restored right after the call
    check0 = env.check_solution
    env.check_solution = bool(case.get("check", True))
    try:
        with torch.no_grad():
            out = ctx.guard(policy, tdin, spy, what=f"policy|{slice_}", decode_type="beam_search",
                            beam_width=(None if wdefault else W), select_best=sb, return_actions=True, return_sum_log_likelihood=False, max_steps=6 * n + 24)
    finally:
        env.check_solution = check0
    A_ret, ll_ret, rew_ret = out["actions"], out["log_likelihood"], out["reward"].reshape(-1)
    T = A_ret.shape[1]
    Rret = B if sb else R
    ctx.check(A_ret.shape[0] == Rret and rew_ret.shape[0] == Rret and tuple(ll_ret.shape) == (Rret, T),
              f"shape|{slice_}", f"actions {tuple(A_ret.shape)} ll {tuple(ll_ret.shape)} reward "
              f"{tuple(out['reward'].shape)} for B={B}, W={W}, select_best={sb}")

    # ---- what the spy saw
    if spy.lost_keys or len(spy.starts) != 1 or not spy.rewards:
        # the observation channel itself failed (keys dropped / unexpected call pattern): not a verdict on the property
        raise RuntimeError(f"spy channel broken: lost={spy.lost_keys} starts={len(spy.starts)} rewards={len(spy.rewards)}")
    if len(spy.steps) != T:
        ctx.violation(f"episode_length|{envn}", f"returned sequences have {T} steps but {len(spy.steps)} environment steps "
                      f"were executed")
        return
    starts = spy.starts[0].long()
    m0 = expand_starts(td0, W)["action_mask"]
    if starts.shape[0] != R or int(starts.max()) >= m0.shape[1] or int(starts.min()) < 0 \
            or not bool(m0.gather(1, starts.view(-1, 1)).all()):
        ctx.exclude("forced_start_infeasible(C12)")
        return
    # all beams (before best-selection)
    if sb:
        allc = [(a, r) for a, r in spy.rewards if a.shape[0] == R]
        if not allc:
            ctx.exclude("select_best_without_all_beam_reward_call")
            return
        A, rew_spy = allc[0][0], allc[0][1].reshape(-1)
        ctx.check(tuple(A.shape) == (R, T), f"shape|{slice_}", f"best-selection compared actions of shape {tuple(A.shape)}")
    else:
        A, rew_spy = A_ret, rew_ret

    # beams stay inside their instance: row r of the td always holds a state of instance r % B
    want_inst = torch.arange(R) % B
    for t, s in enumerate(spy.steps):
        if s["inst"].shape[0] != R or not torch.equal(s["inst"], want_inst):
            ctx.violation(f"beam_crosses_instances|{envn}",
                          f"after step {t} the rows hold states of instances {s['inst'].tolist()} (row r must hold r % B)")
    # executed history of the final slots == returned (back-tracked) sequences
    H = spy.steps[-1]["hist"][:, :T]
    if not torch.equal(H, A):
        bad = [r for r in range(R) if not torch.equal(H[r], A[r])]
        ctx.violation(f"backtrack_vs_executed|{envn}",
                      f"returned sequence of row {bad[0]} is {A[bad[0]].tolist()} but the state in that row was reached by "
                      f"{H[bad[0]].tolist()}", {"returned": A, "executed": H})

    # ---- Oracle 2 (+ feasibility through the env's own masks): replay along the returned sequences
    ref = reference_logprobs(policy, env, td0, A, num_starts=W, forced_first=True)
    ctx.check(bool(ref.in_mask.all()), f"action_outside_mask|{envn}", "a returned beam takes an action outside the env mask",
              {"actions": A, "in_mask": ref.in_mask})
    ctx.check(ref.mask_ok, f"decoder_mask_mismatch|{envn}", "decoder-returned mask differs from td['action_mask']")
    ctx.check(ref.all_done_at == T, f"episode_length|{envn}",
              f"returned {T} steps but replaying the beams finishes every row after {ref.all_done_at}")
    slack = 32 * eps * ref.scale
    if sb:
        # rows selected: identify below (oracle 5); here nothing to compare yet
        pass
    else:
        if not _close(ll_ret, ref.logp, tol, slack):
            ctx.violation(f"ll_vs_replay|{envn}",
                          f"returned per-step log-probs differ from the policy's log-probs along the returned sequence by "
                          f"{_maxdiff(ll_ret, ref.logp):.3e}", {"ll": ll_ret, "replay": ref.logp, "actions": A})
        ctx.check(bool((ll_ret[:, 0] == 0).all()), f"forced_start_nonzero|{envn}",
                  "forced first move contributes a non-zero log-prob", {"ll0": ll_ret[:, 0]})

    # ---- Oracle 1: complete + feasible, reward == objective == get_reward on the replayed state
    spec = SPECS[envn]
    jcase = {"env": envn, "cfg": cfg, "src": "gen"}
    objs, terms = [], []
    for r in range(R):
        row = py_instance(envn, inst[r % B])
        acts = A[r].tolist()
        fin = int(ref.done_at[r])
        if fin > T:
            ctx.violation(f"beam_incomplete|{envn}", f"beam in row {r} never reports done: {acts}")
            fin = T
        body, tail = acts[:fin], acts[fin:]
        if tail and envn in DEPOT and any(a != 0 for a in tail):
            ctx.violation(f"tail_not_padding|{envn}", f"row {r}: actions after the finishing step {fin} are {tail}")
        v = judge_row(jcase, spec, row, body)
        bad = violated(jcase, v)
        if bad:
            ctx.violation(f"infeasible_beam|{envn}|{bad[0][0]}", f"beam in row {r} violates {bad}: {body}",
                          {"row": r, "actions": acts, "instance": row})
        objs.append(v.obj)
        terms.append(abs(v.terms))
    objs_t = torch.tensor(objs, dtype=torch.float64)
    terms_t = torch.tensor(terms, dtype=torch.float64)
    otol = (1e-9 if f64 else 1e-5) * (1 + terms_t)
    if not bool(((rew_spy.double() - objs_t).abs() <= otol).all()):
        r = int(((rew_spy.double() - objs_t).abs() - otol).argmax())
        ctx.violation(f"reward_vs_objective|{envn}", f"reward {float(rew_spy[r])} != objective {objs[r]} (row {r})",
                      {"row": r, "actions": A[r], "instance": py_instance(envn, inst[r % B])})
    r2 = ctx.guard(env.get_reward, ref.td.clone(), A.clone(), what=f"get_reward|{envn}").reshape(-1)
    ctx.check(_close(rew_spy, r2, rtol), f"reward_vs_get_reward|{envn}",
              f"reward of the beams differs from env.get_reward(replayed final td, actions) by {_maxdiff(rew_spy, r2):.3e}")

    # ---- Oracle 3: distinct beams
    for b in range(B):
        st_b = [int(starts[j * B + b]) for j in range(W)]
        if len(set(st_b)) < W:
            ctx.event("forced_starts_repeat")
            continue
        seqs = [tuple(A[j * B + b].tolist()) for j in range(W)]
        if len(set(seqs)) < W:
            ctx.violation(f"duplicate_beams|{envn}", f"instance {b}: forced starts {st_b} are distinct but the returned "
                          f"beams are not pairwise distinct: {seqs}")

    # ---- Oracle 4: guided reference beam search on the kept prefixes the spy saw
    follow = []
    for t in range(1, T):
        s = spy.steps[t]
        follow.append([[tuple(s["hist"][j * B + b, :t + 1].tolist()) for j in range(W)] for b in range(B)])
    # step 0 of the run: every slot executed its forced start
    h0 = spy.steps[0]["hist"][:, 0]
    ctx.check(torch.equal(h0, starts), f"forced_start_not_executed|{envn}",
              f"first executed moves {h0.tolist()} are not the forced starts {starts.tolist()}")
    bref = reference_beam_search(policy, env, td0, W, starts=starts, follow=follow)
    if bref.invalid is not None:
        t, b, slot, p = bref.invalid
        prev = [bm.prefix for bm in bref.steps[t - 1].kept[b]]
        ctx.violation(f"kept_not_an_expansion|{envn}",
                      f"step {t}, instance {b}, slot {slot}: kept beam {list(p)} is not a feasible one-node expansion of "
                      f"the previous beams {prev} (with multiplicity)", {"step": t, "instance": b, "prefix": p})
    ctx.check(bref.mask_ok, f"decoder_mask_mismatch|{envn}", "decoder-returned mask differs from td['action_mask'] (beam ref)")
    n_dec = n_multi = 0
    for t in range(1, T):
        stp = bref.steps[t]
        for b in range(B):
            kept = sorted((bm.score for bm in stp.kept[b]), reverse=True)
            top = stp.top[b]
            if stp.ncand[b] > W:
                n_multi += 1
                n_dec += stp.gap[b] > GAP
            for i in range(W):
                if abs(kept[i] - top[i]) > tol * (1 + abs(top[i])):
                    ctx.violation(
                        f"kept_not_top_w|{envn}",
                        f"step {t}, instance {b}: accumulated scores of the kept beams {kept} are not the {W} best of the "
                        f"{stp.ncand[b]} feasible expansions {top} (W-th/(W+1)-th gap {stp.gap[b]:.3e})",
                        {"step": t, "instance": b, "kept": [list(bm.prefix) for bm in stp.kept[b]], "kept_scores": kept,
                         "top": top})
    ctx.event("steps_with_choice", n_multi)
    ctx.event("steps_decisive(gap>1e-5)", n_dec)
    # the reference's per-step log-probs along the final beams' ancestry == returned per-step log-probs (same layout)
    lp_anc = torch.zeros(R, T, dtype=torch.float64)
    last = bref.steps[-1]
    for b in range(B):
        for j in range(W):
            slot, t = j, T - 1
            while t >= 0:
                bm = bref.steps[t].kept[b][slot]
                lp_anc[j * B + b, t] = bm.logp
                slot, t = bm.parent, t - 1
    if not _close(ref.logp, lp_anc, tol, slack):  # harness self-consistency across layouts (not a verdict on rl4co)
        ctx.event("replay_vs_beamref_layout_noise")
    if not sb and not _close(ll_ret, lp_anc, tol, 8 * eps * ref.scale):
        ctx.violation(f"ll_vs_beam_ancestry|{envn}",
                      f"returned per-step log-probs differ from those of the beam's ancestors by {_maxdiff(ll_ret, lp_anc):.3e}",
                      {"ll": ll_ret, "reference": lp_anc})

    # ---- Oracle 5: best-selection
    if sb:
        for b in range(B):
            rows = [j * B + b for j in range(W)]
            o = [objs[r] for r in rows]
            best = max(o)
            tb = (1e-9 if f64 else 1e-5) * (1 + max(terms[r] for r in rows))
            if abs(float(rew_ret[b]) - best) > tb:
                ctx.violation(f"select_best_not_max|{envn}",
                              f"instance {b}: returned reward {float(rew_ret[b])} but its beams have objectives {o}",
                              {"instance": b, "beam_rewards": [float(rew_spy[r]) for r in rows]})
            spied_best = max(float(rew_spy[r]) for r in rows)
            ctx.check(abs(float(rew_ret[b]) - spied_best) <= rtol * (1 + abs(spied_best)), f"select_best_not_max|{envn}",
                      f"instance {b}: returned reward {float(rew_ret[b])} but the compared beam rewards were "
                      f"{[float(rew_spy[r]) for r in rows]}")
            match = [r for r in rows if torch.equal(A[r], A_ret[b])]
            if not match:
                ctx.violation(f"select_best_actions|{envn}", f"instance {b}: returned actions {A_ret[b].tolist()} are none of "
                              f"its beams {[A[r].tolist() for r in rows]}")
                continue
            ctx.check(any(abs(objs[r] - best) <= tb for r in match), f"select_best_actions|{envn}",
                      f"instance {b}: returned actions belong to a beam with objective {[objs[r] for r in match]}, best {best}")
            ok = any(_close(ll_ret[b], ref.logp[r], tol, slack[r]) for r in match)
            if not ok:
                ctx.violation(f"ll_vs_replay|{envn}|best",
                              f"instance {b}: returned per-step log-probs {ll_ret[b].tolist()} are not those of the selected "
                              f"beam {ref.logp[match[0]].tolist()}", {"actions": A_ret[b]})
            ctx.check(float(ll_ret[b, 0]) == 0.0, f"forced_start_nonzero|{envn}",
                      "forced first move contributes a non-zero log-prob")
            if len(set(round(x, 9) for x in o)) > 1:
                ctx.event("select_best_beams_differ_in_reward")
                if o.index(best) != 0:
                    ctx.event("select_best_not_slot0")

    # ---- coverage bookkeeping
    differ = bool(ref.done_at.min() != ref.done_at.max())
    if envn in VARLEN and differ:
        ctx.event("beams_finish_at_different_steps")
    if bref.reordered:
        ctx.event("reordered")
        ctx.nontriv()
        if envn in VARLEN and differ:
            ctx.event("nontrivial_varlen_different_finish")
    frac = "all" if n_dec == n_multi else ("most" if n_dec >= 0.8 * max(1, n_multi) else "some")
    ctx.event(f"decisive:{frac}")
    ctx.sample({"env": envn, "n": n, "W": W, "B": B, "select_best": sb, "T": T, "beams_instance0":
                [A[j * B].tolist() for j in range(W)], "scores_instance0": [round(bm.score, 4) for bm in last.kept[0]]})


SUBS = [
    Sub("beam_search", execute, strategy=lambda tier: cases(tier), budget={"quick": 480, "thorough": 6000}, shards=16,
        shrink=False, minimize=minimize),
]
