"""C03 — reported reward equals the true objective of the executed solution."""
import torch

from ..envs import SPECS, episode_cases, py_instance
from ..play import judge_row, play, stepwise_reward_check, violated
from ..runner import Sub

PROPERTY = "C03"
RULE = (
    "case = env (12 routing + FJSP/JSSP/FFSP/SMTWTP/FLP/MCP) + config (incl. reward mode: mTSP minmax/sum, open/closed MTVRP variants, OP prize types, "
    "deterministic/stochastic PCTSP) + batch of generator/lattice/float instances + per-row choice streams. "
    "Oracle = objective recomputed in float64 from the original instance and the executed (padded) action "
    "sequence alone; tolerance 1e-5*(1+sum|terms|). Also env.get_reward through rl4co.utils.decoding.rollout "
    "with the library's random policy, and metamorphic tour reversal / rotation / translation checks. FJSP/JSSP also with "
    "stepwise_reward=True (sum of the per-step rewards == -(oracle makespan - largest lower bound of the reset state), "
    "get_reward(td, actions) still -makespan) and check_mask=True (must never raise); MDCPDP also start_mode='random'. "
    "dense_tsp: DenseRewardTSPEnv (TorchRL stepping by construction): step reward of every step after the first == length "
    "of the leg just added (its docstring), get_reward(td, actions) == -closed tour length. "
    "Non-trivial = feasible episode with >=2 routes (or >=3 nodes) and non-zero reward; distinct (case,row) hash."
)
ASSUMPTIONS = [
    "reward compared on the padded action tensor the decoding loop hands to get_reward (padding = feasible "
    "post-finish actions of the row)",
    "rows whose trimmed solution is infeasible by the oracle are C01's business and skipped here",
]
ENVS = ["tsp", "atsp", "cvrp", "sdvrp", "cvrptw", "svrp", "op", "pctsp", "spctsp", "pdp", "mtsp", "mtvrp", "mdcpdp"]


STATELESS_REWARD = {"tsp", "atsp", "cvrp", "cvrptw", "sdvrp", "svrp", "op", "pctsp", "spctsp", "pdp", "mtvrp"}


def close(a, b, terms):
    return abs(a - b) <= 1e-5 * (1.0 + abs(terms))


def execute(case, ctx):
    spec, env, inst, insts, ep = play(case, ctx)
    name = case["env"]
    sl = spec.slice_of(case["cfg"])
    ctx.event(f"env:{name}|{sl}")
    if ep.dead_end is not None or ep.cap_hit or ep.T == 0:
        ctx.event("aborted_episode(C02 territory)")
        return
    A = ep.actions_tensor()
    rew = ctx.guard(env.get_reward, ep.td.clone(), A.clone(), what=f"get_reward|{name}|{sl}")
    B = len(insts)
    ctx.check(rew.dim() >= 1 and rew.reshape(-1).shape[0] == B, f"{name}|{sl}|reward_shape",
              f"reward shape {tuple(rew.shape)} for batch {B}")
    rew = rew.reshape(-1).double()
    for b in range(B):
        acts = A[b].tolist()
        fin = ep.finish_step(b)
        vt = judge_row(case, spec, insts[b], acts[:fin])
        if violated(case, vt):
            ctx.event("infeasible_row_skipped")
            continue
        v = judge_row(case, spec, insts[b], acts)
        r = float(rew[b])
        if not close(r, v.obj, v.terms):
            padded = fin is not None and fin < len(acts)
            ctx.violation(f"{name}|{sl}|reward_mismatch|{'padded' if padded else 'unpadded'}",
                          f"reward {r} != objective {v.obj} (row {b})",
                          {"row": b, "actions": acts, "finish": fin, "instance": insts[b]})
        routes = v.meta.get("routes")
        big = (len(routes) >= 2) if routes is not None else (len(acts) >= 3)
        if big and abs(v.obj) > 0:
            ctx.nontriv({"c": case, "row": b})
        if name == "mdcpdp":
            sd, fo = v.meta.get("start_depot"), v.meta.get("first_opened")
            ctx.event(f"mdcpdp:start_mode={case['cfg'].get('start_mode', 'order')}|reset_depot"
                      f"{'==' if sd == fo else '!='}first_opened")
    ctx.sample({"env": name, "cfg": case["cfg"], "src": case["src"], "actions_row0": A[0].tolist(),
                "reward_row0": float(rew[0])})

    # the reward is a function of (state, actions): asking for it again on the SAME tensordict (as _select_best followed by
    # the policy's own get_reward call does, or any caller that scores a rollout twice) must return the same value
    td_same = ep.td.clone()
    ra = ctx.guard(env.get_reward, td_same, A.clone(), what=f"get_reward|{name}|{sl}").reshape(-1).double()
    rb = ctx.guard(env.get_reward, td_same, A.clone(), what=f"get_reward_again|{name}|{sl}").reshape(-1).double()
    same = ((ra - rb).abs() <= 1e-9 * (1 + ra.abs())) | (torch.isnan(ra) & torch.isnan(rb))
    ctx.check(bool(same.all()), f"{name}|{sl}|reward_changes_when_asked_twice",
              f"get_reward on the same tensordict returned {ra.tolist()} and then {rb.tolist()}", {"actions": A.tolist()})

    # envs whose reward is a function of instance + actions are also scored by the library with a td other than the
    # final rollout state (tasks/eval.py: env.get_reward(batchify(td_init, n), actions)): same value required
    if name in STATELESS_REWARD:
        r0 = ctx.guard(env.get_reward, ep.td0.clone(), A.clone(), what=f"get_reward_reset_td|{name}|{sl}").reshape(-1).double()
        ok = (r0 - rew).abs() <= 1e-5 * (1 + rew.abs())
        ctx.check(bool(ok.all()), f"{name}|{sl}|reward_depends_on_rollout_state",
                  f"get_reward(reset td, actions)={r0.tolist()} differs from get_reward(final td, actions)={rew.tolist()}",
                  {"actions": A.tolist()})

    # metamorphic: reversal / rotation (TSP, ATSP), translation (coordinate envs)
    if name == "tsp":
        r1 = env.get_reward(ep.td.clone(), A.flip(1)).double()
        r2 = env.get_reward(ep.td.clone(), A.roll(1, 1)).double()
        ctx.check(bool(((r1 - rew).abs() <= 1e-5 * (1 + rew.abs())).all()), "tsp||reversal", "reversed tour changes length")
        ctx.check(bool(((r2 - rew).abs() <= 1e-5 * (1 + rew.abs())).all()), "tsp||rotation", "rotated tour changes length")
    if name == "atsp":
        r1 = env.get_reward(ep.td.clone(), A.flip(1)).double()
        for b in range(B):
            v = judge_row(case, spec, insts[b], A[b].flip(0).tolist())
            ctx.check(close(float(r1[b]), v.obj, v.terms), "atsp||reversal_direction",
                      f"reversed ATSP tour reward {float(r1[b])} != reverse-direction objective {v.obj}")


def execute_rollout(case, ctx):
    """env.get_reward as reached through the library's own rollout() helper with its random policy."""
    from rl4co.utils.decoding import random_policy, rollout

    spec = SPECS[case["env"]]
    name = case["env"]
    sl = spec.slice_of(case["cfg"])
    env = spec.env(case["cfg"])
    inst = ctx.guard(spec.instance, case, what=f"instance|{name}")
    insts = [py_instance(name, inst[b]) for b in range(inst.batch_size[0])]
    td = env.reset(inst.clone())
    torch.manual_seed(case["seed"])
    cap = max(spec.bound(case["cfg"], r) for r in insts) + 3
    rew, td_f, A = ctx.guard(rollout, env, td, random_policy, cap, what=f"rollout|{name}|{sl}")
    rew = rew.reshape(-1).double()
    for b in range(len(insts)):
        v = judge_row(case, spec, insts[b], A[b].tolist())
        if violated(case, v, padded=True):
            ctx.event("infeasible_row_skipped")
            continue
        if not close(float(rew[b]), v.obj, v.terms):
            ctx.violation(f"{name}|{sl}|rollout_reward_mismatch", f"rollout reward {float(rew[b])} != objective {v.obj}",
                          {"row": b, "actions": A[b].tolist(), "instance": insts[b]})
        if A.shape[1] >= 3 and abs(v.obj) > 0:
            ctx.nontriv({"c": case, "row": b, "k": "rollout"})
    ctx.event(f"env:{name}|{sl}")


def execute_sched(case, ctx):
    """Scheduling / selection objectives recomputed from the instance and the action list alone (reference
    simulators re-derive the schedule from the actions; FLP/MCP/SMTWTP are closed formulas)."""
    from ..oracles.scheduling import FFSPModel, JobShopModel, judge_flp, judge_mcp, judge_smtwtp

    stepwise = bool(case["cfg"].get("stepwise"))
    spec, env, inst, insts, ep = play(case, ctx, keep_states=stepwise)
    name, cfg = case["env"], case["cfg"]
    sl = spec.slice_of(cfg)
    ctx.event(f"env:{name}|{sl}")
    if cfg.get("check_mask"):
        ctx.event(f"env:{name}|check_mask=True")
    if ep.dead_end is not None or ep.cap_hit or ep.T == 0:
        return
    A = ep.actions_tensor()
    td_same = ep.td.clone()
    rew = ctx.guard(env.get_reward, td_same, A.clone(), what=f"get_reward|{name}|{sl}").reshape(-1).double()
    rew2 = ctx.guard(env.get_reward, td_same, A.clone(), what=f"get_reward_again|{name}|{sl}").reshape(-1).double()
    ctx.check(bool((((rew - rew2).abs() <= 1e-9 * (1 + rew.abs())) | (torch.isnan(rew) & torch.isnan(rew2))).all()),
              f"{name}|{sl}|reward_changes_when_asked_twice",
              f"get_reward on the same tensordict returned {rew.tolist()} and then {rew2.tolist()}", {"actions": A.tolist()})
    for b in range(len(insts)):
        acts = A[b].tolist()
        if name in ("fjsp", "jssp", "ffsp"):
            m = JobShopModel(insts[b], name == "jssp", cfg["mask_no_ops"]) if name != "ffsp" else FFSPModel(insts[b], cfg["stages"], cfg["mas"])
            ok = True
            for a in acts:
                if m.done:
                    break
                if not m.mask()[a]:
                    ok = False
                    break
                m.step(a)
            if not ok or not m.done:
                # the executed actions are not a complete schedule of THIS instance under the documented decision
                # process, so no objective can correspond to the reported reward
                ctx.violation(f"{name}|{sl}|actions_do_not_encode_a_schedule",
                              "the executed action sequence is not admissible/complete in the reference simulator of the "
                              f"original instance (row {b}), yet a reward {float(rew[b])} is reported for it",
                              {"row": b, "actions": acts, "instance": insts[b]})
                continue
            if name == "ffsp":
                obj = -float(max(m.start[mm][j] + m.R[j][mm] for j in range(m.J) for mm in range(m.T) if m.start[mm][j] >= 0))
            else:
                obj = -max(m.finish[o] for o in m.assign)
                if stepwise:
                    # per-step rewards of the stepwise_reward=True env: sum == -(makespan - initial lower bound);
                    # get_reward(td, actions) (compared below) is still the negative makespan
                    stepwise_reward_check(ctx, name, sl, ep, b, -obj, {"row": b, "actions": acts, "instance": insts[b]})
            terms = abs(obj)
        else:
            v = {"smtwtp": judge_smtwtp, "flp": judge_flp, "mcp": judge_mcp}[name](insts[b], acts, cfg)
            if v.viol:
                continue
            obj, terms = v.obj, v.terms
        if not close(float(rew[b]), obj, terms):
            ctx.violation(f"{name}|{sl}|reward_mismatch", f"reward {float(rew[b])} != objective {obj} (row {b})",
                          {"row": b, "actions": acts, "instance": insts[b]})
        if len(acts) >= 3 and obj != 0:
            ctx.nontriv({"c": case, "row": b})


def dense_tsp_cases(tier):
    import hypothesis.strategies as st

    @st.composite
    def c(draw):
        case = draw(episode_cases(tier, ["tsp"], max_b=4))
        case.pop("env_shape", None)
        case["stepping"] = "torchrl"
        if case["cfg"]["n"] > 60:
            case["cfg"]["n"] = 9
            if case["src"] != "gen":
                case.update(src="gen")
                case.pop("lat", None)
        return case
    return c()


def execute_dense_tsp(case, ctx):
    """DenseRewardTSPEnv (experimental, exported by rl4co.envs): its docstring defines the step reward as "the distance
    added to the current tour by the given action" - asserted for every step after the first (the first action adds no
    leg; what the env reports there is not specified and not asserted); the episode reward get_reward(td, actions) is the
    negative closed-tour length as for every TSP env.  The sum of the step rewards is NOT asserted (not documented)."""
    import math

    from rl4co.envs import DenseRewardTSPEnv

    from ..envs import cached_env
    from ..episode import run_episode_torchrl
    spec = SPECS["tsp"]
    cfg = case["cfg"]
    env = ctx.guard(cached_env, "dense_tsp", cfg, lambda c_: DenseRewardTSPEnv(generator_params=dict(num_loc=c_["n"])),
                    what="build_env|dense_tsp")
    inst = ctx.guard(spec.instance, case, what="instance|tsp")
    B = inst.batch_size[0]
    insts = [py_instance("tsp", inst[b]) for b in range(B)]
    rows = case["rows"]
    modes = [rows[b % len(rows)]["mode"] for b in range(B)]
    streams = [rows[b % len(rows)]["stream"] for b in range(B)]
    ep = ctx.guard(run_episode_torchrl, env, inst, modes, streams, cfg["n"] + 3, True, False, what="episode|dense_tsp")
    ctx.event("env:dense_tsp")
    if ep.dead_end is not None or ep.cap_hit or ep.T == 0:
        ctx.violation("dense_tsp||episode_aborted", f"dead end {ep.dead_end} / cap hit {ep.cap_hit}", {"instance": insts})
        return
    A = ep.actions_tensor()
    rew = ctx.guard(env.get_reward, ep.td.clone(), A.clone(), what="get_reward|dense_tsp").reshape(-1).double()
    for b in range(B):
        acts = A[b].tolist()
        v = judge_row({**case, "env": "tsp"}, spec, insts[b], acts)
        if v.viol:
            ctx.violation(f"dense_tsp||{v.viol[0][0]}", f"mask-confined episode is not a tour: {acts}", {"row": b, "instance": insts[b]})
            continue
        if not close(float(rew[b]), v.obj, v.terms):
            ctx.violation("dense_tsp||reward_mismatch", f"get_reward {float(rew[b])} != -closed tour length {v.obj}",
                          {"row": b, "actions": acts, "instance": insts[b]})
        locs = insts[b]["locs"]
        for t in range(1, len(acts)):
            d = math.hypot(locs[acts[t]][0] - locs[acts[t - 1]][0], locs[acts[t]][1] - locs[acts[t - 1]][1])
            r = float(ep.states[t]["reward"].reshape(B, -1)[b, 0])
            if abs(r - d) > 1e-5 * (1 + d):
                ctx.violation("dense_tsp||step_reward_is_not_the_added_distance",
                              f"row {b} step {t}: reward {r}, leg {acts[t - 1]}->{acts[t]} has length {d}",
                              {"row": b, "actions": acts, "instance": insts[b]})
                break
        if len(acts) >= 3 and B >= 2:
            ctx.nontriv({"c": case, "row": b})


SUBS = [
    Sub("dense_tsp", execute_dense_tsp, strategy=dense_tsp_cases, budget={"quick": 320, "thorough": 4000}, shards=16),
    Sub("sched_graph", execute_sched, strategy=lambda tier: episode_cases(tier, ["fjsp", "jssp", "ffsp", "smtwtp", "flp", "mcp"]),
        budget={"quick": 2000, "thorough": 30000}, shards=16),
    Sub("episodes", execute, strategy=lambda tier: episode_cases(tier, ENVS),
        budget={"quick": 5000, "thorough": 80000}, shards=16),
    Sub("rollout", execute_rollout, strategy=lambda tier: episode_cases(tier, ENVS, sources=("gen",)),
        budget={"quick": 1500, "thorough": 20000}, shards=16),
]
TIME_CAP = {"quick": 400, "thorough": 3000}
