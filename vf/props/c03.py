"""C03 — reported reward equals the true objective of the executed solution."""
import torch

from ..envs import SPECS, episode_cases, py_instance
from ..play import judge_row, play, violated
from ..runner import Sub

PROPERTY = "C03"
RULE = (
    "case = env (12 routing + FJSP/JSSP/FFSP/SMTWTP/FLP/MCP) + config (incl. reward mode: mTSP minmax/sum, open/closed MTVRP variants, OP prize types, "
    "deterministic/stochastic PCTSP) + batch of generator/lattice/float instances + per-row choice streams. "
    "Oracle = objective recomputed in float64 from the original instance and the executed (padded) action "
    "sequence alone; tolerance 1e-5*(1+sum|terms|). Also env.get_reward through rl4co.utils.decoding.rollout "
    "with the library's random policy, and metamorphic tour reversal / rotation / translation checks. "
    "Non-trivial = feasible episode with >=2 routes (or >=3 nodes) and non-zero reward; distinct (case,row) hash."
)
ASSUMPTIONS = [
    "reward compared on the padded action tensor the decoding loop hands to get_reward (padding = feasible "
    "post-finish actions of the row)",
    "rows whose trimmed solution is infeasible by the oracle are C01's business and skipped here",
]
ENVS = ["tsp", "atsp", "cvrp", "sdvrp", "cvrptw", "svrp", "op", "pctsp", "spctsp", "pdp", "mtsp", "mtvrp", "mdcpdp"]


STATELESS_REWARD = {"tsp", "atsp", "cvrp", "cvrptw", "sdvrp", "svrp", "op", "pctsp", "spctsp", "pdp", "mtvrp"}


def close(a, b, terms):
    return abs(a - b) <= 1e-5 * (1.0 + abs(terms))


def execute(case, ctx):
    spec, env, inst, insts, ep = play(case, ctx)
    name = case["env"]
    sl = spec.slice_of(case["cfg"])
    ctx.event(f"env:{name}|{sl}")
    if ep.dead_end is not None or ep.cap_hit or ep.T == 0:
        ctx.event("aborted_episode(C02 territory)")
        return
    A = ep.actions_tensor()
    rew = ctx.guard(env.get_reward, ep.td.clone(), A.clone(), what=f"get_reward|{name}|{sl}")
    B = len(insts)
    ctx.check(rew.dim() >= 1 and rew.reshape(-1).shape[0] == B, f"{name}|{sl}|reward_shape",
              f"reward shape {tuple(rew.shape)} for batch {B}")
    rew = rew.reshape(-1).double()
    for b in range(B):
        acts = A[b].tolist()
        fin = ep.finish_step(b)
        vt = judge_row(case, spec, insts[b], acts[:fin])
        if violated(case, vt):
            ctx.event("infeasible_row_skipped")
            continue
        v = judge_row(case, spec, insts[b], acts)
        r = float(rew[b])
        if not close(r, v.obj, v.terms):
            padded = fin is not None and fin < len(acts)
            ctx.violation(f"{name}|{sl}|reward_mismatch|{'padded' if padded else 'unpadded'}",
                          f"reward {r} != objective {v.obj} (row {b})",
                          {"row": b, "actions": acts, "finish": fin, "instance": insts[b]})
        routes = v.meta.get("routes")
        big = (len(routes) >= 2) if routes is not None else (len(acts) >= 3)
        if big and abs(v.obj) > 0:
            ctx.nontriv({"c": case, "row": b})
    ctx.sample({"env": name, "cfg": case["cfg"], "src": case["src"], "actions_row0": A[0].tolist(),
                "reward_row0": float(rew[0])})

    # the reward is a function of (state, actions): asking for it again on the SAME tensordict (as _select_best followed by
    # the policy's own get_reward call does, or any caller that scores a rollout twice) must return the same value
    td_same = ep.td.clone()
    ra = ctx.guard(env.get_reward, td_same, A.clone(), what=f"get_reward|{name}|{sl}").reshape(-1).double()
    rb = ctx.guard(env.get_reward, td_same, A.clone(), what=f"get_reward_again|{name}|{sl}").reshape(-1).double()
    same = ((ra - rb).abs() <= 1e-9 * (1 + ra.abs())) | (torch.isnan(ra) & torch.isnan(rb))
    ctx.check(bool(same.all()), f"{name}|{sl}|reward_changes_when_asked_twice",
              f"get_reward on the same tensordict returned {ra.tolist()} and then {rb.tolist()}", {"actions": A.tolist()})

    # envs whose reward is a function of instance + actions are also scored by the library with a td other than the
    # final rollout state (tasks/eval.py: env.get_reward(batchify(td_init, n), actions)): same value required
    if name in STATELESS_REWARD:
        r0 = ctx.guard(env.get_reward, ep.td0.clone(), A.clone(), what=f"get_reward_reset_td|{name}|{sl}").reshape(-1).double()
        ok = (r0 - rew).abs() <= 1e-5 * (1 + rew.abs())
        ctx.check(bool(ok.all()), f"{name}|{sl}|reward_depends_on_rollout_state",
                  f"get_reward(reset td, actions)={r0.tolist()} differs from get_reward(final td, actions)={rew.tolist()}",
                  {"actions": A.tolist()})

    # metamorphic: reversal / rotation (TSP, ATSP), translation (coordinate envs)
    if name == "tsp":
        r1 = env.get_reward(ep.td.clone(), A.flip(1)).double()
        r2 = env.get_reward(ep.td.clone(), A.roll(1, 1)).double()
        ctx.check(bool(((r1 - rew).abs() <= 1e-5 * (1 + rew.abs())).all()), "tsp||reversal", "reversed tour changes length")
        ctx.check(bool(((r2 - rew).abs() <= 1e-5 * (1 + rew.abs())).all()), "tsp||rotation", "rotated tour changes length")
    if name == "atsp":
        r1 = env.get_reward(ep.td.clone(), A.flip(1)).double()
        for b in range(B):
            v = judge_row(case, spec, insts[b], A[b].flip(0).tolist())
            ctx.check(close(float(r1[b]), v.obj, v.terms), "atsp||reversal_direction",
                      f"reversed ATSP tour reward {float(r1[b])} != reverse-direction objective {v.obj}")


def execute_rollout(case, ctx):
    """env.get_reward as reached through the library's own rollout() helper with its random policy."""
    from rl4co.utils.decoding import random_policy, rollout

    spec = SPECS[case["env"]]
    name = case["env"]
    sl = spec.slice_of(case["cfg"])
    env = spec.env(case["cfg"])
    inst = ctx.guard(spec.instance, case, what=f"instance|{name}")
    insts = [py_instance(name, inst[b]) for b in range(inst.batch_size[0])]
    td = env.reset(inst.clone())
    torch.manual_seed(case["seed"])
    cap = max(spec.bound(case["cfg"], r) for r in insts) + 3
    rew, td_f, A = ctx.guard(rollout, env, td, random_policy, cap, what=f"rollout|{name}|{sl}")
    rew = rew.reshape(-1).double()
    for b in range(len(insts)):
        v = judge_row(case, spec, insts[b], A[b].tolist())
        if violated(case, v, padded=True):
            ctx.event("infeasible_row_skipped")
            continue
        if not close(float(rew[b]), v.obj, v.terms):
            ctx.violation(f"{name}|{sl}|rollout_reward_mismatch", f"rollout reward {float(rew[b])} != objective {v.obj}",
                          {"row": b, "actions": A[b].tolist(), "instance": insts[b]})
        if A.shape[1] >= 3 and abs(v.obj) > 0:
            ctx.nontriv({"c": case, "row": b, "k": "rollout"})
    ctx.event(f"env:{name}|{sl}")


def execute_sched(case, ctx):
    """Scheduling / selection objectives recomputed from the instance and the action list alone (reference
    simulators re-derive the schedule from the actions; FLP/MCP/SMTWTP are closed formulas)."""
    from ..oracles.scheduling import FFSPModel, JobShopModel, judge_flp, judge_mcp, judge_smtwtp

    spec, env, inst, insts, ep = play(case, ctx)
    name, cfg = case["env"], case["cfg"]
    sl = spec.slice_of(cfg)
    ctx.event(f"env:{name}|{sl}")
    if ep.dead_end is not None or ep.cap_hit or ep.T == 0:
        return
    A = ep.actions_tensor()
    td_same = ep.td.clone()
    rew = ctx.guard(env.get_reward, td_same, A.clone(), what=f"get_reward|{name}|{sl}").reshape(-1).double()
    rew2 = ctx.guard(env.get_reward, td_same, A.clone(), what=f"get_reward_again|{name}|{sl}").reshape(-1).double()
    ctx.check(bool((((rew - rew2).abs() <= 1e-9 * (1 + rew.abs())) | (torch.isnan(rew) & torch.isnan(rew2))).all()),
              f"{name}|{sl}|reward_changes_when_asked_twice",
              f"get_reward on the same tensordict returned {rew.tolist()} and then {rew2.tolist()}", {"actions": A.tolist()})
    for b in range(len(insts)):
        acts = A[b].tolist()
        if name in ("fjsp", "jssp", "ffsp"):
            m = JobShopModel(insts[b], name == "jssp", cfg["mask_no_ops"]) if name != "ffsp" else FFSPModel(insts[b], cfg["stages"], cfg["mas"])
            ok = True
            for a in acts:
                if m.done:
                    break
                if not m.mask()[a]:
                    ok = False
                    break
                m.step(a)
            if not ok or not m.done:
                # the executed actions are not a complete schedule of THIS instance under the documented decision
                # process, so no objective can correspond to the reported reward
                ctx.violation(f"{name}|{sl}|actions_do_not_encode_a_schedule",
                              "the executed action sequence is not admissible/complete in the reference simulator of the "
                              f"original instance (row {b}), yet a reward {float(rew[b])} is reported for it",
                              {"row": b, "actions": acts, "instance": insts[b]})
                continue
            if name == "ffsp":
                obj = -float(max(m.start[mm][j] + m.R[j][mm] for j in range(m.J) for mm in range(m.T) if m.start[mm][j] >= 0))
            else:
                obj = -max(m.finish[o] for o in m.assign)
            terms = abs(obj)
        else:
            v = {"smtwtp": judge_smtwtp, "flp": judge_flp, "mcp": judge_mcp}[name](insts[b], acts, cfg)
            if v.viol:
                continue
            obj, terms = v.obj, v.terms
        if not close(float(rew[b]), obj, terms):
            ctx.violation(f"{name}|{sl}|reward_mismatch", f"reward {float(rew[b])} != objective {obj} (row {b})",
                          {"row": b, "actions": acts, "instance": insts[b]})
        if len(acts) >= 3 and obj != 0:
            ctx.nontriv({"c": case, "row": b})


SUBS = [
    Sub("sched_graph", execute_sched, strategy=lambda tier: episode_cases(tier, ["fjsp", "jssp", "ffsp", "smtwtp", "flp", "mcp"]),
        budget={"quick": 2000, "thorough": 30000}, shards=16),
    Sub("episodes", execute, strategy=lambda tier: episode_cases(tier, ENVS),
        budget={"quick": 5000, "thorough": 80000}, shards=16),
    Sub("rollout", execute_rollout, strategy=lambda tier: episode_cases(tier, ENVS, sources=("gen",)),
        budget={"quick": 1500, "thorough": 20000}, shards=16),
]
TIME_CAP = {"quick": 400, "thorough": 3000}
