"""C14 — inference is per-instance: batch composition never changes the answer.

Code under test: ConstructivePolicy.forward, the bundled encoders / decoders / env embeddings
(rl4co/models/zoo/*, rl4co/models/nn/env_embeddings/{init,context,dynamic}.py, nn/attention.py,
nn/graph/attnnet.py, nn/ops.py:Normalization), PointerNetworkPolicy, MDAMPolicy, MultiStageFFSPPolicy, rl4co.tasks.eval.

Sub-check `batchings` (differential; the B = 1 decode of an instance is the reference):
    an instance set of M rows is decoded greedily, policy in eval() mode,
      (a) one by one (B = 1)                         -> must work at all (crash / wrong shape = violation)
      (b) all together in generation order
      (c) in a drawn permutation cut into drawn chunk sizes (1..4, used cyclically)
      (d) one drawn instance inserted at a drawn position between unrelated instances of the same shape
    and for every instance every batching must give the B = 1 answer under the argmax-stability rule (DESIGN 2.4):
      * the solo decode is replayed by the reference loop (vf/models/decode.py; reference_ptrnet for the pointer
        network; a get_log_likelihood spy for MDAM's own multi-path loop; vf/models/ffsp_ref.py for
        MultiStageFFSPPolicy) to get per-step top-1/top-2 gaps;
        a step is decisive if the gap exceeds 1e-4 (float32) / 1e-8 (float64) or only one action is feasible
      * actions equal up to the first non-decisive step (post-finish padding of variable-length rows is stripped:
        the B = 1 decode stops exactly when the row is done, so its length is the row's episode length)
      * per-step log-probs equal on that prefix; summed log-likelihood (padding steps included - they belong to "the
        log-likelihood obtained for the instance") and reward equal whenever the stripped sequences are equal
    MDAM returns one reward / log-likelihood per decoder path and only the last path's actions: compared path-wise
    (the actions of every path are observed through the spy).  Multi-start greedy (k forced start nodes, start-major
    row layout) is an extra decode mode on the envs whose start-node selection is deterministic.

    Decoding options (optional case key `dec`; every zoo key decoded by ConstructivePolicy.forward, i.e. all but the pointer
    network / MultiStageFFSPPolicy / MDAM whose own loops do not document them): top_k in {2, 3}, top_p in {0.6, 0.9},
    temperature in {0.5, 2} are handed as keyword arguments, IDENTICALLY, to every decode of the case (B = 1, full batch, chunks,
    next to mates; greedy and multi-start greedy).  The documented filters act per row (process_logits: "restrict sampling to
    the top k logits", nucleus per distribution), so the answer of an instance must still not depend on its batch-mates.  The
    reference loop replays the B = 1 decode under the same options (log-probs of the filtered, renormalised distribution) and
    also returns, per step, whether the kept set hinges on float rounding (cross-layout band BAND_X of vf/models/decode.py:
    near-tie at the k-th value / at the nucleus cut; plus exact ties at the k-th value, which rounding may break in another
    batch): per-step log-probs are compared up to the first such step, the summed log-likelihood of an episode containing one
    is don't-care; actions and rewards are compared as without options (a filter never removes the most probable action).
    With top_k > 0 the real batches are measured (forward hook on the decoder: feasible actions per row and step): counters
    topk:* give the steps at which some instance has a row with < k feasible actions while another instance has one with > k
    (rows finishing / being forced at different steps: variable-length envs get top_k > 0 in 1/2 of their cases).

Sub-check `eval_chunking`: rl4co.tasks.eval.evaluate_policy(env, policy, dataset, method="greedy", batch_size=bs)
    for a batch size dividing the dataset size and one that does not: N rows each, in dataset order, same actions
    (decisive rule, zero padding stripped) and rewards as the B = 1 decode of every instance and as each other.

float32 rounding: a spread-initialised toy encoder amplifies the rounding differences between batch sizes (measured
up to 4e-4 on AM/sdvrp and 3e-3 on the 6-layer instance-norm POMO config at spread 2.5; <= 6e-12 in float64).
A float32 mismatch that is small enough to be rounding (|d ll| < 1e-2, flipped step with gap < 1e-2) is therefore
*adjudicated*: the same case is re-run with policy.double() and float64 inputs, where the tolerance is 1e-9 and a
genuine coupling of batch rows (structural, O(1e-2..1)) still shows.  Policies with hard-coded float32 tensors
(L2D, MVMoE, pointer network) cannot be adjudicated: they are drawn with spread <= 2 and judged at 1e-4 directly.
"""
import contextlib
import fnmatch
import io
import logging
import math
import os
import signal
from collections import OrderedDict

import hypothesis.strategies as st
import torch
import torch.nn as nn

from ..envs import SPECS
from ..models.decode import ref_log_softmax, reference_logprobs, reference_ptrnet
from ..policies import (INFO, OPT_KEYS, ZOO, DeterministicMatNetInit, build_policy, default_env, family, resolve_setup,
                        setup_dims, setup_events, small_cfg, to_double)
from ..runner import Sub, h64

PROPERTY = "C14"
RULE = (
    "batchings: case = (zoo entry: vf.policies.ZOO (incl. am/mdcpdp, am/dpp, am/mdpp on synthetic PDN data) + MDAM on "
    "tsp/cvrp/op/pctsp + MultiStageFFSPPolicy on FFSPEnv(flatten_stages=False; 3-5 jobs, 1-3 stages, 2-3 machines), "
    "n 4-8, instance set of M 2-8 rows "
    "(generator-drawn from an instance seed), policy seed 0-3, spread in {1.25,1.5,2,2.5}, normalisation "
    "batch|instance|layer where selectable, env config variant, decode mode greedy | multistart_greedy (k 2-3; "
    "tsp/atsp/cvrp/sdvrp), float32 | float64 slice, a permutation + chunk sizes, mates seed / count / position / "
    "target). Every instance is decoded at B=1, in the full batch, in the permuted chunks and next to unrelated "
    "mates. Non-trivial = some instance whose B=1 episode is fully decisive (every step gap > 1e-4 or single "
    "choice) with >= 2 multi-choice steps and that was compared in >= 3 distinct batchings including B=1; "
    "distinct = case hash. Round-3b dimensions (optional case keys; counters cfg:* / src:* / env:* / ctor:* / mode:*): "
    "multistart_greedy also on pdp/cvrptw/pctsp/spctsp/mtsp/mtvrp and with num_starts=None (env default, 1/4); env "
    "configuration with drawn size-neutral options, hand-built instance rows (set and mates from one drawn block), env "
    "built for another size, env=None / by name, constructor switches of am/am_pomo/symnco incl. the library's simple "
    "scaled-dot-product attention, mask_inner, biases, check_nan, feedforward_hidden, constructor temperature / "
    "tanh_clipping (vf.policies.setup_dims); zoo variants polynet_matnet/atsp, l2d_stepwise/jssp|fjsp, mvmoe_k1 | "
    "mvmoe_kall | mvmoe_enc/mtvrp, nar/tsp, MDAM with 2 or 3 paths. Decoding options (optional key dec; counters dec:* / "
    "filter:* / topk:*): top_k 0 | 2 | 3 (non-zero in 1/2 of the cases on the variable-length envs cvrp, sdvrp, cvrptw, pctsp, "
    "spctsp, op, mtvrp, svrp, 1/4 elsewhere), top_p 0 | 0.6 | 0.9 (1/3), temperature 1 | 0.5 | 2 (1/3), passed as keyword "
    "arguments identically to every decode of the case (all zoo keys but ptrnet / matnet_ffsp / mdam); topk:* counts, in the "
    "real B > 1 batches, the steps where some instance has < k feasible actions and another > k. eval_chunking: case = (am|am_pomo x tsp|cvrp|sdvrp|op, dataset size 4-12, n 4-8, seeds, "
    "spread <= 1.75, a dividing and a non-dividing loader batch size, dataset class); non-trivial = some fully "
    "decisive instance and >= 2 loader batches with a partial last one. Decisive fractions are event counters."
)
ASSUMPTIONS = [
    "policies are the bundled classes at toy size (embed 32, 2 encoder layers; POMO config 6 layers), "
    "spread-initialised (weights x1.25-2.5, seeded), dropout 0, eval() mode, decode_type greedy",
    "by design outside the property: train mode with batch norm (batch statistics couple the rows); MatNet's random "
    "one-hot init embedding drawn from the global RNG per forward (replaced by the functionally identical "
    "vf.policies.DeterministicMatNetInit - its presence is asserted per case); MVMoE light gating (averages over the "
    "batch and samples an expert at inference); L2DAttnPolicy and MDAM/sdvrp cannot decode at any batch size",
    "PolyNet's strategy vector depends on the start index within an instance only (checked: plain greedy uses "
    "vector 0, multi-start rows are compared per (instance, start index))",
    "the B=1 decode is the reference; its per-step top-2 gaps come from the harness reference loop (trusts the "
    "bundled encoder/decoder modules and env.step at B=1, not DecodingStrategy)",
    "tolerances: float32 atol 1e-4 (+1e-5 relative on sums), float64 1e-9 (+1e-10 relative); rewards 1e-5 / 1e-10 "
    "relative; float32 mismatches below 1e-2 are adjudicated by the float64 re-run of the same case (policies "
    "that hard-code float32 are judged directly at spread <= 2; in the multi-start layout - mvmoe variants on mtvrp - at "
    "1e-3 for both the decisive threshold and the log-prob tolerance: 1.14e-4 measured on the unchanged tree)",
    "multi-start: forced start nodes from the env's own deterministic rule (env.select_start_nodes, trusted: C12), k 2-3 or "
    "the env default; every decoded batch is checked for feasible forced starts first (infeasible: the case is excluded as "
    "C12's business); op / svrp (F17 / F18), smtwtp, mdcpdp (F45), job shops (random starts) are not decoded multi-start here",
    "environment reset/step are per-row (C04's business); every batch is reset from its own instance rows, the way "
    "a data loader would feed it",
    "decoding options top_k / top_p / temperature are the documented **decoding_kwargs of ConstructivePolicy.forward "
    "(DecodingStrategy / process_logits docstrings: filters follow masking and temperature, precede the softmax, act on each "
    "row's distribution); top_p >= 0.6, so a runner-up within rounding of the best action is always kept and the filtered "
    "top-2 gap of the reference stays the argmax-stability gap; steps whose kept set is ambiguous under float rounding "
    "(vf/models/decode.py ambig_x: relative band 2e-3 around the k-th value / the nucleus cut) or exactly tied at the k-th "
    "value are don't-care for the log-likelihood from that step on (summed: the episode); a float32 log-likelihood mismatch "
    "under a filter is adjudicated in float64 whatever its size (a flipped kept set is O(1)); policies that cannot run in "
    "float64 are judged directly",
    "MultiStageFFSPPolicy (own loop, summed log-likelihood only, decode type from test_decode_type='greedy'): random "
    "one-hot init of every stage encoder replaced by DeterministicMatNetInit (asserted); per-step gaps of the B=1 decode "
    "from vf/models/ffsp_ref.py; it collects step log-probs in a float32 buffer, so the float64 slice / adjudication "
    "compares its log-likelihood at 1e-6 instead of 1e-9 (instance norm over 2-3 machines / jobs makes float32 "
    "adjudication frequent: ~10 % of its cases; its float32 mismatches are adjudicated up to 5e-2 instead of 1e-2)",
    "MDAM's log-likelihood sums un-normalised clipped logits, so finished rows keep accumulating it while batch-mates "
    "are still decoding (genuine-defect candidate, signature ll_sum|mdam/<env>|greedy|<batching>|padded): that comparison is "
    "counted as excluded unless the signature is an open known finding or VF_C14_DEFECT_SLICES=1",
]
TIME_CAP = {"quick": 300, "thorough": 3000}

DEFECT_SLICES = os.environ.get("VF_C14_DEFECT_SLICES", "0") == "1"
# signature pattern -> exclusion label: genuine-defect candidates awaiting registration in known_findings.json
GATED_DEFECTS = {"ll_sum|mdam/*|padded": "mdam_ll_counts_padding_steps(defect candidate)"}

NO_F64 = ("l2d", "mvmoe", "ptrnet")  # hard-coded float32 tensors inside
SUMMED_LL = ("ptrnet", "matnet_ffsp")  # own loops that return the summed log-likelihood only
# MultiStageFFSPPolicy computes in the dtype of its weights but collects the step log-probs in a float32 buffer: the
# float64 slice / adjudication run sees log-likelihoods rounded to float32 (relative 6e-8) -> 1e-6 instead of 1e-9
LL_CAST32 = ("matnet_ffsp",)
NORM_KEYS = ("am", "symnco", "ham")
MDAM_ENVS = ("tsp", "cvrp", "op", "pctsp")
MDAM_PATHS = 3
# envs whose start rule is deterministic and (on generator / lattice instances) feasible: forced starts are checked per
# decoded batch anyway (an infeasible forced start is C12's business: the case is excluded, counted).  Not here: op / svrp
# (start rules F17 / F18), smtwtp, mdcpdp (F45), the job shops (random starts), dpp / mdpp
MULTISTART_ENVS = ("tsp", "atsp", "cvrp", "sdvrp", "pdp", "cvrptw", "pctsp", "spctsp", "mtsp", "mtvrp")
ZOO14 = list(ZOO) + [("mdam", e) for e in MDAM_ENVS] + [("matnet_ffsp", "ffsp")]
BY_DESIGN = [("mvmoe_light", "mtvrp"), ("matnet_random_init", "atsp"), ("am_trainmode_batchnorm", "tsp")]
ADJ_CAP = 1e-2
# MultiStageFFSPPolicy: its MatNet encoders normalise per instance over 2-3 machines / jobs, which amplifies float32
# batch-size rounding far more than the other policies (a flipped greedy step with top-2 gap 1.06e-2 at spread 2.5 on the
# unchanged tree, identical decodes in float64): mismatches up to 5e-2 go to the float64 adjudication run, which still
# asserts 1e-9 / 1e-6 and therefore still shows any genuine coupling of batch rows
ADJ_CAP_FFSP = 5e-2
# decoding options (documented **decoding_kwargs of ConstructivePolicy.forward -> DecodingStrategy: top_k, top_p,
# temperature) are drawn for every zoo key decoded through ConstructivePolicy.forward; the own loops of the pointer network,
# MultiStageFFSPPolicy and MDAM do not document them
NO_DEC_KEYS = ("ptrnet", "matnet_ffsp", "mdam")
# envs whose rows finish at different steps / are forced back to a depot: with top_k > 0 a batch of them regularly has a
# step where one row has fewer than k feasible actions and another more (the shape under which a filter that looks at the
# whole batch instead of the row shows); top_k > 0 is drawn for 1/2 of their cases, 1/4 elsewhere
VARLEN_ENVS = ("cvrp", "sdvrp", "cvrptw", "pctsp", "spctsp", "op", "mtvrp", "svrp")
DEC_DEFAULT = {"top_k": 0, "top_p": 0.0, "temperature": 1.0}


# --------------------------------------------------------------------------- strategy
def _spreadout(*parts):
    """Hypothesis favours simple values (0, first list entries) at small budgets; the zoo entry is therefore a hash
    of several independently drawn fields, which makes the matrix coverage even."""
    return h64(list(parts))


@st.composite
def cases(draw, tier="quick"):
    iseed, mseed = draw(st.integers(0, 2 ** 20)), draw(st.integers(0, 2 ** 20))
    perm = draw(st.lists(st.integers(0, 999), min_size=8, max_size=8))
    hz = _spreadout(iseed, mseed, perm)
    if hz % 100 == 41:
        key, envn = BY_DESIGN[(hz // 100) % len(BY_DESIGN)]
        return dict(zoo=[key, envn], excluded=True)
    key, envn = ZOO14[(hz // 100) % len(ZOO14)]
    n = draw(st.integers(4, 8))
    M = draw(st.integers(2, 8))
    multistart = (key != "mdam" and INFO.get(key, {}).get("multistart", False) and envn in MULTISTART_ENVS
                  and draw(st.integers(0, 2)) == 0)
    f64 = family(key) not in NO_F64 and draw(st.integers(0, 7 if tier == "quick" else 2)) == 0
    if key == "mdam":
        spreads = [1.0, 1.25, 1.5]  # its tanh-clipped logits saturate (exact ties at +-10) from spread 2 on
    elif family(key) in NO_F64:
        spreads = [1.25, 1.5, 1.5, 2.0]
    else:
        spreads = [1.25, 1.5, 1.5, 2.0, 2.5]
    case = dict(
        zoo=[key, envn], n=n, M=M, rows=list(range(M)),
        iseed=iseed, pseed=draw(st.integers(0, 3)), spread=draw(st.sampled_from(spreads)),
        norm=draw(st.sampled_from([None, None, "instance", "layer"])) if key in NORM_KEYS else None,
        variant=draw(st.integers(0, 3)),
        mode="multistart_greedy" if multistart else "greedy",
        k=draw(st.integers(2, 3)) if multistart else 0,
        f64=f64,
        perm=perm,
        chunks=draw(st.lists(st.integers(1, 4), min_size=1, max_size=3)),
        mseed=mseed, n_mates=draw(st.integers(1, 4)), mate_pos=draw(st.integers(0, 4)),
        mate_target=draw(st.integers(0, 7)),
    )
    if multistart and draw(st.integers(0, 3)) == 0:
        case["k"] = None  # num_starts not given: the env's own number of starts (env.get_num_starts)
    if key == "mdam":
        case["paths"] = draw(st.sampled_from([3, 3, 2]))  # (num_paths=1 cannot decode on the pinned tree)
    # ---- env configuration / instance source (hand-built rows for the instance set AND its mates) / env built for another
    # size / env given by name / constructor switches of the attention-model policies (vf.policies.setup_dims)
    if key not in ("mdam", "matnet_ffsp") and envn not in ("dpp", "mdpp"):
        base = env_cfg(envn, n, case["variant"])
        case.update(draw(setup_dims(key, envn, n, base, M + case["n_mates"], tier, opts=key in OPT_KEYS)))
    # ---- decoding options, handed IDENTICALLY to every decode of the case (optional key `dec`: absent = none given)
    if key not in NO_DEC_KEYS:
        dec = {}
        tk = draw(st.sampled_from([0, 2, 0, 3, 0, 3] if envn in VARLEN_ENVS else [0, 0, 2, 0, 0, 3, 0, 0]))
        tp = draw(st.sampled_from([0.0, 0.0, 0.6, 0.0, 0.9, 0.0]))
        tt = draw(st.sampled_from([1.0, 1.0, 0.5, 1.0, 2.0, 1.0]))
        if tk:
            dec["top_k"] = tk
        if tp:
            dec["top_p"] = tp
        if tt != 1.0:
            dec["temperature"] = tt
        if dec:
            case["dec"] = dec
    return case


def env_cfg(envn, n, variant):
    cfg = small_cfg(envn, n)
    v = int(variant)
    if envn == "pdp":
        cfg["force_start"] = v == 1
    elif envn == "mtsp":
        cfg["cost_type"] = "sum" if v == 1 else "minmax"
    elif envn == "mtvrp":
        cfg["variant"] = ["all", "cvrp", "ovrptw", "vrpbl"][v]
    elif envn in ("cvrp", "sdvrp"):
        cfg["capacity"] = [None, None, 10.0, 20.0][v]
    elif envn == "atsp":
        cfg["tmat"] = v != 1
    elif envn == "mdcpdp":
        cfg.update([dict(), dict(reward_mode="lateness", problem_mode="open"), dict(depots=3, reward_mode="minsum", dist_mode="L1"),
                    dict(depots=1, reward_mode="lateness", lw=1.0, max_cap=3)][v])
    elif envn == "mdpp":
        cfg["reward_type"] = "meansum" if v == 1 else "minmax"
    elif envn == "ffsp":
        # >= 2 machines per stage: the MatNet encoders use instance normalisation over the machine axis
        cfg.update([dict(), dict(stages=1, mas=2), dict(stages=3, mas=2), dict(stages=2, mas=3)][v])
    return cfg


def minimize(case):
    c = dict(case)
    if c.get("excluded"):
        return
    rows = list(c["rows"])
    if len(rows) > 2:
        yield {**c, "rows": rows[: max(2, len(rows) // 2)]}
    if len(rows) > 1:
        for j in range(len(rows)):
            yield {**c, "rows": rows[:j] + rows[j + 1:]}
    if c.get("dec") and len(c["dec"]) > 1:
        for kk in c["dec"]:
            yield {**c, "dec": {k2: v2 for k2, v2 in c["dec"].items() if k2 != kk}}
    for key in ("lat", "ecfg", "env_shape", "env_via", "opts", "dec"):
        if key in c and not (key == "ecfg" and "lat" in c):
            d = {kk: vv for kk, vv in c.items() if kk != key}
            if key == "lat":
                d.pop("src", None)
            yield d
    if c["n"] > 4 and "lat" not in c:
        yield {**c, "n": c["n"] - 1, "k": min(c["k"], c["n"] - 1) if c["k"] else c["k"]}
    for key, val in (("f64", False), ("norm", None), ("variant", 0), ("spread", 1.5), ("pseed", 0), ("n_mates", 1),
                     ("chunks", [2]), ("mate_pos", 0)):
        if c.get(key) != val:
            yield {**c, key: val}
    if c["mode"] != "greedy":
        if c["k"] is None:
            yield {**c, "k": 2}
        yield {**c, "mode": "greedy", "k": 0}


# --------------------------------------------------------------------------- helpers
class Hang(BaseException):
    """Raised by the watchdog (BaseException so that ctx.guard does not turn it into a crash signature)."""


HANG_S = 300  # a toy-size policy call takes ~10-50 ms: three to four orders of magnitude of head room, so that machine load
# can never turn into a verdict; decoding loops that never reach `done` would otherwise stall a shard


def watchdog(seconds=None):
    """Wall-clock guard around policy calls (nest-safe, shared implementation in vf.runner)."""
    from ..runner import time_limit
    return time_limit(HANG_S if seconds is None else seconds, Hang)


_MDAM_CACHE = OrderedDict()


def build_mdam(envn, seed, spread, double, paths=MDAM_PATHS):
    """MDAMPolicy at toy size, initialised the way vf.policies.build_policy does it (seeded, weights x spread)."""
    ck = (envn, int(seed), float(spread), bool(double), int(paths))
    if ck in _MDAM_CACHE:
        p = _MDAM_CACHE[ck]
        p.eval()
        return p
    from rl4co.models.zoo.mdam import MDAMPolicy
    state = torch.get_rng_state()
    try:
        torch.manual_seed(int(seed))
        p = MDAMPolicy(env_name=envn, embed_dim=32, num_encoder_layers=2, num_heads=4, num_paths=int(paths))
        with torch.no_grad():
            for _, prm in p.named_parameters():
                if prm.requires_grad and prm.dim() >= 2:
                    prm.mul_(float(spread))
    finally:
        torch.set_rng_state(state)
    for m in p.modules():
        if isinstance(m, nn.Dropout):
            m.p = 0.0
    if double:
        p = p.double()
    p.eval()
    _MDAM_CACHE[ck] = p
    while len(_MDAM_CACHE) > 16:
        _MDAM_CACHE.popitem(last=False)
    return p


@contextlib.contextmanager
def mdam_spy(record):
    """Observe every decoder path of MDAM: its loop ends each path with get_log_likelihood(outputs, actions)."""
    import rl4co.models.zoo.mdam.decoder as D
    orig = D.get_log_likelihood

    def spy(outputs, actions, *a, **kw):
        record.append((outputs.detach().clone(), actions.detach().clone()))
        return orig(outputs, actions, *a, **kw)
    D.get_log_likelihood = spy
    try:
        yield
    finally:
        D.get_log_likelihood = orig


def dec_tag(dec):
    """Signature suffix naming the decoding options in force (values left out: stable signatures)."""
    return "".join("+" + kk for kk in sorted(dec)) if dec else ""


class InfeasibleStart(Exception):
    """A forced multistart first move is not in the reset mask of its instance (C12's business): the case is excluded."""


class Rec:
    """What one batching returned for one instance: K rows (K = starts | MDAM paths | 1)."""

    def __init__(self):
        self.actions, self.ll_steps, self.ll_sum, self.reward = [], [], [], []


class Runner:
    """Decodes batches of pool rows with one policy and splits the outputs per slot."""

    def __init__(self, ctx, key, envn, env, policy, pool, mode, k, f64, n, env_via="object", dec=None, count=True):
        self.ctx, self.key, self.envn, self.env, self.policy, self.pool = ctx, key, envn, env, policy, pool
        self.mode, self.f64 = mode, f64
        # decoding options of the case: passed as keyword arguments to EVERY policy call, never changed between batchings
        self.dec = {kk: (int(v) if kk == "top_k" else float(v)) for kk, v in (dec or {}).items()}
        assert not self.dec or key not in NO_DEC_KEYS
        assert set(self.dec) <= set(DEC_DEFAULT)
        self.hetero_batches = 0
        self.count = count  # emit the generator-measurement counters (off in the float64 adjudication re-run)
        self.k = None if k is None else int(k)  # None: num_starts not passed (the env's default number of starts)
        self.K = int(policy.decoder.num_paths) if key == "mdam" else (self.k if mode == "multistart_greedy" else 1)
        self.max_steps = 6 * n + 40
        self.slice = f"{key}/{envn}|{mode}{dec_tag(self.dec)}"
        # what the policy is handed as env: the object, or None / the name (it then builds get_env(name) itself; self.env
        # is the harness' own default-constructed env of that name)
        self.env_arg = {"object": env, "none": None, "name": envn}[env_via]

    def reset(self, idx):
        sub = self.pool[torch.tensor(idx, dtype=torch.long)]
        if self.f64:
            sub = to_double(sub)
        td = self.ctx.guard(self.env.reset, sub.clone(), what=f"reset|{self.envn}|B{'=1' if len(idx) == 1 else '>1'}")
        return to_double(td) if self.f64 else td

    def decode(self, idx):
        """-> (list of Rec per slot, reset td, raw out, MDAM per-path record)"""
        B = len(idx)
        bl = "B=1" if B == 1 else "B>1"
        what = f"policy|{self.slice}|{bl}"
        td = self.reset(idx)
        rec_mdam = []
        with torch.no_grad():
            if self.key == "ptrnet":
                out = self.ctx.guard(self.policy, td.clone(), self.env, phase="test", decode_type="greedy", what=what)
            elif self.key == "matnet_ffsp":
                # own loop: decode type from the `<phase>_decode_type` attribute (set to greedy by make_policy)
                out = self.ctx.guard(self.policy, td.clone(), self.env, phase="test", num_starts=1, what=what)
            elif self.key == "mdam":
                with mdam_spy(rec_mdam):
                    out = self.ctx.guard(self.policy, td.clone(), self.env, phase="test", decode_type="greedy", what=what)
            else:
                kw = dict(decode_type=self.mode, return_actions=True, return_sum_log_likelihood=False,
                          max_steps=self.max_steps)
                if self.mode == "multistart_greedy":
                    ks = self.k
                    if ks is None:
                        ks = int(self.env.get_num_starts(td))  # (trusted: C12) rows per instance of the default count
                        if self.K is None:
                            self.K = ks
                        elif self.K != ks:
                            raise RuntimeError("default number of starts differs between batches of one instance set")
                    else:
                        kw["num_starts"] = self.k
                    # forced first moves must be feasible for every instance of the batch (otherwise C12's business)
                    a0 = self.ctx.guard(self.env.select_start_nodes, td.clone(), num_starts=ks,
                                        what=f"select_start_nodes|{self.envn}")
                    m0 = torch.cat([td["action_mask"]] * ks, 0)
                    if ks < 2 or a0.shape[0] != m0.shape[0] or int(a0.max()) >= m0.shape[1] or int(a0.min()) < 0 \
                            or not bool(m0.gather(1, a0.view(-1, 1)).all()):
                        raise InfeasibleStart()
                kw.update(self.dec)
                nfeas_steps, hook = [], None
                if self.dec.get("top_k") and self.count and B > 1 and isinstance(self.policy.decoder, nn.Module):
                    # generator measurement only: feasible actions per row and step of the real batch (the mask the decoder
                    # hands to the decoding strategy); the policy object is cached, so the hook is removed right away
                    hook = self.policy.decoder.register_forward_hook(
                        lambda mod, args, res: nfeas_steps.append(res[1].detach().sum(-1)))
                try:
                    out = self.ctx.guard(self.policy, td.clone(), self.env_arg, what=what, **kw)
                finally:
                    if hook is not None:
                        hook.remove()
                if nfeas_steps:
                    self.topk_classes(nfeas_steps, B)
        self.policy.eval()  # (the pointer network switches its own mode from `phase`)
        return self.split(out, B, bl, rec_mdam), td, out, rec_mdam

    def topk_classes(self, steps, B):
        """Class counters of a B > 1 decode with top_k = k > 0: steps at which some instance has a row with fewer than k
        feasible actions while ANOTHER instance has a row with more than k (rows r = s*B + p belong to instance p)."""
        k = self.dec["top_k"]
        n = torch.stack([x.reshape(-1) for x in steps], 0)  # [T,R]
        T, R = n.shape
        if R % B:
            return
        n = n.view(T, R // B, B)
        lo, hi = n.min(1).values < k, n.max(1).values > k  # [T,B] per instance
        het = lo.any(-1) & hi.any(-1) & ~((lo.sum(-1) == 1) & (hi.sum(-1) == 1) & ((lo & hi).sum(-1) == 1))
        ctx = self.ctx
        ctx.event("topk:decoded_batches(B>1)")
        ctx.event("topk:batch_steps", T)
        ctx.event("topk:batch_steps_some_row<k_feasible_and_another_instance>k", int(het.sum()))
        if bool(het.any()):
            ctx.event("topk:decoded_batches_with_such_a_step")
            ctx.event(f"topk:decoded_batches_with_such_a_step|{self.envn}")
            self.hetero_batches += 1

    def split(self, out, B, bl, rec_mdam):
        ctx, K = self.ctx, self.K
        A, ll, rew = out["actions"], out["log_likelihood"], out["reward"]
        sig = f"shape|{self.slice}|{bl}"
        recs = [Rec() for _ in range(B)]
        if self.key == "mdam":
            ok = (A.dim() == 2 and A.shape[0] == B and tuple(ll.shape) == (B, K) and tuple(rew.shape) == (B, K)
                  and len(rec_mdam) == K and all(a.shape[0] == B for _, a in rec_mdam))
            ctx.check(ok, sig, f"actions {tuple(A.shape)} ll {tuple(ll.shape)} reward {tuple(rew.shape)} for B={B}, "
                               f"{K} paths")
            ctx.check(torch.equal(rec_mdam[-1][1], A), f"mdam_actions_not_last_path|{self.slice}",
                      "returned actions are not those of the last decoder path")
            for p in range(B):
                for j in range(K):
                    recs[p].actions.append(rec_mdam[j][1][p].long())
                    recs[p].ll_steps.append(None)
                    recs[p].ll_sum.append(ll[p, j].double())
                    recs[p].reward.append(rew[p, j].double())
            return recs
        R = B * K
        per_step = self.key not in SUMMED_LL
        ok = (A.dim() == 2 and A.shape[0] == R and rew.dim() >= 1 and rew.reshape(-1).shape[0] == R and rew.shape[0] == R
              and ll.shape[:1] == (R,) and (tuple(ll.shape) == (R, A.shape[1]) if per_step else ll.dim() == 1))
        ctx.check(ok, sig, f"actions {tuple(A.shape)} ll {tuple(ll.shape)} reward {tuple(rew.shape)} for B={B} "
                           f"x {K} row(s) per instance")
        rew = rew.reshape(-1)
        for p in range(B):
            for s in range(K):
                r = s * B + p  # start-major layout of the bundled multistart decoding
                recs[p].actions.append(A[r].long())
                recs[p].ll_steps.append(ll[r].double() if per_step else None)
                recs[p].ll_sum.append(ll[r].double().sum())
                recs[p].reward.append(rew[r].double())
        return recs

    def reference(self, td_solo, out, rec_mdam_solo=None):
        """Per row of the solo decode: episode length L, top-2 gaps [L], number of feasible actions [L], and - with a
        top-k / top-p filter among the decoding options - dict(amb=kept set ambiguous [L] bool, nkept=[L]) else None."""
        A = out["actions"]
        if self.key == "mdam":
            Ls, gaps, nfe = [], [], []
            for outputs, acts in rec_mdam_solo:
                lp = outputs[0].double()  # [T,N] masked clipped logits; differences = log-prob differences
                T = lp.shape[0]
                top2 = torch.topk(lp, 2, dim=-1).values
                g = top2[:, 0] - top2[:, 1]
                g = torch.where(torch.isnan(g), torch.full_like(g, math.inf), g)
                Ls.append(T)
                gaps.append(g)
                nfe.append((lp > -math.inf).sum(-1))
            return Ls, gaps, nfe, None
        if self.key == "ptrnet":
            ref = reference_ptrnet(self.policy, td_solo, A)
            self.policy.eval()
            return [A.shape[1]], [ref.gap[0]], [ref.nfeas[0]], None
        if self.key == "matnet_ffsp":
            from ..models.ffsp_ref import reference_ffsp
            ref = self.ctx.guard(reference_ffsp, self.policy, self.env, td_solo.select("run_time"), A, num_starts=1,
                                 what=f"reference_loop|{self.slice}|B=1")
            T = A.shape[1]
            self.ctx.check(ref.all_done_at == T and bool(ref.in_mask.all()), f"solo_episode|{self.slice}",
                           f"B=1 decode returned {T} steps but replaying them finishes after {ref.all_done_at} "
                           f"(all actions inside the mask: {bool(ref.in_mask.all())})")
            return [T], [ref.gap[0]], [ref.nfeas[0]], None
        ms = self.mode == "multistart_greedy"
        ref = self.ctx.guard(reference_logprobs, self.policy, self.env, td_solo, A, num_starts=self.K if ms else 0,
                             forced_first=ms, temperature=self.dec.get("temperature"), top_k=self.dec.get("top_k", 0),
                             top_p=self.dec.get("top_p", 0.0), keep_tables=bool(self.dec.get("top_k")),
                             what=f"reference_loop|{self.slice}|B=1")
        T = A.shape[1]
        Ls = [min(int(x), T) for x in ref.done_at.tolist()]
        # the solo loop runs until every row of the solo call is done: the slowest row ends exactly at T
        self.ctx.check(ref.all_done_at == T and bool(ref.in_mask.all()), f"solo_episode|{self.slice}",
                       f"B=1 decode returned {T} steps but replaying them finishes after {ref.all_done_at} "
                       f"(all actions inside the mask: {bool(ref.in_mask.all())})")
        rr = range(len(Ls))
        if not (self.dec.get("top_k") or self.dec.get("top_p")):
            return Ls, [ref.gap[r, :Ls[r]] for r in rr], [ref.nfeas[r, :Ls[r]] for r in rr], None
        # filters on: gaps / log-probs refer to the filtered, renormalised step distribution; `amb` = the kept set of the step
        # hinges on float rounding (cross-layout band BAND_X of vf/models/decode.py), `nkept` = entries surviving the filters
        amb = ref.ambig_x.clone()
        if self.dec.get("top_k"):
            # an EXACT tie at the k-th value (all tied entries are kept: more than k survive top-k) is stable between the
            # reference and the code on the same logits, but not between two batchings, whose logits differ by rounding and
            # may break the tie: exact ties are don't-care
            kk = self.dec["top_k"]
            for t, tab in enumerate(ref.tables):
                if tab is None or tab["logits"].shape[1] <= kk:
                    continue
                lp = ref_log_softmax(tab["logits"], tab["mask"], self.dec.get("temperature", float(self.policy.temperature)),
                                     float(self.policy.tanh_clipping))
                kth = torch.topk(lp, kk, dim=-1).values[:, -1:]
                amb[:, t] |= ((lp >= kth) & (lp > -math.inf)).sum(-1) > kk
        flt = dict(amb=[amb[r, :Ls[r]] for r in rr], nkept=[ref.nkept[r, :Ls[r]] for r in rr])
        return Ls, [ref.gap[r, :Ls[r]] for r in rr], [ref.nfeas[r, :Ls[r]] for r in rr], flt


class Issue:
    def __init__(self, sig, msg, detail, soft):
        self.sig, self.msg, self.detail, self.soft = sig, msg, detail, soft


def compare(solo, Ls, gaps, rec, slice_, label, f64, issues, where, ll_cast32=False, loose32=False, flt=None):
    """Compare one batching's record of an instance with its B=1 record (argmax-stability rule).
    Returns (rows compared on a fully decisive episode).
    loose32: float32 run of a policy that cannot be adjudicated in float64 (hard-coded float32 inside) decoded in the
    multi-start layout: the [batch, starts] regrouping is a second layout change on top of the batch size, float32 noise
    was measured at 1.14e-4 on the MoE decoder at spread 2 (unchanged tree) -> decisive threshold and tolerance 1e-3
    (the cross-layout figure of C11; a coupling of batch rows is O(1e-2..1)).
    flt: the case decodes with a top-k / top-p filter; flt["amb"][r] [L] bool marks the steps of the B=1 episode whose kept
    set hinges on float rounding.  Per-step log-probs are then compared up to the first such step only, and the summed
    log-likelihood of an episode containing one is don't-care (actions and reward are compared as ever: a filter never
    removes the most probable action).  A float32 log-likelihood mismatch under a filter may be a flipped kept set, whose
    size is O(1) whatever the rounding that caused it: it is always adjudicated in float64 (where rounding is 1e-11 against
    the 2e-3 band) when the policy can be run in float64, never accepted."""
    thr = 1e-8 if f64 else (1e-3 if loose32 else 1e-4)
    atol, rtol = (1e-9, 1e-10) if f64 else ((1e-3, 1e-5) if loose32 else (1e-4, 1e-5))
    if f64 and ll_cast32:
        atol, rtol = 1e-6, 1e-6
    rrel = 1e-10 if f64 else 1e-5
    cap = 0.0 if f64 else (ADJ_CAP_FFSP if ll_cast32 else ADJ_CAP)
    cap_ll = cap if (flt is None or f64) else math.inf
    for r in range(len(Ls)):
        L = Ls[r]
        gap = gaps[r]
        nd = (~(gap > thr)).nonzero().flatten()
        d = int(nd[0]) if nd.numel() else L
        d_ll, amb_any = d, False
        if flt is not None:
            na = flt["amb"][r][:L].nonzero().flatten()
            amb_any = bool(na.numel())
            d_ll = min(d, int(na[0])) if amb_any else d
        a_s, a_b = solo.actions[r][:L], rec.actions[r]
        tag = f"{where} row {r}"
        if a_b.shape[0] < d:
            issues.append(Issue(f"actions|{slice_}|{label}", f"{tag}: batched decode returned {a_b.shape[0]} steps, the "
                                f"decisive prefix of the B=1 decode has {d}", {"solo": a_s, "batched": a_b}, False))
            continue
        neq = (a_b[:d] != a_s[:d]).nonzero().flatten()
        if neq.numel():
            t = int(neq[0])
            g = float(gap[t])
            issues.append(Issue(f"actions|{slice_}|{label}",
                                f"{tag}: greedy action at step {t} is {int(a_b[t])} in the batch, {int(a_s[t])} at B=1 "
                                f"(top-2 gap {g:.3e})", {"solo": a_s, "batched": a_b, "gap": gap}, g < cap))
            continue
        if solo.ll_steps[r] is not None and rec.ll_steps[r] is not None and d_ll > 0:
            dl = (rec.ll_steps[r][:d_ll] - solo.ll_steps[r][:d_ll]).abs()
            if bool((dl > atol).any()):
                m = float(dl.max())
                issues.append(Issue(f"ll_steps|{slice_}|{label}",
                                    f"{tag}: per-step log-prob of the same action differs by {m:.3e} "
                                    f"(step {int(dl.argmax())})",
                                    {"solo": solo.ll_steps[r][:L], "batched": rec.ll_steps[r], "actions": a_s}, m < cap_ll))
                continue
        seq_equal = a_b.shape[0] >= L and torch.equal(a_b[:L], a_s)
        if not seq_equal:
            continue  # (d < L: diverged at or after a non-decisive step - don't care)
        x, y = float(solo.ll_sum[r]), float(rec.ll_sum[r])
        if not amb_any and not abs(x - y) <= atol + rtol * abs(x):
            pad = "padded" if a_b.shape[0] > L else "unpadded"
            issues.append(Issue(f"ll_sum|{slice_}|{label}|{pad}",
                                f"{tag}: log-likelihood {y!r} in the batch ({a_b.shape[0]} steps incl. padding), {x!r} at B=1 "
                                f"({L} steps) for the same actions", {"actions": a_s, "batched_actions": a_b},
                                abs(x - y) < cap_ll * (1 + abs(x))))
        x, y = float(solo.reward[r]), float(rec.reward[r])
        if not abs(x - y) <= rrel * (1 + abs(x)):
            issues.append(Issue(f"reward|{slice_}|{label}", f"{tag}: reward {y!r} in the batch, {x!r} at B=1 for the same "
                                f"actions", {"actions": a_s, "batched_actions": a_b}, False))


def gated(ctx, sig):
    """Genuine-defect candidates not (yet) registered as known findings are counted, not alarmed (see ASSUMPTIONS)."""
    for pat, label in GATED_DEFECTS.items():
        if fnmatch.fnmatchcase(sig, pat):
            if DEFECT_SLICES or ctx.known.match(PROPERTY, sig) is not None:
                return None
            return label
    return None


def settle(case, ctx, issues, execute_fn, can_f64):
    """Hard issues are violations; soft ones (float32, small) are adjudicated by the float64 re-run of the case."""
    live = []
    for it in issues:
        lab = gated(ctx, it.sig)
        if lab is not None:
            ctx.exclude(lab)
        else:
            live.append(it)
    for it in live:
        if not it.soft or not can_f64:
            ctx.violation(it.sig, it.msg, it.detail)  # raises unless the signature is an open known finding (counted)
    soft = [it for it in live if it.soft and can_f64]
    if soft:
        ctx.event("f32_mismatch_adjudicated_in_f64")
        ctx.event(f"f32_adjudicated:{case['zoo'][0]}/{case['zoo'][1]}")
        execute_fn({**case, "f64": True}, ctx, adjudication=True)
        ctx.event("f32_mismatch_was_rounding(f64 agrees)")
        return True
    return False


# --------------------------------------------------------------------------- batchings
def make_policy(key, envn, env, case, f64):
    if key == "mdam":
        return build_mdam(envn, case["pseed"], case["spread"], f64, int(case.get("paths", MDAM_PATHS)))
    logging.disable(logging.ERROR)  # MatNetPolicy logs its (toy-size) kwargs as "unused" at construction
    try:
        policy = build_policy(key, envn, env, seed=case["pseed"], spread=case["spread"], double=f64, norm=case.get("norm"),
                              opts=case.get("opts"))
    finally:
        logging.disable(logging.NOTSET)
    if key in ("matnet", "matnet_ctx", "polynet_matnet"):
        assert isinstance(policy.encoder.init_embedding, DeterministicMatNetInit), "deterministic MatNet init missing"
    if key == "matnet_ffsp":
        assert all(isinstance(e.init_embedding, DeterministicMatNetInit) for e in policy.encoders), \
            "deterministic MatNet init missing"
        policy.test_decode_type = "greedy"
    return policy


def chunked(order, sizes):
    out, i, j = [], 0, 0
    while i < len(order):
        s = max(1, int(sizes[j % len(sizes)]))
        out.append(order[i:i + s])
        i += s
        j += 1
    return out


def execute(case, ctx, adjudication=False):
    key, envn = case["zoo"]
    if "mvmoe" in key:
        from ..policies import moe_watch
        moe_watch(ctx)  # expert choices within float32 rounding are don't-care (vf.policies, MoE gates)
    if case.get("excluded"):
        ctx.exclude(f"by_design:{key}")
        return
    f64 = bool(case["f64"])
    mode, k = case["mode"], (None if case["k"] is None else int(case["k"]))
    dec = case.get("dec") or {}
    slice_ = f"{key}/{envn}|{mode}{dec_tag(dec)}"
    if not adjudication:
        if key not in NO_DEC_KEYS:
            ctx.event("dec:" + ("options" + dec_tag(dec) if dec else "none"))
            for kk, v in sorted(dec.items()):
                ctx.event(f"dec:{kk}={v}")
            if dec.get("top_k"):
                ctx.event(f"dec:top_k>0|{'variable_length_env' if envn in VARLEN_ENVS else 'other_env'}")
        ctx.event(f"zoo:{key}/{envn}")
        ctx.event(f"mode:{mode}")
        if mode != "greedy":
            ctx.event(f"mode:{mode}|{envn}" + ("|default_num_starts" if k is None else ""))
        ctx.event("float64" if f64 else "float32")
    try:
        with watchdog():
            _run(case, ctx, adjudication, key, envn, f64, mode, k, slice_)
    except InfeasibleStart:
        ctx.exclude("forced_start_infeasible(C12)")
    except Hang:
        ctx.violation(f"hang|{slice_}", f"a policy call did not return within {HANG_S}s at toy size")


def _run(case, ctx, adjudication, key, envn, f64, mode, k, slice_):
    cfg, mkw = resolve_setup(case, env_cfg(envn, case["n"], case["variant"]))
    if envn == "pdp" and mode != "greedy":
        cfg = dict(cfg, force_start=False)  # pickups can only be forced first moves with a free start
    spec = SPECS[envn]
    env_via = mkw["env_via"]
    env = spec.env(dict(cfg, **mkw["env_shape"]) if mkw["env_shape"] else cfg) if env_via == "object" else default_env(envn)
    if not adjudication:
        setup_events(ctx, case, envn, cfg)
    M = int(case["M"])
    rows = [int(r) for r in case["rows"]]
    nm = int(case["n_mates"])
    state = torch.get_rng_state()
    if mkw["src"] != "gen" and mkw["lat"] is not None:
        # hand-built rows: one drawn block of M + n_mates rows, the first M are the instance set, the rest the mates
        both = ctx.guard(spec.instance, {"env": envn, "cfg": cfg, "B": M + nm, "src": mkw["src"], "seed": case["iseed"],
                                         "lat": mkw["lat"]}, what=f"instance|{envn}")
        inst, mates = both[:M], both[M:M + nm]
    else:
        inst = ctx.guard(spec.gen, cfg, M, case["iseed"], what=f"instance|{envn}")
        mates = ctx.guard(spec.gen, cfg, nm, case["mseed"], what=f"instance|{envn}")
    torch.set_rng_state(state)
    same_shape = set(inst.keys()) == set(mates.keys()) and all(inst[kk].shape[1:] == mates[kk].shape[1:]
                                                               and inst[kk].dtype == mates[kk].dtype for kk in inst.keys())
    pool = torch.cat([inst, mates], 0) if same_shape else inst
    policy = make_policy(key, envn, env, case, f64)
    policy.eval()
    run = Runner(ctx, key, envn, env, policy, pool, mode, k, f64, case["n"], env_via, dec=case.get("dec"),
                 count=not adjudication)

    # ---- (a) one by one: the reference answers
    solo, refs = {}, {}
    for i in rows:
        recs, td_solo, out, rec_m = run.decode([i])
        solo[i] = recs[0]
        refs[i] = run.reference(td_solo, out, rec_m)

    # ---- (b) (c) (d)
    order = [rows[j] for j in sorted(range(len(rows)), key=lambda j: (case["perm"][j % len(case["perm"])], j))]
    batchings = [("full", [rows]), ("chunks", chunked(order, case["chunks"]))]
    if same_shape:
        target = rows[int(case["mate_target"]) % len(rows)]
        pos = int(case["mate_pos"]) % (nm + 1)
        mate_idx = [M + j for j in range(nm)]
        batchings.append(("mates", [mate_idx[:pos] + [target] + mate_idx[pos:]]))
    else:
        ctx.event("mates_have_other_shape(skipped)")
    issues = []
    seen = {i: {(i,)} for i in rows}
    padded_rows = 0
    for label, batches in batchings:
        for idx in batches:
            if len(idx) == 1 and idx[0] in solo:
                continue  # a chunk of one instance is the B=1 decode itself
            recs, _, out, _ = run.decode(idx)
            ctx.event(f"batch_size:{min(len(idx), 5)}{'+' if len(idx) >= 5 else ''}")
            for p, i in enumerate(idx):
                if i >= M:
                    continue
                Ls, gaps, _, flt = refs[i]
                compare(solo[i], Ls, gaps, recs[p], slice_, label, f64, issues,
                        f"instance {i} at position {p} of batch {idx}" + (f" (decoding options {run.dec})" if run.dec else ""),
                        ll_cast32=key in LL_CAST32,
                        # (MatNet-FFSP: tanh-clipped logits are scaled by 10 and the spread-initialised stage encoders
                        #  amplify float32 rounding - an exactly tied pair of jobs, identical run times in the current
                        #  stage, came out 1.05e-4 apart at B=1 and exactly tied at B=2 on the unchanged tree: same band)
                        loose32=(not f64 and ((mode != "greedy" and family(key) in NO_F64) or key in LL_CAST32)), flt=flt)
                seen[i].add(tuple(idx))
                if any(recs[p].actions[r].shape[0] > Ls[r] for r in range(len(Ls))):
                    padded_rows += 1
    if settle(case, ctx, issues, execute, can_f64=(not f64 and family(key) not in NO_F64)):
        return
    if adjudication:
        return

    # ---- coverage bookkeeping
    thr = 1e-8 if f64 else 1e-4
    nontriv = False
    for i in rows:
        Ls, gaps, nfe, flt = refs[i]
        if flt is not None:
            amb = sum(int(flt["amb"][r].sum()) for r in range(len(Ls)))
            ctx.event("filter:steps_multi_choice", sum(int((nfe[r] >= 2).sum()) for r in range(len(Ls))))
            ctx.event("filter:steps_where_it_removes_a_feasible_action",
                      sum(int((flt["nkept"][r] < nfe[r]).sum()) for r in range(len(Ls))))
            ctx.event("filter:steps_kept_set_ambiguous(dont_care)", amb)
            ctx.event("filter:episodes")
            if amb:
                ctx.event("filter:episodes_with_ambiguous_step(summed_ll_dont_care)")
        full = all(bool((gaps[r] > thr).all()) for r in range(len(Ls)))
        multi = sum(int(((nfe[r] >= 2) & torch.isfinite(gaps[r])).sum()) for r in range(len(Ls)))
        dec = sum(int(((nfe[r] >= 2) & torch.isfinite(gaps[r]) & (gaps[r] > thr)).sum()) for r in range(len(Ls)))
        ctx.event("episodes")
        ctx.event(f"episodes:{key}/{envn}")
        ctx.event("steps_multi_choice", multi)
        ctx.event("steps_decisive", dec)
        if full:
            ctx.event("episodes_fully_decisive")
            ctx.event(f"episodes_fully_decisive:{key}/{envn}")
            if multi >= 2 and len(seen[i]) >= 3:
                nontriv = True
    if padded_rows:
        ctx.event("rows_compared_with_post_finish_padding", padded_rows)
    if run.dec.get("top_k") and len(rows) > 1:
        ctx.event("topk:cases")
        if run.hetero_batches:
            ctx.event("topk:cases_with_a_step_some_row<k_feasible_and_another_instance>k")
    if nontriv:
        ctx.nontriv()
    i0 = rows[0]
    ctx.sample({"zoo": case["zoo"], "mode": mode, "k": k, "n": case["n"], "rows": rows, "f64": f64, "dec": case.get("dec"),
                "batchings": {lab: b for lab, b in batchings}, "solo_actions_row0": solo[i0].actions[0].tolist(),
                "solo_ll_row0": float(solo[i0].ll_sum[0])})


# --------------------------------------------------------------------------- evaluation chunking
EVAL_ZOO = [("am", "tsp"), ("am", "cvrp"), ("am", "tsp"), ("am", "cvrp"), ("am", "sdvrp"), ("am", "op"),
            ("am_pomo", "tsp"), ("am_pomo", "cvrp")]


@st.composite
def eval_cases(draw, tier="quick"):
    key, envn = draw(st.sampled_from(EVAL_ZOO))
    N = draw(st.integers(4, 12))
    divs = [b for b in range(1, N + 1) if N % b == 0]
    nondivs = [b for b in range(2, N + 3) if N % b != 0]
    return dict(zoo=[key, envn], n=draw(st.integers(4, 8)), N=N, rows=list(range(N)),
                iseed=draw(st.integers(0, 2 ** 20)), pseed=draw(st.integers(0, 3)),
                spread=draw(st.sampled_from([1.25, 1.5, 1.75] if key == "am" else [1.25, 1.5])),
                bs_div=draw(st.sampled_from(divs)), bs_nondiv=draw(st.sampled_from(nondivs)),
                data=draw(st.sampled_from(["tdd", "tdd", "fast", "fastgen"])))


def eval_minimize(case):
    c = dict(case)
    rows = list(c["rows"])
    for j in range(len(rows)):
        if len(rows) > 2:
            yield {**c, "rows": rows[:j] + rows[j + 1:]}
    if c["n"] > 4:
        yield {**c, "n": c["n"] - 1}
    for key, val in (("spread", 1.5), ("pseed", 0), ("data", "tdd")):
        if c.get(key) != val:
            yield {**c, key: val}
    for b in ("bs_div", "bs_nondiv"):
        if c[b] > 1:
            yield {**c, b: c[b] - 1}


def execute_eval(case, ctx):
    import rl4co.data.dataset as DS
    from rl4co.tasks.eval import evaluate_policy

    key, envn = case["zoo"]
    if "mvmoe" in key:
        from ..policies import moe_watch
        moe_watch(ctx)  # expert choices within float32 rounding are don't-care (vf.policies, MoE gates)
    slice_ = f"{key}/{envn}|greedy"
    ctx.event(f"zoo:{key}/{envn}")
    cfg = small_cfg(envn, case["n"])
    spec = SPECS[envn]
    env = spec.env(cfg)
    rows = [int(r) for r in case["rows"]]
    N = len(rows)
    state = torch.get_rng_state()
    inst = ctx.guard(spec.gen, cfg, int(case["N"]), case["iseed"], what=f"instance|{envn}")
    torch.set_rng_state(state)
    data = inst[torch.tensor(rows, dtype=torch.long)]
    policy = build_policy(key, envn, env, seed=case["pseed"], spread=case["spread"])
    policy.eval()
    run = Runner(ctx, key, envn, env, policy, data, "greedy", 0, False, case["n"])
    solo, refs = [], []
    for i in range(N):
        recs, td_solo, out, _ = run.decode([i])
        solo.append(recs[0])
        refs.append(run.reference(td_solo, out))

    cls = {"tdd": DS.TensorDictDataset, "fast": DS.FastTdDataset, "fastgen": DS.TensorDictDatasetFastGeneration}[case["data"]]
    issues, results = [], {}
    for name in ("bs_div", "bs_nondiv"):
        bs = int(case[name])
        ds = ctx.guard(cls, data.clone(), what=f"dataset|{case['data']}")
        with contextlib.redirect_stdout(io.StringIO()), watchdog():
            res = ctx.guard(evaluate_policy, env, policy, ds, method="greedy", batch_size=bs, auto_batch_size=False,
                            progress=False, what=f"evaluate_policy|{slice_}|{name}")
        policy.eval()
        A, rew = res["actions"], res["rewards"]
        ctx.check(A.dim() == 2 and A.shape[0] == N and tuple(rew.shape) == (N,), f"eval_rows|{slice_}|{name}",
                  f"evaluate_policy(batch_size={bs}) on {N} instances returned actions {tuple(A.shape)}, rewards "
                  f"{tuple(rew.shape)}")
        results[name] = (A, rew)
        nb = math.ceil(N / bs)
        ctx.event(f"loader_batches:{min(nb, 4)}{'+' if nb >= 4 else ''}")
        for i in range(N):
            rec = Rec()
            rec.actions.append(A[i].long())
            rec.ll_steps.append(None)
            rec.ll_sum.append(solo[i].ll_sum[0])  # evaluation does not report log-likelihoods
            rec.reward.append(rew[i].double())
            Ls, gaps, _, _ = refs[i]
            compare(solo[i], Ls, gaps, rec, slice_, f"eval_{name}", False, issues, f"dataset row {i} (batch_size={bs})")
    # direct comparison of the two chunkings on fully decisive instances
    nontriv = False
    (A1, r1), (A2, r2) = results["bs_div"], results["bs_nondiv"]
    for i in range(N):
        Ls, gaps, nfe, _ = refs[i]
        L = Ls[0]
        ctx.event("episodes")
        if bool((gaps[0] > 1e-4).all()):
            ctx.event("episodes_fully_decisive")
            if int((nfe[0] >= 2).sum()) >= 2:
                nontriv = True
            if not torch.equal(A1[i, :L], A2[i, :L]) or bool(A1[i, L:].any()) or bool(A2[i, L:].any()):
                issues.append(Issue(f"eval_actions_between_chunkings|{slice_}", f"dataset row {i}: actions differ between "
                                    f"batch_size={case['bs_div']} and {case['bs_nondiv']} (or non-zero padding)",
                                    {"a": A1[i], "b": A2[i]}, False))
            elif abs(float(r1[i]) - float(r2[i])) > 1e-5 * (1 + abs(float(r1[i]))):
                issues.append(Issue(f"eval_reward_between_chunkings|{slice_}", f"dataset row {i}: reward {float(r1[i])} vs "
                                    f"{float(r2[i])}", None, False))
    for it in issues:
        ctx.violation(it.sig, it.msg, it.detail)
    if nontriv and N % int(case["bs_nondiv"]) != 0 and math.ceil(N / int(case["bs_nondiv"])) >= 2:
        ctx.nontriv()
    ctx.sample({"zoo": case["zoo"], "N": N, "bs": [case["bs_div"], case["bs_nondiv"]], "data": case["data"]})


def preimport():
    import rl4co.models.zoo.mdam  # noqa
    import rl4co.tasks.eval  # noqa
    import rl4co.data.dataset  # noqa


SUBS = [
    # quick budget 592 (was 640): the round-3b dimensions (default-count multi-start rows, wait-allowed job shops, policy
    # variants) cost ~30 % more CPU per case set; rebalanced to stay within +25 % of the previous quick tier
    Sub("batchings", execute, strategy=lambda tier: cases(tier), budget={"quick": 1776, "thorough": 8000}, shards=16,
        shrink=False, minimize=minimize, weight=2.0),
    Sub("eval_chunking", execute_eval, strategy=lambda tier: eval_cases(tier), budget={"quick": 384, "thorough": 1600},
        shards=8, shrink=False, minimize=eval_minimize),
]
