"""C05 — the mask never hides a feasible solution: the optimum stays reachable."""
import itertools
import math

import hypothesis.strategies as st
import torch

from ..envs import SPECS, py_instance
from ..episode import flat_mask, row_done
from ..oracles import JUDGES
from ..oracles.scheduling import judge_flp, judge_mcp, judge_smtwtp
from ..play import DISCRETE, tau_for
from ..runner import Sub

PROPERTY = "C05"
RULE = (
    "case = small instance (routing <= 5-6 customers, mTSP <= 5 cities / 3 agents, PDP <= 6, SDVRP <= 3, SMTWTP <= 6, "
    "FLP/MCP <= 7 items) from the exact lattice (loads / prizes that fit only with equality) or the generator. "
    "Per instance the complete candidate space is enumerated independently of rl4co (permutations x route splits, "
    "subsets x orders, SDVRP by an own DFS over the split-delivery semantics) and classified by the independent "
    "oracle (robustly feasible / robustly infeasible / don't-care band 1e-4 for continuous constraints, exact for "
    "loads and prizes on the lattice). (1) every robustly feasible candidate is replayed through reset/step: each of "
    "its actions must be inside the offered mask and the episode must end done; (2) the env is expanded breadth "
    "first over all True mask entries and the best reachable reward must equal the brute-force optimum. "
    "Non-trivial instance = >=1 infeasible and >=10 feasible candidates; exhaustive per instance. FJSP/JSSP: true optimum "
    "over semi-active schedules vs breadth-first expansion; FFSP: reachable set of complete sequences vs exhaustive "
    "DFS of the reference decision process."
)
ASSUMPTIONS = [
    "documented pruning respected: no depot->depot move while a customer is servable; empty SVRP routes only when the "
    "current technician can serve nobody",
    "continuous constraints met with equality (time-window end, distance limit, OP length with its documented 1e-6 "
    "margin, MTVRP strict '<' on window ends) are don't-care inside a 1e-4 band - except CVRPTW arrivals that equal "
    "the window end in exact integer arithmetic (integer leg lengths, departure times, window bounds: identical in "
    "float32 and float64), which are asserted to be offered (the problem lets a service start when the window closes), and MTVRP routes whose "
    "length equals the distance limit in exact dyadic arithmetic (lattice coordinates, pythagorean legs)",
    "FJSP/JSSP: with waiting allowed (mask_no_ops=False) the reachable optimum must equal the true optimum over "
    "semi-active schedules; with mask_no_ops=True (documented non-delay pruning) only 'not better than optimal' is asserted",
    "FFSP: the MatNet decision process (each machine in turn picks a waiting job; idling only while a job can still "
    "arrive at the stage) is itself a pruning that can lose the true optimum (counted, not asserted); asserted is "
    "that the set of complete dispatch sequences / schedules reachable through the mask equals the set of the "
    "reference decision process (exhaustive DFS, <= 3 jobs x 2 stages x 2 machines) and that nothing beats the true optimum",
]
MAX_CAND = 30000


# --------------------------------------------------------------------------- candidate spaces
def compositions(seq):
    """all ways to cut a sequence into consecutive non-empty routes"""
    n = len(seq)
    for cuts in itertools.product([0, 1], repeat=max(0, n - 1)):
        routes, cur = [], [seq[0]]
        for i in range(1, n):
            if cuts[i - 1]:
                routes.append(cur)
                cur = []
            cur.append(seq[i])
        routes.append(cur)
        yield routes


def cand_tsp(n, first=0):
    return [list(p) for p in itertools.permutations(range(first, n))]


def cand_routes(n_cust, max_routes=None, close_single=True):
    """customers 1..n split into routes separated by 0; a single route is closed by an explicit return"""
    out = []
    for p in itertools.permutations(range(1, n_cust + 1)):
        for routes in compositions(list(p)):
            if max_routes and len(routes) > max_routes:
                continue
            acts = []
            for i, r in enumerate(routes):
                acts += r
                if i < len(routes) - 1:
                    acts.append(0)
            if len(routes) == 1 and close_single:
                acts.append(0)
            out.append(acts)
    return out


def cand_subsets(n_cust):
    out = []
    for k in range(0, n_cust + 1):
        for p in itertools.permutations(range(1, n_cust + 1), k):
            out.append(list(p) + [0])
    return out


def cand_sdvrp(inst, cap=1.0):
    """own DFS over the split-delivery semantics (deliver min(remaining, free) at every visit)"""
    n = len(inst["demand"])
    out = []

    def rec(rem, used, pos, acts):
        if len(out) > MAX_CAND:
            return
        if all(r <= 0 for r in rem):
            out.append(list(acts))
            return
        for c in range(1, n + 1):
            if rem[c - 1] > 0 and used < cap:
                d = min(rem[c - 1], cap - used)
                rem2 = list(rem)
                rem2[c - 1] -= d
                rec(rem2, used + d, c, acts + [c])
        if pos != 0:
            rec(rem, 0.0, 0, acts + [0])
    rec(list(inst["demand"]), 0.0, 0, [])
    return out


def cand_svrp(inst, n_cust, T):
    """routes may be empty only if the technician cannot serve any remaining customer"""
    techs = [t[0] for t in inst["techs"]]
    skills = [s[0] for s in inst["skills"]]
    out = []

    def rec(left, tech, cur_route_len, acts):
        if len(out) > MAX_CAND:
            return
        if not left:
            out.append(acts + [0])  # the episode only ends with the depot visited
            return
        if tech >= T:
            return
        for c in sorted(left):
            rec(left - {c}, tech, cur_route_len + 1, acts + [c])
        servable = any(skills[c - 1] <= techs[tech] for c in left)
        if tech < T - 1 and (cur_route_len > 0 or not servable):
            rec(left, tech + 1, 0, acts + [0])
    rec(frozenset(range(1, n_cust + 1)), 0, 0, [])
    return out


def cand_mdcpdp(n, D):
    """depot 0 first, every depot opened exactly once (routes may be empty), each non-final route closed by a return
    to its own depot, customers D..D+n-1 in any order / split; precedence and capacity are judged by the oracle"""
    out = []
    custs = list(range(D, D + n))
    for order in itertools.permutations(range(1, D)):
        depots = [0] + list(order)
        for p in itertools.permutations(custs):
            # split p into D consecutive (possibly empty) parts
            for cuts in itertools.combinations_with_replacement(range(n + 1), D - 1):
                bounds = [0] + list(cuts) + [n]
                acts = []
                for r, d in enumerate(depots):
                    acts.append(d)
                    acts += list(p[bounds[r]:bounds[r + 1]])
                    if r < D - 1:
                        acts.append(d)
                out.append(acts)
    return out


def candidates(name, cfg, inst):
    if name == "mdcpdp":
        return cand_mdcpdp(cfg["n"], cfg["depots"])
    if name in ("tsp", "atsp"):
        return cand_tsp(cfg["n"])
    if name == "pdp":
        c = cand_tsp(cfg["n"] + 1, first=1)
        return [[0] + x for x in c] if cfg["force_start"] else c
    if name in ("cvrp", "cvrptw", "mtvrp"):
        return cand_routes(cfg["n"])
    if name == "svrp":
        return cand_svrp(inst, cfg["n"], len(cfg["tech_costs"]))
    if name == "mtsp":
        return [c for c in cand_routes(cfg["n"] - 1, max_routes=int(inst["num_agents"]), close_single=False)]
    if name in ("op", "pctsp", "spctsp"):
        return cand_subsets(cfg["n"])
    if name == "sdvrp":
        return cand_sdvrp(inst, cfg.get("vc", 1.0))
    if name == "smtwtp":
        return [list(p) for p in itertools.permutations(range(1, cfg["n"] + 1))]
    if name == "flp":
        return [list(p) for p in itertools.permutations(range(cfg["n"]), cfg["k"])]
    if name == "mcp":
        return [list(p) for p in itertools.permutations(range(cfg["sets"]), cfg["k"])]
    raise KeyError(name)


def judge(name, spec, cfg, inst, acts):
    if name == "smtwtp":
        return judge_smtwtp(inst, acts)
    if name == "flp":
        return judge_flp(inst, acts, cfg)
    if name == "mcp":
        return judge_mcp(inst, acts, cfg)
    return JUDGES[name](inst, acts, spec.judge_cfg(cfg))


# --------------------------------------------------------------------------- env side
def replay_batch(env, inst1, cands, has_low, lead=None):
    """Replay K candidates as K copies of one instance.  Returns per candidate (admitted, step, done_at_end).
    `lead` = (other_instance_row, its_candidate): that pair is replayed at batch row 0 in front of the K copies (mixed
    batch: per-instance quantities of the instance under test must not be read from row 0); its result is dropped."""
    if lead is not None:
        rej, ok = _replay_rows(env, torch.cat([lead[0]] + [inst1] * len(cands), 0), [list(lead[1])] + list(cands), has_low)
        return rej[1:], ok[1:]
    K = len(cands)
    return _replay_rows(env, torch.cat([inst1] * K, 0) if K > 1 else inst1.clone(), cands, has_low)


def _replay_rows(env, rows, cands, has_low):
    K = len(cands)
    td = env.reset(rows)
    L = max(len(c) for c in cands)
    lens = torch.tensor([len(c) for c in cands])
    A = torch.zeros(K, L + 2, dtype=torch.long)
    for i, c in enumerate(cands):
        A[i, :len(c)] = torch.tensor(c)
    rejected_at = torch.full((K,), -1, dtype=torch.long)
    done = row_done(td["done"], K) if "done" in td.keys() else torch.zeros(K, dtype=torch.bool)
    fin_at = torch.full((K,), 10 ** 6, dtype=torch.long)
    t = 0
    while t < L + 2 and not bool(done.all()):
        mask = flat_mask(td["action_mask"], K)
        want = A[:, min(t, L + 1)]
        active = (t < lens) & (rejected_at < 0) & ~done
        ok = mask.gather(1, want.clamp(0, mask.shape[1] - 1)[:, None]).squeeze(1)
        newly = active & ~ok
        rejected_at[newly] = t
        first = mask.float().argmax(1)
        # rows not active: closing depot return if offered (has_low), else the first offered action
        closing = torch.where(mask[:, 0], torch.zeros_like(first), first) if has_low else first
        act = torch.where(active & ok, want, closing)
        if bool((~mask.any(1) & ~done).any()):
            break
        td = td.clone()
        td.set("action", act)
        td = env.step(td)["next"]
        t += 1
        nd = row_done(td["done"], K)
        fin_at[nd & ~done] = t
        done = nd
    # complete: done no later than one forced closing step after the candidate's last action; if the env finished
    # earlier, the rest of the candidate may only be depot padding
    rest_is_padding = torch.tensor([all(a == 0 for a in c[int(min(fin_at[i], len(c))):]) for i, c in enumerate(cands)])
    done_when_exhausted = done & (fin_at <= lens + 1) & rest_is_padding
    return rejected_at, done_when_exhausted


def expand_all(env, inst1, cap_states=400000, cap_steps=64):  # noqa: C901
    """Breadth-first expansion over every True mask entry; returns best reward and #complete episodes."""
    td = env.reset(inst1.clone())
    hist = torch.zeros(1, 0, dtype=torch.long)
    best, n_done, n_states = -math.inf, 0, 1
    for _ in range(cap_steps):
        K = td.batch_size[0]
        mask = flat_mask(td["action_mask"], K)
        rows, acts = torch.nonzero(mask, as_tuple=True)
        if rows.numel() == 0:
            break
        n_states += rows.numel()
        if n_states > cap_states:
            return None, n_done, n_states
        td = td[rows].clone()
        td.set("action", acts)
        hist = torch.cat([hist[rows], acts[:, None]], 1)
        td = env.step(td)["next"]
        done = row_done(td["done"], td.batch_size[0])
        if bool(done.any()):
            r = env._get_reward(td[done], hist[done]) if hasattr(env, "_get_reward") else env.get_reward(td[done], hist[done])
            r = r.reshape(-1).double()
            best = max(best, float(r.max()))
            n_done += int(done.sum())
        if bool(done.all()):
            break
        td, hist = td[~done], hist[~done]
    return best, n_done, n_states


def jobshop_optimum(I):
    """True optimum: min makespan over machine assignments x precedence-respecting operation orders, each decoded
    by earliest-start list scheduling (the semi-active schedules contain an optimum)."""
    P = I["proc_times"]
    M = len(P)
    jobs = [list(range(int(s_), int(e_) + 1)) for s_, e_ in zip(I["start_op_per_job"], I["end_op_per_job"])]
    ops = [o for job in jobs for o in job]
    elig = {o: [m for m in range(M) if P[m][o] > 0] for o in ops}
    order_tokens = [j for j, job in enumerate(jobs) for _ in job]
    best = math.inf
    n = 0
    for order in set(itertools.permutations(order_tokens)):
        for assign in itertools.product(*[elig[o] for o in ops]):
            amap = dict(zip(ops, assign))
            ptr = [0] * len(jobs)
            jready = [0.0] * len(jobs)
            mfree = [0.0] * M
            mk = 0.0
            for j in order:
                o = jobs[j][ptr[j]]
                ptr[j] += 1
                m = amap[o]
                st_ = max(jready[j], mfree[m])
                fi = st_ + P[m][o]
                jready[j] = mfree[m] = fi
                mk = max(mk, fi)
            best = min(best, mk)
            n += 1
    return best, n


def execute_jobshop(case, ctx):
    name, cfg = case["env"], case["cfg"]
    spec = SPECS[name]
    sl = spec.slice_of(cfg)
    inst = ctx.guard(spec.instance, case, what=f"instance|{name}")
    ctx.event(f"env:{name}|{sl}")
    for b in range(inst.batch_size[0]):
        I = py_instance(name, inst[b])
        nops = sum(1 for p in I["pad_mask"] if not p)
        if nops > (6 if ctx.tier == "thorough" else 5):
            ctx.exclude("too_many_ops")
            continue
        opt, n_sched = jobshop_optimum(I)
        best, n_done, n_states = ctx.guard(expand_all, spec.env(cfg), inst[b:b + 1], 600000, what=f"expand|{name}|{sl}")
        ctx.event("expanded_states", n_states)
        if best is None:
            ctx.exclude("expansion_too_large")
            continue
        det = {"instance": I, "best_reachable_makespan": -best, "optimal_makespan": opt}
        if -best < opt - 1e-6:
            ctx.violation(f"{name}|{sl}|reachable_better_than_optimum", f"reachable makespan {-best} below the true optimum {opt}", det)
        if not cfg["mask_no_ops"] and -best > opt + 1e-6:
            ctx.violation(f"{name}|{sl}|optimum_unreachable", f"best reachable makespan {-best} > true optimum {opt} although waiting is allowed", det)
        if cfg["mask_no_ops"] and -best > opt + 1e-6:
            ctx.event("non_delay_pruning_loses_optimum(documented)")
        if nops >= 3 and n_sched >= 10:
            ctx.nontriv({"env": name, "cfg": cfg, "inst": I})
        ctx.sample({"env": name, "cfg": cfg, "ops": nops, "schedules_enumerated": n_sched, "optimal_makespan": opt,
                    "best_reachable_makespan": -best, "states": n_states})


def jobshop_cases(tier):
    @st.composite
    def c(draw):
        name = draw(st.sampled_from(["fjsp", "jssp"]))
        spec = SPECS[name]
        cfg = draw(spec.cfg("quick"))
        cfg["jobs"] = draw(st.integers(1, 3))
        cfg["mas"] = draw(st.integers(1, 2))
        cfg["min_ops"], cfg["max_ops"] = 1, 2
        cfg["max_pt"] = draw(st.sampled_from([3, 6, 9]))
        if name == "fjsp":
            cfg["max_elig"] = min(cfg["max_elig"], cfg["mas"])
        else:
            cfg["one2one"] = False
        case = {"env": name, "cfg": cfg, "B": 1, "src": "lat", "seed": draw(st.integers(0, 2 ** 31 - 1))}
        case["lat"] = draw(spec.lattice(cfg, 1))
        if name == "fjsp" and cfg["mas"] == 2 and draw(st.booleans()):
            # boundary construction: a fast and a slow machine, so that idling the slow one (waiting) is optimal
            nops, pts = case["lat"]["rows"][0]
            pts = [[draw(st.integers(1, 3)), draw(st.integers(7, 12))] for _ in pts]
            case["lat"]["rows"][0] = [nops, pts]
            case["fast_slow"] = True
        return case
    return c()


# --------------------------------------------------------------------------- FFSP (MatNet decision process)
def ffsp_model_leaves(I, S, M, cap=60000):
    """all complete action sequences of the reference decision process (DFS over the model's own masks)"""
    import copy
    from ..oracles.scheduling import FFSPModel
    leaves, stack, n = [], [(FFSPModel(I, S, M), [])], 0
    while stack:
        m, acts = stack.pop()
        if m.done:
            J = m.J
            leaves.append((tuple(tuple(r[:J]) for r in m.start), tuple(acts)))
            continue
        for a, ok in enumerate(m.mask()):
            if ok:
                n += 1
                if n > cap:
                    return None
                m2 = copy.deepcopy(m)
                m2.step(a)
                stack.append((m2, acts + [a]))
    return leaves


def ffsp_true_optimum(I, S, M):
    """min makespan over machine choices x stage-respecting op orders, earliest-start list scheduling"""
    R = I["run_time"]
    J = len(R)
    tokens = [j for j in range(J) for _ in range(S)]
    best = math.inf
    for order in set(itertools.permutations(tokens)):
        for assign in itertools.product(range(M), repeat=J * S):
            ptr, jready, mfree, mk = [0] * J, [0] * J, [0] * (S * M), 0
            for j in order:
                s_ = ptr[j]
                ptr[j] += 1
                m = s_ * M + assign[j * S + s_]
                st_ = max(jready[j], mfree[m])
                fi = st_ + R[j][m]
                jready[j] = mfree[m] = fi
                mk = max(mk, fi)
            best = min(best, mk)
    return best


def ffsp_env_leaves(env, inst1, J, cap=60000, cap_steps=400):
    """breadth-first expansion of the real env over all True mask entries; the env's machine-permutation tables are
    indexed by row // reset-batch-size, so the table batch size is raised after the reset: every frontier row then
    reads permutation 0, which is what every row of an un-augmented batch gets"""
    td = env.reset(inst1.clone())
    env.tables.set_bs(10 ** 9)
    hist = torch.zeros(1, 0, dtype=torch.long)
    leaves, n = [], 0
    for _ in range(cap_steps):
        K = td.batch_size[0]
        mask = flat_mask(td["action_mask"], K)
        rows, acts = torch.nonzero(mask, as_tuple=True)
        n += rows.numel()
        if n > cap:
            return None
        td = td[rows].clone()
        td.set("action", acts)
        hist = torch.cat([hist[rows], acts[:, None]], 1)
        td = env.step(td)["next"]
        done = row_done(td["done"], td.batch_size[0])
        if bool(done.any()):
            end = td["schedule"][done] + td["job_duration"][done].permute(0, 2, 1)
            mk = end[:, :, :J].amax((1, 2))
            for sch, h, k in zip(td["schedule"][done][:, :, :J].tolist(), hist[done].tolist(), mk.tolist()):
                leaves.append((tuple(tuple(r) for r in sch), tuple(h), k))
        if bool(done.all()):
            return leaves
        td, hist = td[~done], hist[~done]
    return None


def execute_ffsp(case, ctx):
    cfg = case["cfg"]
    spec = SPECS["ffsp"]
    S, M, J = cfg["stages"], cfg["mas"], cfg["jobs"]
    inst = ctx.guard(spec.instance, case, what="instance|ffsp")
    I = py_instance("ffsp", inst[0])
    sl = spec.slice_of(cfg)
    ctx.event(f"env:ffsp|J{J}S{S}M{M}")
    want = ffsp_model_leaves(I, S, M)
    if want is None:
        ctx.exclude("model_tree_too_large")
        return
    got = ctx.guard(ffsp_env_leaves, spec.build(cfg), inst[0:1], J, what=f"expand|ffsp|{sl}")
    if got is None:
        ctx.violation(f"ffsp|{sl}|reachable_set_vs_model|env_tree_larger", "the env's mask-reachable tree exceeds the cap although the reference tree is small",
                      {"instance": I, "model_leaves": len(want)})
        return
    ctx.event("expanded_leaves", len(got))
    want_seq = {a for _, a in want}
    got_seq = {a for _, a, _ in got}
    det = {"instance": I, "cfg": cfg}
    missing = sorted(want_seq - got_seq)
    extra = sorted(got_seq - want_seq)
    if missing:
        ctx.violation(f"ffsp|{sl}|mask_hides_feasible|sequence", f"{len(missing)} complete dispatch sequences of the reference decision process are not reachable through the mask, e.g. {list(missing[0])}",
                      {**det, "sequence": list(missing[0])})
    if extra:
        ctx.violation(f"ffsp|{sl}|reachable_set_vs_model|extra", f"{len(extra)} mask-reachable complete sequences are not sequences of the reference decision process, e.g. {list(extra[0])}",
                      {**det, "sequence": list(extra[0])})
    wsch = {s for s, _ in want}
    gsch = {s for s, _, _ in got}
    if wsch != gsch and not missing and not extra:
        ctx.violation(f"ffsp|{sl}|reachable_schedules_vs_model", "same sequences but different stored schedules", det)
    R = I["run_time"]

    def mk_of(sch):
        return max(sch[m][j] + R[j][m] for m in range(S * M) for j in range(J) if sch[m][j] >= 0)
    best_model = min(mk_of(s) for s in wsch)
    best_env = min(k for _, _, k in got)
    if best_env != best_model:
        ctx.violation(f"ffsp|{sl}|optimum_unreachable" if best_env > best_model else f"ffsp|{sl}|reachable_better_than_optimum",
                      f"best mask-reachable makespan {best_env} != best makespan of the reference decision process {best_model}", det)
    if J * S <= 6:
        opt = ffsp_true_optimum(I, S, M)
        if best_model < opt:
            ctx.violation(f"ffsp|{sl}|reachable_better_than_optimum", f"makespan {best_model} below the true optimum {opt}", det)
        ctx.event("decision_process_contains_true_optimum" if best_model == opt else "formulation_pruning_loses_true_optimum(not asserted)")
    if len(want) >= 10 and J >= 2:
        ctx.nontriv({"cfg": cfg, "inst": I})
    ctx.sample({"env": "ffsp", "cfg": cfg, "leaves": len(got), "schedules": len(gsch), "best_makespan": best_env})


def ffsp_cases(tier):
    spec = SPECS["ffsp"]

    @st.composite
    def c(draw):
        cfg = {"jobs": draw(st.integers(1, 3)), "stages": draw(st.integers(1, 2)), "mas": draw(st.integers(1, 2)),
               "max_time": draw(st.sampled_from([2, 3, 5])), "flatten": draw(st.booleans())}
        case = {"env": "ffsp", "cfg": cfg, "B": 1, "src": "lat", "seed": draw(st.integers(0, 2 ** 31 - 1))}
        case["lat"] = draw(spec.lattice(cfg, 1))
        return case
    return c()


# --------------------------------------------------------------------------- the check
def execute(case, ctx):
    name, cfg = case["env"], case["cfg"]
    spec = SPECS[name]
    env = spec.env(cfg)
    sl = spec.slice_of(cfg)
    inst = ctx.guard(spec.instance, case, what=f"instance|{name}")
    tau = tau_for(case)
    exact = DISCRETE if case["src"] == "lat" else ()
    if name == "cvrptw":
        # arrivals that equal the window end in exact integer arithmetic (oracle-certified, see judge_cvrptw)
        exact = set(exact) | {"time_window="}
    if name == "mtvrp":
        # route length equal to the distance limit in exact dyadic arithmetic (oracle-certified, see judge_mtvrp)
        exact = set(exact) | {"distance_limit="}
    if name == "svrp" and case["src"] == "lat":
        # hand-built crews and requirements are small integers: "required skill == technician's level" is exact, and the
        # docstring is explicit ("greater or equal")
        exact = set(exact) | {"skill"}
    ctx.event(f"env:{name}")
    if case.get("coincident_customers"):
        ctx.event("coincident_customers")
    nB = inst.batch_size[0]
    pre = []
    for b in range(nB):
        I = py_instance(name, inst[b])
        cands = candidates(name, cfg, I)
        if len(cands) > MAX_CAND:
            pre.append(None)
            continue
        verdicts = [judge(name, spec, cfg, I, c) for c in cands]
        classes = [v.robust_class(tau, exact) for v in verdicts]
        pre.append((I, cands, verdicts, classes, [i for i, c in enumerate(classes) if c == "feasible"]))
    for b in range(nB):
        if pre[b] is None:
            ctx.exclude("candidate_space_too_large")
            continue
        I, cands, verdicts, classes, feas = pre[b]
        # mixed batch (B = 2): the other instance, playing one of its own robustly feasible solutions, sits at batch
        # row 0 while this instance's candidates are replayed - what is admitted may not depend on the batch mates
        lead = None
        if nB == 2 and pre[1 - b] is not None and pre[1 - b][4]:
            o = pre[1 - b]
            lead = (inst[1 - b:2 - b], o[1][o[4][case["seed"] % len(o[4])]])
            ctx.event("replayed_behind_another_instance")
        n_inf = sum(1 for c in classes if c == "infeasible")
        n_dc = sum(1 for c in classes if c == "dont_care")
        tight = sum(1 for i in feas if any(s == 0 for _, s in verdicts[i].slacks))
        ctx.event("equality_tight_feasible_candidates", tight)
        if not feas:
            ctx.event("no_robustly_feasible_candidate")
            continue
        # (1) completeness replay
        fc = [cands[i] for i in feas]
        rej, done_ok = ctx.guard(replay_batch, env if name != "ffsp" else spec.env(cfg), inst[b:b + 1], fc,
                                 spec.has_depot_action, lead, what=f"replay|{name}|{sl}")
        for j, i in enumerate(feas):
            if int(rej[j]) >= 0:
                v = verdicts[i]
                tightc = sorted({c for c, s in v.slacks if s == 0})
                ctx.violation(f"{name}|{sl}|mask_hides_feasible|{'tight:' + tightc[0] if tightc else 'slack'}",
                              f"feasible solution {cands[i]} is refused by the mask at step {int(rej[j])}",
                              {"candidate": cands[i], "step": int(rej[j]), "instance": I, "slacks": v.slacks[:8]})
            elif not bool(done_ok[j]):
                ctx.violation(f"{name}|{sl}|complete_solution_not_done", f"env is not done after the complete solution {cands[i]}",
                              {"candidate": cands[i], "instance": I})
        # (2) reachable optimum == brute-force optimum
        opt = max(verdicts[i].obj for i in feas)
        dc_better = any(classes[i] == "dont_care" and verdicts[i].obj > opt + 1e-9 for i in range(len(cands)))
        best, n_done, n_states = ctx.guard(expand_all, spec.env(cfg), inst[b:b + 1], what=f"expand|{name}|{sl}")
        ctx.event("expanded_states", n_states)
        if best is None:
            ctx.exclude("expansion_too_large")
        elif dc_better:
            ctx.event("optimum_inside_dont_care_band")
        else:
            scale = 1 + max(abs(opt), max(v.terms for v in verdicts))
            if best < opt - 1e-5 * scale:
                ctx.violation(f"{name}|{sl}|optimum_unreachable", f"best mask-reachable reward {best} < brute-force optimum {opt}",
                              {"instance": I, "best_reachable": best, "optimum": opt})
            elif best > opt + 1e-5 * scale and n_dc == 0:
                ctx.violation(f"{name}|{sl}|reachable_better_than_optimum",
                              f"mask-reachable reward {best} beats the brute-force optimum {opt} (an infeasible or mis-scored solution is reachable)",
                              {"instance": I, "best_reachable": best, "optimum": opt})
        if n_inf >= 1 and len(feas) >= 10:
            ctx.nontriv({"env": name, "cfg": cfg, "inst": I})
        ctx.sample({"env": name, "cfg": cfg, "src": case["src"], "candidates": len(cands), "feasible": len(feas),
                    "infeasible": n_inf, "dont_care": n_dc, "tight": tight, "optimum": opt, "best_reachable": best})


SMALL = {
    "tsp": (2, 6), "atsp": (2, 6), "cvrp": (2, 5), "cvrptw": (2, 5), "mtvrp": (2, 5), "svrp": (2, 5), "op": (2, 5),
    "pctsp": (2, 5), "spctsp": (2, 5), "sdvrp": (2, 3), "mtsp": (3, 6), "smtwtp": (2, 6),
}


# envs whose batches are not drawn mixed here (none at present; kept as the switch for envs that cannot hold two
# different instances of one config in a batch)
NO_MIXED = set()


def cases(tier):
    big = tier != "quick"

    @st.composite
    def c(draw):
        name = draw(st.sampled_from(list(SMALL) + ["pdp", "flp", "mcp", "cvrp", "cvrptw", "mtvrp", "op", "pctsp", "mdcpdp"]))
        spec = SPECS[name]
        cfg = draw(spec.cfg("quick"))
        if name in SMALL:
            lo, hi = SMALL[name]
            hi = hi if big else max(lo, hi - 1)
            cfg["n"] = draw(st.integers(lo, hi))
            if name == "mtsp":
                cfg["min_agents"] = min(cfg["min_agents"], 3, cfg["n"] - 1)
                cfg["max_agents"] = max(cfg["min_agents"], min(cfg["max_agents"], 3, cfg["n"] - 1))
        elif name == "mdcpdp":
            cfg["n"] = draw(st.sampled_from([2, 4]))
            cfg["depots"] = draw(st.integers(1, 3))
        elif name == "pdp":
            cfg["n"] = draw(st.sampled_from([2, 4, 6] if big else [2, 4]))
        elif name == "flp":
            cfg["n"] = draw(st.integers(2, 7))
            cfg["k"] = draw(st.integers(1, min(cfg["n"], 4)))
        elif name == "mcp":
            cfg["sets"] = draw(st.integers(2, 7))
            cfg["k"] = draw(st.integers(1, min(cfg["sets"], 4)))
        srcs = [s for s in spec.sources if s != "flt"]
        src = draw(st.sampled_from(srcs + ["lat"]))
        nB = draw(st.sampled_from([1, 1, 2])) if name not in NO_MIXED else 1
        case = {"env": name, "cfg": cfg, "B": nB, "src": src, "seed": draw(st.integers(0, 2 ** 31 - 1))}
        if src == "lat":
            case["lat"] = draw(spec.lattice(cfg, nB, exact=True))
            # coincident customers (zero-length legs; real data sets contain them, uniform generators never do): the
            # customer farther from the depot is moved onto a nearer one, which keeps every window / limit that the
            # lattice derived from the depot distance satisfiable
            L0 = case["lat"].get("locs")
            if L0 is not None and (name == "mtvrp" or "depot" in case["lat"]) and draw(st.integers(0, 3 if name != "mtvrp" else 1)) == 0:
                for r_ in range(nB):
                    dep = L0[r_][0] if name == "mtvrp" else case["lat"]["depot"][r_]
                    cust = list(range(1, len(L0[r_]))) if name == "mtvrp" else list(range(len(L0[r_])))
                    if len(cust) >= 2 and not isinstance(dep[0], list):
                        a_, b_ = draw(st.permutations(cust))[:2]
                        da, db = (math.hypot(L0[r_][k][0] - dep[0], L0[r_][k][1] - dep[1]) for k in (a_, b_))
                        near, far = (a_, b_) if da <= db else (b_, a_)
                        L0[r_][far] = list(L0[r_][near])
                        case["coincident_customers"] = True
            if name == "mtvrp" and case["lat"]["distance_limit"][0][0] < 1e29 and draw(st.booleans()):
                # boundary construction: the limit equals the exact (dyadic) length of some route of 1-3 customers
                locs = case["lat"]["locs"][0]
                opn = case["lat"]["open_route"][0][0]
                hyp = lambda a, b: math.hypot(locs[a][0] - locs[b][0], locs[a][1] - locs[b][1])
                need = max(hyp(0, j) for j in range(1, len(locs))) * (1 if opn else 2)
                opts = set()
                for k in (1, 2, 3):
                    for r in itertools.permutations(range(1, len(locs)), min(k, len(locs) - 1)):
                        legs = [hyp(a, b) for a, b in zip((0,) + r, r + (() if opn else (0,)))]
                        L = sum(legs)
                        if all(float(d * 1024).is_integer() for d in legs) and L >= need:
                            opts.add(L)
                if opts:
                    case["lat"]["distance_limit"][0][0] = draw(st.sampled_from(sorted(opts)))
                    case["limit_on_route_length"] = True
        elif src == "tgt":
            case["lat"] = draw(spec.tight(cfg, nB))
        return case
    return c()


SUBS = [
    Sub("enumerate", execute, strategy=cases, budget={"quick": 3008, "thorough": 12000}, shards=16, shrink=True),
    Sub("jobshop", execute_jobshop, strategy=jobshop_cases, budget={"quick": 1440, "thorough": 2500}, shards=16, shrink=True),
    Sub("ffsp", execute_ffsp, strategy=ffsp_cases, budget={"quick": 1440, "thorough": 4000}, shards=16, shrink=True),
]
TIME_CAP = {"quick": 500, "thorough": 3400}
