"""C01 — mask-confined episodes always yield feasible routing solutions."""
from ..envs import SPECS, episode_cases
from ..play import constraint_bit, judge_row, play, violated
from ..runner import Sub

PROPERTY = "C01"
RULE = (
    "case = routing env + drawn config (size, capacity override, variant preset, reward mode ...) + batch of "
    "instances (generator-drawn under a drawn torch seed, or hand-built on an exact k/16 coordinate / k/8 demand "
    "lattice) + one (mode, choice stream) per row; every action is taken from the row's own mask. MDCPDP also with "
    "start_mode='random' (start depot drawn at reset under a seed derived from the instance; the oracle is told the "
    "drawn depot, routes are defined by the executed actions). Hand-built CVRPTW in unscaled units or (config scale=True) "
    "in scaled units (everything divided by the depot closing time; tau 1e-4, no exact-equality class); hand-built MTVRP "
    "in normalised units (k/8, capacity 1) or (scale_demand=False) raw units: integer demands 1-9, integer vehicle "
    "capacity 9-24 drawn per row; hand-built closed-route MTVRP time-window rows get, half of the time, a BINDING depot "
    "closing time (latest single-customer round trip + 1-3 lattice units: solvable, but longer routes return late). Oracle = "
    "independent problem definition (vf/oracles/routing.py) on the original instance and the executed actions. "
    "Non-trivial row-episode = (>=2 routes for depot problems or >=3 nodes otherwise) and the mask excluded a "
    "not-yet-visited node at some step; distinct = distinct (case, row) hash."
)
ASSUMPTIONS = [
    "all rows of a batch have the same node count (as every generator/loader produces)",
    "continuous constraints are judged with tolerance 1e-4 (2e-3 for unscaled CVRPTW times); load/prize "
    "constraints exactly on lattice instances",
    "feasibility is judged on the actions up to the row's own finishing step; the post-finish padding is only "
    "required not to revisit customers",
]
ENVS = ["tsp", "atsp", "cvrp", "sdvrp", "cvrptw", "svrp", "op", "pctsp", "spctsp", "pdp", "mtsp", "mtvrp", "mdcpdp"]


def execute(case, ctx):
    spec, env, inst, insts, ep = play(case, ctx)
    name = case["env"]
    sl = spec.slice_of(case["cfg"])
    ctx.event(f"env:{name}")
    ctx.event(f"src:{case['src']}")
    if case["src"] != "gen" and name == "cvrptw":
        ctx.event(f"cvrptw:hand_built|{sl}_units")
    if case["src"] != "gen" and name == "mtvrp":
        caps = sorted({float(r["vehicle_capacity"]) for r in insts})
        ctx.event("mtvrp:hand_built|" + ("capacity=1" if caps == [1.0] else
                                          ("integer_capacity_same_for_all_rows" if len(caps) == 1 else "integer_capacities_differ_between_rows")))
    if ep.dead_end is not None or ep.cap_hit:
        ctx.event("aborted_episode(C02 territory)")
        return
    A = ep.actions_tensor()
    for b in range(len(insts)):
        fin = ep.finish_step(b)
        acts = A[b].tolist()
        v = judge_row(case, spec, insts[b], acts[:fin])
        bad = violated(case, v)
        if bad:
            ctx.violation(f"{name}|{sl}|{bad[0][0]}", f"mask-confined episode violates {bad}",
                          {"row": b, "actions": acts[:fin], "instance": insts[b]})
        vp = judge_row(case, spec, insts[b], acts)
        badp = [x for x in violated(case, vp, padded=True) if x[0] in ("duplicate_visit", "out_of_range")]
        if badp:
            ctx.violation(f"{name}|{sl}|padding_{badp[0][0]}", f"post-finish padding revisits a node: {badp}",
                          {"row": b, "actions": acts, "finish": fin})
        if name == "mdcpdp":
            # class counter for start_mode="random": rows whose reset state names another depot than the one the
            # episode opens first (where bookkeeping that trusts the reset value goes wrong)
            sd, fo = v.meta.get("start_depot"), v.meta.get("first_opened")
            ctx.event(f"mdcpdp:start_mode={case['cfg'].get('start_mode', 'order')}|reset_depot"
                      f"{'==' if sd == fo else '!='}first_opened")
        if name == "mtvrp" and case["src"] != "gen" and not v.meta.get("open") and insts[b]["time_windows"][0][1] < 1e29:
            # how binding the depot closing time is for the executed closed routes (hand-built instances make it bind)
            back = [s_ for c_, s_ in v.slacks if c_ == "depot_deadline"]
            if back:
                ctx.event("mtvrp:hand_built|closed_tw|depot_return_slack" + ("<0.5" if min(back) < 0.5 else ">=0.5"))
        routes = v.meta.get("routes")
        big = (len(routes) >= 2) if routes is not None else (len(acts[:fin]) >= 3)
        if big and constraint_bit(ep, b, spec.has_depot_action):
            ctx.nontriv({"c": case, "row": b})
            ctx.event("nontrivial_row")
        if fin is not None and fin < ep.T:
            ctx.event("row_padded")
    ctx.sample({"env": name, "cfg": case["cfg"], "src": case["src"], "B": case["B"],
                "actions_row0": A[0].tolist(), "modes": [r["mode"] for r in case["rows"]]})


SUBS = [
    Sub("episodes", execute, strategy=lambda tier: episode_cases(tier, ENVS),
        budget={"quick": 8000, "thorough": 100000}, shards=16),
]
TIME_CAP = {"quick": 400, "thorough": 3000}
