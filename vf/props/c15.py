"""C15 — augmentation preserves costs; evaluation reports true best-of-k results.

Sub-checks
  transforms : rl4co.data.transforms (StateAugmentation, dihedral_8_augmentation(_wrapper),
               symmetric_augmentation, get_augment_function).  Oracle: float64 pairwise distance matrices,
               first-copy identity, row layout a*B+b, route costs by the independent routing oracles.
  evaluation : rl4co.tasks.eval (evaluate_policy, GreedyEval, SamplingEval, AugmentationEval,
               GreedyMultiStartEval, GreedyMultiStartAugmentEval) with a tiny AttentionModelPolicy.  Every
               candidate rollout is observed through a delegating get_reward spy (one around the env handed to
               the evaluator, one injected into the policy in place of the default env it would build itself);
               objectives are recomputed in float64 on the ORIGINAL instances.
               Environments: tsp, cvrp (reward = pure function of instance and actions) and mtsp, whose default
               cost_type="minmax" reads the reward from the ROLLOUT STATE kept in the td (max sub-tour length
               accumulated by _step), so that a reward taken from another rollout's state is visible.
  select_best: direct policy calls policy(td, env, decode_type=sampling|multistart_sampling|multistart_greedy,
               num_samples/num_starts=k, select_best=True): the returned reward is the objective of the returned
               actions and the maximum over that instance's k rollouts (spy + a second call with
               select_best=False under the same torch seed).
  pomo_step  : POMO / SymNCO / PolyNet .shared_step(val/test) -- the (n_aug, n_start) regrouping that reports
               max_reward / max_aug_reward, against the same spy + oracle; augment_fn as a callable, num_augment <= 1,
               first_aug_identity=False, feats; one model object on successive batches of other sizes / phases.
  Round 3b   : evaluation on op / pctsp / spctsp / pdp / sdvrp / cvrptw, the evaluator kwargs top_p / softmax_temp /
               feats / force_dihedral_8=False / _inner(num_augment=), and evaluate_policy's default automatic batch size.
  History    : evaluation with the Eval classes: one case in three calls the SAME evaluator object twice (another data
               set of another size / loader batch size first, e.g. validation set then test set); everything is asserted
               for the second call as for a first one, and the first call's returned tensors must stay what they were.
"""
import contextlib
import io
import math

import hypothesis.strategies as st
import torch

from ..oracles import routing as _R
from ..oracles.routing import judge_cvrp, judge_mtsp, judge_tsp
from ..envs import SPECS, py_instance
from ..policies import small_cfg
from ..runner import Sub

PROPERTY = "C15"
RULE = (
    "transforms: case = (family symmetric|dihedral8, B 1-6, n 2-20, num_augment 1-16 (8 for dihedral8), "
    "first_aug_identity, td layout default{locs} | extras{locs incl. depot node, demand, capacity, int key; "
    "feats=['locs']} | multi{locs, depot[B,1,2]; feats=['locs','depot']}, lattice k/16 or float32 coordinates, a "
    "permutation + depot-return pattern, torch seed; api StateAugmentation or the bare functions). Non-trivial = "
    "B >= 2 and num_augment >= 2. evaluation: case = (tsp|cvrp|mtsp{cost_type minmax|sum, agent range}, n 4-8, "
    "dataset size 1-13, loader batch size, "
    "method greedy|sampling|multistart_greedy|augment|augment_dihedral_8|multistart_greedy_augment(_dihedral_8) "
    "(mtsp/minmax: sampling only, see assumptions), "
    "num_starts/num_augment/samples/temperature/top_k drawn, evaluate_policy or Eval class + DataLoader, "
    "env.dataset | TensorDictDataset | TensorDictDatasetFastGeneration, AM policy embed 16/32, 1 layer, seeded "
    "spread init). Non-trivial = >= 2 loader batches with a partial last batch and some instance with >= 2 "
    "candidates whose objectives differ. select_best: case = (tsp|cvrp|mtsp{minmax|sum}, n 4-8, B 1-6, mode "
    "samples(num_samples=k)|ms_sampling|ms_greedy(num_starts=k), k 1-6, temperature/top_k drawn, select_best=True, "
    "env passed explicitly); non-trivial = B >= 2, k >= 2 and for some instance a rollout other than its copy 0 is "
    "strictly best. pomo_step: POMO val/test step with num_augment 2-8, num_starts 2-n; "
    "non-trivial = B >= 2 and candidates differ. Distinct = distinct case hash. "
    "Round 3b: evaluation also on op|pctsp|spctsp|pdp|sdvrp|cvrptw (1/3 of the cases; vf.policies.small_cfg "
    "configurations, routing oracles of vf/oracles/routing.py, trailing depot zeros = EvalBase's padding stripped "
    "before judging; op without the multistart methods); evaluator kwargs top_p 0.6/0.9, softmax_temp None/0.5/2.0, "
    "feats=['locs'], force_dihedral_8=False with the *_dihedral_8 method names, eval_fn(policy, loader, num_augment=k); "
    "evaluate_policy with its default auto_batch_size=True (batch_size=None, max_batch_size 1-8|4096, start_batch_size "
    "= rollouts-per-instance x 1-9 | 8192; multistart methods with any num_starts, F49) - the effective loader batch "
    "size is read from the evaluator's reset calls. pomo_step: augment_fn symmetric|dihedral8|callable (harness "
    "rotation/reflection), num_augment 0-6 (<= 1 = augmentation off), first_aug_identity=False (F11 rows reported "
    "under F11's signature), feats=['locs'], PolyNet val/test step (k 2-4, val_num_solutions 2-5, num_augment >= 1), and "
    "histories: the same model object on 1-2 further batches of other sizes / phases (val|test|train). "
    "evaluation history (1/3 of the api=class cases, key 'hist'): after the ordinary pass with a fresh evaluator object "
    "a second pass builds a new evaluator OBJECT that is first called on another data "
    "set (own seed, size 1..N+3, loader batch size = the case's one | 1..size+1 | 2-5; same env / policy / spies) and "
    "only then on the case's data set; the spy log is cut between the two calls, every assertion of the sub is made on "
    "the SECOND call (signatures end in |reused_object: the fresh-object pass of the same case passed), the first call is checked for shape [size], loader batches, "
    "reward == objective of its returned actions, and its returned tensors must be bit-identical after the second call."
)
ASSUMPTIONS = [
    "normalize=True (min_max_normalize) rescales coordinates by design and is outside the asserted domain",
    "coordinate features are [batch, nodes, 2] tensors as the augmentation docstrings state ([B,2] depots are not passed)",
    "with first_aug_identity=False no first-copy identity is asserted, only isometry of every copy",
    "evaluation: select_best=True (default); sampling keeps its first action random as SamplingEval configures it",
    "the policy would build get_env(name) itself when tasks.eval calls it without env; the harness injects a "
    "delegating spy around exactly that default env",
    "env.get_reward values are cross-checked against the independent float64 oracle (1e-4 on augmented "
    "coordinates, 1e-5*(1+length) on original coordinates); exact ties between candidates are don't-care",
    "num_starts <= num_loc (start-node selection for larger values is C12 / finding F8)",
    "mtsp with cost_type='minmax' keeps its reward in the rollout state (td['reward'] = -max_subtour_length written "
    "by _step); GreedyEval, AugmentationEval, GreedyMultiStartEval and GreedyMultiStartAugmentEval recompute "
    "env.get_reward(reset td, actions) on the RESET state, which has no such key (KeyError on the unchanged tree): "
    "these methods are not defined for state-reward environments and are not drawn for mtsp/minmax; only "
    "method='sampling' (samples >= 1), which reports the policy's own out['reward'], is. mtsp/sum (reward = pure "
    "function of locs and actions) is drawn with every method",
    "every evaluation method is asserted in the objective of the EVALUATOR's environment (for mtsp its cost_type); "
    "before the repair F47 the evaluators called the policy without env, so the policy decoded with a default env "
    "rebuilt from its env name and method='sampling' reported that env's (minmax) reward for a cost_type='sum' env",
    "auto_batch_size: get_automatic_batch_size documents max_batch_size as 'the practical maximum batch size' and "
    "start_batch_size as 'the theoretical maximum' for all rollouts of a batch (num_starts counted as num_starts // 10, "
    "at least 1): asserted b <= max_batch_size, b * rollouts-per-instance <= start_batch_size, batches (b, ..., b, rest) "
    "in dataset order; start_batch_size >= rollouts per instance (otherwise the function takes log2(0): outside)",
    "op: the multistart methods force start nodes the length budget may not allow (finding F17, C12) and are not drawn; "
    "pdp: free start (force_start_at_depot=False), multistart starts are pickups; cvrptw: scale=True; sdvrp / cvrptw / "
    "op / pctsp / spctsp returned actions are judged after stripping trailing zeros (finished rows wait at the depot, "
    "EvalBase pads shorter loader batches with zeros)",
    "softmax_temp is accepted by SamplingEval and handed to the policy, where no decoding strategy reads it (drawn, no "
    "effect expected); feats=['locs'] is the only coordinate key of a reset state",
    "PolyNet(num_augment=0) raises IndexError in its val/test step (POMO accepts 0): PolyNet's documented 'no "
    "augmentation' value is 1 (encoder_type='MatNet'), 0 is not drawn for it; SymNCO train steps between evaluation "
    "steps are skipped (they need a SymNCOPolicy, the evaluation steps use the AM policy)",
    "an evaluator object is a reusable callable (EvalBase.__call__(policy, dataloader) 'evaluate the policy on the given "
    "dataloader'; real callers evaluate a validation and a test set with one object): a call's result describes exactly "
    "the data set passed to THAT call, whatever the object evaluated before; both calls of a history use the same "
    "policy, env and (where drawn) the same num_augment= keyword",
    "mtsp actions are judged after stripping the trailing depot padding; num_starts <= num_loc - 1 customers; "
    "flp/mcp/ffsp/fjsp/mpdp (other state-reward envs) have no AttentionModelPolicy embeddings or are expensive and "
    "are left to C03/C12",
]
TIME_CAP = {"quick": 300, "thorough": 2400}

SEED = st.integers(0, 2 ** 31 - 1)


# =========================================================================== helpers
def _pdist(x):
    """[R, m, 2] -> [R, m, m] float64 Euclidean distances (own formula, not rl4co's)."""
    x = x.double()
    d = x[:, :, None, :] - x[:, None, :, :]
    return (d * d).sum(-1).sqrt()


def _close(a, b, terms, rel=1e-5):
    return abs(a - b) <= rel * (1.0 + abs(terms))


def _strip(acts):
    acts = list(acts)
    while acts and acts[-1] == 0:
        acts.pop()
    return acts


def _quiet():
    return contextlib.redirect_stdout(io.StringIO())


# =========================================================================== A. transforms
@st.composite
def aug_cases(draw, tier="quick"):
    family = draw(st.sampled_from(["symmetric", "dihedral8"]))
    B = draw(st.integers(1, 6))
    n = draw(st.one_of(st.integers(2, 6), st.integers(2, 20)))
    if family == "dihedral8":
        na = 8
    else:
        na = draw(st.one_of(st.integers(1, 16), st.sampled_from([1, 2, 3, 4, 8])))
    fai = draw(st.sampled_from([True, True, False]))
    layout = draw(st.sampled_from(["default", "extras", "multi"]))
    api = draw(st.sampled_from(["state", "state", "state", "fn"]))
    src = draw(st.sampled_from(["lat", "flt"]))
    m = n + 1  # node 0 plays the depot in the cvrp-like layouts
    if src == "lat":
        flat = draw(st.lists(st.integers(0, 16), min_size=2 * m * B, max_size=2 * m * B))
    else:
        flat = draw(st.lists(st.floats(0.0, 1.0, width=32, allow_nan=False), min_size=2 * m * B, max_size=2 * m * B))
    perm = draw(st.permutations(list(range(n))))
    cuts = draw(st.lists(st.booleans(), min_size=n, max_size=n))
    return dict(family=family, B=B, n=n, na=na, fai=fai, layout=layout, api=api, src=src, flat=flat,
                perm=list(perm), cuts=cuts, tseed=draw(SEED))


def _coords(case):
    B, m = case["B"], case["n"] + 1
    x = torch.tensor(case["flat"], dtype=torch.float32)
    if case["src"] == "lat":
        x = x / 16.0
    return x.reshape(B, m, 2)


def _route(case):
    """cvrp-like action list over customers 1..n with depot returns (0) after the marked positions."""
    acts = []
    for p, c in zip(case["perm"], case["cuts"]):
        acts.append(p + 1)
        if c:
            acts.append(0)
    return acts


def _cost(layout, depot, locs, case):
    """Cost of the case's tour/route on one coordinate set (python float64 lists), by the routing oracles."""
    if layout == "default":
        v = judge_tsp({"locs": locs}, case["perm"])
    else:
        v = judge_cvrp({"depot": depot, "locs": locs, "demand": [0.0] * len(locs)}, _route(case))
    return v.obj, v.terms


def exec_aug(case, ctx):
    from tensordict import TensorDict

    from rl4co.data import transforms as T
    from rl4co.utils.ops import batchify

    family, B, n, na, fai, layout = (case[k] for k in ("family", "B", "n", "na", "fai", "layout"))
    xy = _coords(case)  # [B, n+1, 2]
    sl = f"{family}|{layout}"
    ctx.event(f"family={family}|first_aug_identity={fai}|api={case['api']}")
    ctx.event(f"layout={layout}|src={case['src']}")

    # ----------------------------------------------------------------- bare functions
    if case["api"] == "fn":
        fn = T.get_augment_function(family)
        ctx.check(fn is (T.symmetric_augmentation if family == "symmetric" else T.dihedral_8_augmentation_wrapper),
                  f"get_augment_function|{family}", "get_augment_function returned another function")
        ctx.check(T.get_augment_function(_pdist) is _pdist, "get_augment_function|callable",
                  "a callable is not passed through")
        torch.manual_seed(case["tseed"])
        big = batchify(xy.clone(), na)
        if family == "dihedral8":
            out = ctx.guard(fn, big.clone(), na, what="dihedral_8_augmentation_wrapper")
            out2 = ctx.guard(T.dihedral_8_augmentation, xy.clone(), what="dihedral_8_augmentation")
            ctx.check(out.shape == out2.shape and torch.equal(out, out2), "dihedral_wrapper_differs",
                      "wrapper(batchify(xy, 8)) differs from dihedral_8_augmentation(xy)")
            first_identity, exact = True, True
        else:
            first_augment = not fai
            out = ctx.guard(fn, big.clone(), na, first_augment, what="symmetric_augmentation")
            first_identity, exact = not first_augment, False
        if not ctx.check(tuple(out.shape) == (na * B, n + 1, 2), f"aug_shape|fn|{family}",
                         f"shape {tuple(out.shape)} for B={B}, num_augment={na}"):
            return
        D0 = _pdist(xy).repeat(na, 1, 1)
        err = (_pdist(out) - D0).abs().amax((1, 2))
        bad = (err > 1e-5).nonzero().flatten().tolist()
        ctx.check(not bad, f"aug_not_isometric|fn|{family}",
                  f"rows {bad[:6]} (row = copy*B + instance, B={B}) are not isometric to their instance; "
                  f"max distance error {float(err.max()):.4g}", {"rows": bad, "err": err})
        if first_identity:
            d = (out[:B] - xy).abs().max().item()
            ctx.check(d == 0.0 if exact else d <= 1e-6, f"first_copy_not_identity|fn|{family}",
                      f"first copy deviates from the original by {d:.3g}")
        if family == "dihedral8":
            _dihedral_distinct(ctx, xy, out, B)
        if B >= 2 and na >= 2:
            ctx.nontriv()
        return

    # ----------------------------------------------------------------- StateAugmentation
    g = torch.Generator().manual_seed(case["tseed"] ^ 0x5EED)
    if layout == "default":
        td = TensorDict({"locs": xy[:, 1:].clone()}, batch_size=[B])
        feats, coord_keys = None, ["locs"]
    elif layout == "extras":
        td = TensorDict({
            "locs": xy.clone(),
            "demand": torch.rand(B, n, generator=g),
            "capacity": torch.rand(B, 1, generator=g),
            "tag": torch.arange(B) * 7 + 3,
            "visited": torch.rand(B, n + 1, generator=g) > 0.5,
        }, batch_size=[B])
        feats, coord_keys = ["locs"], ["locs"]
    else:
        td = TensorDict({
            "locs": xy[:, 1:].clone(),
            "depot": xy[:, :1].clone(),
            "demand": torch.rand(B, n, generator=g),
        }, batch_size=[B])
        feats, coord_keys = ["locs", "depot"], ["depot", "locs"]
    td0 = td.clone()
    torch.manual_seed(case["tseed"])
    aug = ctx.guard(T.StateAugmentation, num_augment=na, augment_fn=family, first_aug_identity=fai,
                    normalize=False, feats=feats, what=f"StateAugmentation.__init__|{family}")
    out = ctx.guard(aug, td, what=f"StateAugmentation|first_aug_identity={fai}|num_augment={'1' if na == 1 else 'k'}")
    R = na * B
    if not ctx.check(out.batch_size == torch.Size([R]), f"aug_shape|{sl}",
                     f"batch size {tuple(out.batch_size)} for B={B}, num_augment={na}"):
        return
    for k in coord_keys:
        if not ctx.check(out[k].shape == torch.Size([R, td0[k].shape[1], 2]), f"aug_shape|{sl}",
                         f"{k} has shape {tuple(out[k].shape)}"):
            return
    # non-coordinate keys replicated unchanged, copy a of instance b at row a*B+b
    for k in td0.keys():
        if k in coord_keys:
            continue
        want = td0[k].repeat(na, *([1] * (td0[k].dim() - 1)))
        ctx.check(out[k].shape == want.shape and torch.equal(out[k], want), f"extra_key_changed|{sl}",
                  f"non-coordinate key {k!r} is not the row-wise replication (row a*B+b = instance b)")

    # isometry, per feature and jointly
    skip_rows = set()
    per_feat_bad = {}
    for k in coord_keys:
        err = (_pdist(out[k]) - _pdist(td0[k]).repeat(na, 1, 1)).abs().amax((1, 2))
        per_feat_bad[k] = (set((err > 1e-5).nonzero().flatten().tolist()), err)
    allp = torch.cat([out[k] for k in coord_keys], 1)
    all0 = torch.cat([td0[k] for k in coord_keys], 1)
    jerr = (_pdist(allp) - _pdist(all0).repeat(na, 1, 1)).abs().amax((1, 2))
    jbad = set((jerr > 1e-5).nonzero().flatten().tolist())

    if not fai and na >= 2:
        # finding F11: row B (copy 1 of instance 0), node 0 of every augmented feature, is overwritten with the
        # un-augmented coordinates.  Recognise exactly that pattern and give it its own signature.
        rowB = B
        hit = rowB in jbad or any(rowB in s for s, _ in per_feat_bad.values())
        if hit and _f11_pattern(td0, out, coord_keys, rowB):
            ctx.event("F11_row_B_node0_overwritten")
            ctx.violation(f"aug_not_isometric|first_aug_identity=False|row_B_node0_overwritten|{family}",
                          f"StateAugmentation(first_aug_identity=False, augment_fn={family!r}, num_augment={na}): "
                          f"row B={B} (copy 1 of instance 0) has node 0 overwritten by the un-augmented coordinates; "
                          f"distance error {float(jerr[rowB]):.4g}",
                          {"row": rowB, "orig_node0": td0[coord_keys[-1]][0, 0], "out_node0": out[coord_keys[-1]][rowB, 0]})
            skip_rows.add(rowB)
    for k in coord_keys:
        s, err = per_feat_bad[k]
        s = sorted(s - skip_rows)
        ctx.check(not s, f"aug_not_isometric|first_aug_identity={fai}|{sl}",
                  f"feature {k!r}: rows {s[:6]} (row = copy*B + instance, B={B}) are not isometric to their "
                  f"instance; max distance error {float(err.max()):.4g}", {"rows": s, "err": err})
    joint_ok = True
    if len(coord_keys) > 1:
        s = sorted(jbad - skip_rows - set().union(*[b for b, _ in per_feat_bad.values()]))
        if s:
            joint_ok = False
            ctx.event("multi_feats_jointly_broken")
            ctx.violation(f"aug_feats_not_jointly_isometric|{family}|first_aug_identity={fai}",
                          f"feats={feats}: each feature is transformed by its own map, distances between "
                          f"{coord_keys[0]} and {coord_keys[1]} change (rows {s[:6]}, max error "
                          f"{float(jerr.max()):.4g})", {"rows": s, "err": jerr})

    # first copy reproduces the original
    if fai:
        for k in coord_keys:
            d = (out[k][:B] - td0[k]).abs().max().item()
            ok = d == 0.0 if family == "dihedral8" else d <= 1e-6
            ctx.check(ok, f"first_copy_not_identity|{sl}", f"{k!r}: first copy deviates from the original by {d:.3g}")

    # route cost identical on every copy (independent oracle path); rows already reported are left out
    if joint_ok:
        for b in range(B):
            dep0 = td0["depot"][b, 0].double().tolist() if layout == "multi" else (
                td0["locs"][b, 0].double().tolist() if layout == "extras" else None)
            loc0 = (td0["locs"][b, 1:] if layout == "extras" else td0["locs"][b]).double().tolist()
            c0, terms = _cost(layout, dep0, loc0, case)
            for a in range(na):
                r = a * B + b
                if r in skip_rows or r in jbad:
                    continue
                dep = out["depot"][r, 0].double().tolist() if layout == "multi" else (
                    out["locs"][r, 0].double().tolist() if layout == "extras" else None)
                loc = (out["locs"][r, 1:] if layout == "extras" else out["locs"][r]).double().tolist()
                c, _ = _cost(layout, dep, loc, case)
                ctx.check(_close(c, c0, terms), f"route_cost_changed|first_aug_identity={fai}|{sl}",
                          f"copy {a} of instance {b}: cost {c} vs {c0} on the original")
    if family == "dihedral8" and fai:  # (with first_aug_identity=False the F11 overwrite can duplicate an image)
        _dihedral_distinct(ctx, td0["locs"], out["locs"], B)

    # does the layout check discriminate?  (instances with pairwise different distance matrices)
    if B >= 2:
        D = _pdist(all0)
        distinct = all((D[i] - D[j]).abs().max() > 1e-3 for i in range(B) for j in range(i))
        ctx.event("layout_discriminating" if distinct else "layout_instances_alike")
    if B >= 2 and na >= 2:
        ctx.nontriv()
    ctx.sample({k: case[k] for k in ("family", "B", "n", "na", "fai", "layout", "src", "api")})


def _f11_pattern(td0, out, coord_keys, rowB):
    for k in coord_keys:
        if not torch.equal(out[k][rowB, 0], td0[k][0, 0]):
            return False
        if td0[k].shape[1] > 1:
            e = (_pdist(out[k][rowB:rowB + 1, 1:]) - _pdist(td0[k][0:1, 1:])).abs().max().item()
            if e > 1e-5:
                return False
    return True


def _dihedral_distinct(ctx, xy, out, B):
    """docstring: 'Dihedral group of order 8' -- the 8 maps are pairwise different: a point off the four symmetry
    axes of the unit square has 8 distinct images."""
    x, y = xy[..., 0], xy[..., 1]
    generic = ((x - y).abs() > 1e-3) & ((x + y - 1).abs() > 1e-3) & ((x - .5).abs() > 1e-3) & ((y - .5).abs() > 1e-3)
    idx = generic.nonzero()
    if idx.numel() == 0:
        ctx.event("dihedral_no_generic_point")
        return
    b, j = idx[0].tolist()
    imgs = [tuple(round(v, 5) for v in out[a * B + b, j].tolist()) for a in range(8)]
    ctx.check(len(set(imgs)) == 8, "dihedral8_maps_not_distinct",
              f"the 8 copies of point {xy[b, j].tolist()} are {imgs}: two of the 8 maps coincide")


# =========================================================================== B. evaluation
METHODS = ["greedy", "sampling", "multistart_greedy", "augment", "augment_dihedral_8",
           "multistart_greedy_augment", "multistart_greedy_augment_dihedral_8"]


# methods that are defined for an environment whose reward lives in the rollout state (see ASSUMPTIONS)
STATE_REWARD_METHODS = ["sampling"]
EVAL_ENVS = ["tsp", "cvrp", "tsp", "cvrp", "tsp", "cvrp", "mtsp", "mtsp"]
# audit item 18: environments with variable-length episodes (EvalBase zero-pads their actions across loader batches),
# a prize objective (op), penalties (pctsp/spctsp), precedence (pdp), split deliveries (sdvrp), time windows (cvrptw).
# Configurations = vf.policies.small_cfg (generator defaults; cvrptw scale=True; pdp free start).
MORE_ENVS = ["op", "pctsp", "spctsp", "pdp", "sdvrp", "cvrptw"]
JUDGES = {"op": _R.judge_op, "pctsp": _R.judge_pctsp, "spctsp": _R.judge_pctsp, "pdp": _R.judge_pdp,
          "sdvrp": _R.judge_sdvrp, "cvrptw": _R.judge_cvrptw}
# op: multistart methods force start nodes that the instance's length budget may not allow (finding F17, C12)
NO_MULTISTART = ("op",)


def _draw_env(draw, envs):
    env = draw(envs if not isinstance(envs, list) else st.sampled_from(envs))
    n = draw(st.integers(4, 8))
    if env == "pdp":  # pickups 1..n/2, deliveries n/2+1..n
        n = 2 * draw(st.integers(2, 4))
    c = dict(env=env, n=n)
    if env == "mtsp":  # node 0 is the depot, n - 1 customers, num_agents drawn per instance from [lo, hi]
        c["ct"] = draw(st.sampled_from(["minmax", "minmax", "sum"]))
        lo = draw(st.integers(1, 3))
        c["agents"] = [lo, draw(st.integers(lo, min(n - 1, lo + 2)))]
    return c


def _state_reward(case):
    return case["env"] == "mtsp" and case["ct"] == "minmax"


def _max_starts(case):
    return case["n"] - 1 if case["env"] == "mtsp" else case["n"]


def _ratio(c):
    """get_automatic_batch_size: rollouts per instance as the function counts them (num_starts // 10 !)."""
    r = 1
    if "multistart" in c["method"]:
        # (one tenth of the start nodes, at least 1: F49 - before 8067ef1 num_starts < 10 divided by zero)
        r *= max(1, (c["ns"] if c.get("ns") is not None else c["n"]) // 10)
    if "na" in c:
        r *= c["na"]
    if c["method"] == "sampling":
        r *= c["samples"]
    return r


@st.composite
def eval_cases(draw, tier="quick"):
    c = _draw_env(draw, st.one_of(st.sampled_from(EVAL_ENVS), st.sampled_from(EVAL_ENVS), st.sampled_from(MORE_ENVS)))
    env, n = c["env"], c["n"]
    N = draw(st.integers(1, 13))
    bs = draw(st.one_of(st.integers(1, N + 1), st.sampled_from([2, 3, 4, 5])))
    methods = STATE_REWARD_METHODS if _state_reward(c) else METHODS
    if env in NO_MULTISTART:
        methods = [m for m in methods if "multistart" not in m]
    method = draw(st.sampled_from(methods))
    api = draw(st.sampled_from(["evaluate_policy", "class"]))
    # audit item 2: evaluate_policy's own default auto_batch_size=True (batch_size=None, max_/start_batch_size drawn)
    auto = api == "evaluate_policy" and draw(st.sampled_from([False, False, True]))
    if auto and "multistart" in method and env not in ("mtsp", "pdp") and draw(st.integers(0, 3)) == 0:
        n = c["n"] = draw(st.sampled_from([10, 11]))  # num_starts // 10 >= 1 enters the rollouts-per-instance count
    E = draw(st.sampled_from([16, 32]))
    c.update(N=N, bs=bs, method=method, api=api,
             data=draw(st.sampled_from(["env.dataset", "tdd", "fastgen"])),
             E=E, H=draw(st.sampled_from([1, 2] if E == 16 else [2, 4])),
             spread=draw(st.sampled_from([1.0, 1.25, 1.5])),
             pseed=draw(SEED), dseed=draw(SEED), tseed=draw(SEED))
    if "augment" in method:
        c["na"] = 8 if "dihedral" in method else draw(st.one_of(st.integers(2, 6), st.integers(1, 6)))
        # audit item 18: evaluator kwargs feats / force_dihedral_8=False / _inner(num_augment=)
        opt = draw(st.sampled_from(["", "", "feats", "fd8", "inner_na"]))
        if opt == "feats":
            c["feats"] = ["locs"]  # (the reset state keeps every coordinate, depot included, under 'locs')
        elif opt == "fd8" and "dihedral" in method and api == "evaluate_policy":
            c["fd8"] = False  # "*_dihedral_8" method names with force_dihedral_8=False: symmetric family, free count
            c["na"] = draw(st.integers(1, 6))
        elif opt == "inner_na" and api == "class":
            c["inner_na"] = True  # eval_fn(policy, loader, num_augment=na): the **kwargs route of EvalBase.__call__
    if "multistart" in method:
        ms = _max_starts(c)
        c["ns"] = draw(st.one_of(st.none(), st.integers(2, ms), st.integers(1, ms)))
    if method == "sampling":
        c["samples"] = draw(st.one_of(st.integers(1, 6), st.integers(2, 6))) if env == "mtsp" else draw(st.integers(1, 6))
        c["temperature"] = draw(st.sampled_from([1.0, 1.0, 2.0]))
        c["top_k"] = draw(st.sampled_from([0, 0, 3]))
        c["top_p"] = draw(st.sampled_from([0.0, 0.0, 0.0, 0.6, 0.9]))
        st_ = draw(st.sampled_from(["absent", "absent", "none", 0.5, 2.0]))  # (accepted, stored, passed on to the policy)
        if st_ != "absent":
            c["softmax_temp"] = None if st_ == "none" else st_
    if api == "class" and draw(st.integers(0, 2)) == 0:
        # history: the evaluator object has been called before, on ANOTHER data set (validation set, then test set)
        N1 = draw(st.one_of(st.integers(1, N + 3), st.sampled_from([N, N + 1, max(1, N - 1)])))
        c["hist"] = dict(N=N1, bs=draw(st.one_of(st.just(bs), st.integers(1, N1 + 1), st.sampled_from([2, 3, 4, 5]))),
                         dseed=draw(SEED), tseed=draw(SEED))
    if auto:
        r = _ratio(c)
        # start_batch_size "the theoretical maximum": r * q leaves q instances per batch before the cap and the
        # rounding to a power of two; max_batch_size "the practical maximum"
        q = draw(st.one_of(st.integers(1, 9), st.sampled_from([8192])))
        c["auto"] = dict(start=r * q if q < 8192 else 8192,
                         max=draw(st.one_of(st.integers(1, 8), st.integers(2, 6), st.sampled_from([4096]))))
    return c


class SpyEnv:
    """Delegating wrapper around an environment that records every get_reward call (DESIGN 2.5)."""

    def __init__(self, env, log, tag):
        self.__dict__.update(_env=env, _log=log, _tag=tag)

    def __getattr__(self, k):
        if k.startswith("__") or k in ("_env", "_log", "_tag"):
            raise AttributeError(k)
        return getattr(self._env, k)

    def get_reward(self, td, actions):
        r = self._env.get_reward(td, actions)
        self._log.append(("reward", self._tag, int(td.batch_size[0]), actions.detach().clone(), r.detach().clone()))
        return r

    def reset(self, *a, **kw):
        out = self._env.reset(*a, **kw)
        self._log.append(("reset", self._tag, int(out.batch_size[0])))
        return out


class SpyPolicy(torch.nn.Module):
    """Hands the policy a spy around the default env it would otherwise instantiate itself (get_env(env_name))."""

    def __init__(self, policy, log):
        super().__init__()
        self.policy = policy
        self.spy = SpyEnv(_default_env(policy.env_name), log, "policy")

    def forward(self, td, env=None, **kw):
        return self.policy(td, self.spy if env is None else env, **kw)


_ENVS = {}


def _default_env(name):
    from rl4co.envs import get_env

    if ("default", name) not in _ENVS:
        _ENVS["default", name] = get_env(name)
    return _ENVS["default", name]


def _sized_env(name, n, case=None):
    from rl4co.envs import get_env

    if name == "mtsp":
        lo, hi = case["agents"]
        key = (name, n, case["ct"], lo, hi)
        if key not in _ENVS:
            _ENVS[key] = get_env(name, generator_params=dict(num_loc=n, min_num_agents=lo, max_num_agents=hi),
                                 cost_type=case["ct"])
        return _ENVS[key]
    if name in MORE_ENVS:
        return SPECS[name].env(small_cfg(name, n))
    if (name, n) not in _ENVS:
        _ENVS[name, n] = get_env(name, generator_params=dict(num_loc=n))
    return _ENVS[name, n]


def _policy_ct(name):
    """Objective of the environment the policy builds from its env_name when it is called without env."""
    return _default_env(name).cost_type if name == "mtsp" else None


def make_policy(case):
    from rl4co.models import AttentionModelPolicy

    torch.manual_seed(case["pseed"])
    pol = AttentionModelPolicy(env_name=case["env"], embed_dim=case["E"], num_encoder_layers=1, num_heads=case["H"],
                               feedforward_hidden=2 * case["E"], normalization="instance")
    with torch.no_grad():
        for p in pol.parameters():
            p.mul_(case["spread"])
    pol.eval()
    return pol


def _instances(name, td):
    """python float64 instances of the ORIGINAL (generator) data, one per row."""
    out = []
    if name in MORE_ENVS:
        return [py_instance(name, td[i]) for i in range(td.batch_size[0])]
    for i in range(td.batch_size[0]):
        if name == "tsp":
            out.append({"locs": td["locs"][i].double().tolist()})
        elif name == "mtsp":
            out.append({"locs": td["locs"][i].double().tolist(), "num_agents": int(td["num_agents"][i])})
        else:
            out.append({"locs": td["locs"][i].double().tolist(), "depot": td["depot"][i].double().tolist(),
                        "demand": td["demand"][i].double().tolist()})
    return out


def _judge(name, inst, acts, ct=None):
    if name == "tsp":
        return judge_tsp(inst, list(acts))
    if name == "mtsp":
        return judge_mtsp(inst, _strip(acts), {"cost_type": ct})
    if name == "pdp":  # fixed episode length, the depot is never an action (free start): nothing to strip
        return _R.judge_pdp(inst, list(acts), {"force_start_at_depot": False})
    if name in JUDGES:  # trailing zeros = finished rows waiting at the depot / EvalBase's padding across batches
        return JUDGES[name](inst, _strip(acts), SPECS[name].judge_cfg(small_cfg(name, len(inst["locs"]))))
    return judge_cvrp(inst, _strip(acts))


def _key(name, acts):
    return tuple(acts) if name in ("tsp", "pdp") else tuple(_strip(acts))


def _dataset(case, env):
    from rl4co.data.dataset import TensorDictDataset, TensorDictDatasetFastGeneration
    from tensordict import TensorDict

    torch.manual_seed(case["dseed"])
    N = case["N"]
    if case["data"] == "env.dataset":
        ds = env.dataset(N)
        keys = list(ds.data[0].keys())
        td0 = TensorDict({k: torch.stack([d[k] for d in ds.data]) for k in keys}, batch_size=[N])
    else:
        td0 = env.generator(N)
        cls = TensorDictDataset if case["data"] == "tdd" else TensorDictDatasetFastGeneration
        ds = cls(td0.clone())
    return ds, td0.clone()


def _groups(log):
    """Split the spy log into loader batches at the evaluator's reset calls."""
    groups = []
    for rec in log:
        if rec[0] == "reset" and rec[1] == "eval":
            groups.append({"B": rec[2], "calls": []})
        elif rec[0] == "reward":
            if not groups:
                groups.append({"B": None, "calls": []})
            groups[-1]["calls"].append(rec)
    return groups


def _candidates(ctx, name, groups, insts, sizes, sl, ct_of=None, ct=None):
    """Per instance: list of (objective on the original instance, action key, tag).  Row r of a call with R = k*B
    rows belongs to instance r mod B of the loader batch; this is *verified* through the recorded reward.
    mtsp: ct_of[tag] is the cost type of the environment behind that spy (for the verification of its recorded
    rewards), ct the cost type in which the evaluation reports (for the candidates' objectives)."""
    cands = [[] for _ in insts]
    off = 0
    for g, Bj in zip(groups, sizes):
        multi = False
        for _, tag, R, acts, rew in g["calls"]:
            rew = rew.reshape(-1)
            # a Bj-row call after a k*Bj-row call is the reward of the rollouts that select_best kept
            what = "selected_rollout_reward" if (multi and R == Bj) else "candidate_row_mapping"
            multi = multi or R > Bj
            if not ctx.check(R % Bj == 0 and acts.shape[0] == R and rew.shape[0] == R, f"candidate_layout|{sl}",
                             f"get_reward call with {R} rows / rewards {tuple(rew.shape)} for a loader batch of {Bj}"):
                continue
            A = acts.tolist()
            rw = rew.double().tolist()
            for r in range(R):
                i = off + r % Bj
                v = _judge(name, insts[i], A[r], ct_of[tag] if ct_of else None)
                if not _close(rw[r], v.obj, v.terms, 1e-4):
                    ctx.violation(f"{what}|{sl}|{tag}",
                                  f"row {r} of a {R}-row get_reward call (loader batch of {Bj}) has reward {rw[r]} but "
                                  f"its actions cost {v.obj} on original instance {i} (= offset {off} + r mod B)",
                                  {"actions": A[r], "instance": insts[i], "tag": tag})
                if ct_of and ct_of[tag] != ct:
                    v = _judge(name, insts[i], A[r], ct)
                cands[i].append((v.obj, _key(name, A[r]), tag))
        off += Bj
    return cands


def _greedy_reference(case, policy, env, td0, sizes):
    """Plain single greedy decoding per loader batch (same batch composition as the evaluator sees)."""
    outs = []
    off = 0
    # (new environments are configured: decode with the sized env itself, as the evaluators do since F47)
    denv = env if case["env"] in MORE_ENVS else _default_env(case["env"])
    with torch.inference_mode():
        for Bj in sizes:
            td = env.reset(td0[off:off + Bj].clone())
            o = policy(td.clone(), denv, decode_type="greedy", num_starts=0)
            outs.extend(o["actions"].tolist())
            off += Bj
    return outs


def _run_eval(case, ctx, env_spy, pol_spy, ds, warm=None):
    """warm (api == "class" only) = {"ds": another data set, "log": the spy log}: the evaluator object is first called on
    that data set; its result, a bit-copy of its tensors and the log position after it are stored into `warm`."""
    from torch.utils.data import DataLoader

    from rl4co.tasks import eval as E

    method, bs = case["method"], case["bs"]
    kw = {}
    if "na" in case:
        kw["num_augment"] = case["na"]
    if case.get("ns") is not None:
        kw["num_starts"] = case["ns"]
    if method == "sampling":
        kw.update(samples=case["samples"], temperature=case["temperature"], top_k=case["top_k"])
        if "top_p" in case:
            kw["top_p"] = case["top_p"]
        if "softmax_temp" in case:
            kw["softmax_temp"] = case["softmax_temp"]
    if "feats" in case:
        kw["feats"] = list(case["feats"])
    torch.manual_seed(case["tseed"])
    with _quiet():
        if case["api"] == "evaluate_policy":
            if "fd8" in case:
                kw["force_dihedral_8"] = case["fd8"]
            if case.get("auto"):
                # the library default: auto_batch_size left at True, batch_size at None
                return ctx.guard(E.evaluate_policy, env_spy, pol_spy, ds, method=method,
                                 max_batch_size=case["auto"]["max"], start_batch_size=case["auto"]["start"],
                                 progress=False, what=f"evaluate_policy|auto_batch_size|{method}", **kw)
            return ctx.guard(E.evaluate_policy, env_spy, pol_spy, ds, method=method, batch_size=bs,
                             auto_batch_size=False, progress=False, what=f"evaluate_policy|{method}", **kw)
        if "multistart" in method:
            kw.setdefault("num_starts", case["n"])
        if "dihedral" in method:
            kw["force_dihedral_8"] = True
        cls = {"greedy": E.GreedyEval, "sampling": E.SamplingEval, "multistart_greedy": E.GreedyMultiStartEval,
               "augment": E.AugmentationEval, "augment_dihedral_8": E.AugmentationEval,
               "multistart_greedy_augment": E.GreedyMultiStartAugmentEval,
               "multistart_greedy_augment_dihedral_8": E.GreedyMultiStartAugmentEval}[method]
        fn = ctx.guard(cls, env_spy, progress=False, what=f"{cls.__name__}.__init__", **kw)
        loader = DataLoader(ds, batch_size=bs, shuffle=False, num_workers=0, collate_fn=ds.collate_fn)
        ckw, what = {}, f"{cls.__name__}|{method}"
        if case.get("inner_na"):
            ckw, what = dict(num_augment=case["na"]), what + "|num_augment="
        if warm is not None:
            h = case["hist"]
            wl = DataLoader(warm["ds"], batch_size=h["bs"], shuffle=False, num_workers=0, collate_fn=warm["ds"].collate_fn)
            torch.manual_seed(h["tseed"])
            first = ctx.guard(fn, pol_spy, wl, what=what + "|first_call_of_history", **ckw)
            warm.update(first=first, mark=len(warm["log"]),
                        snap={k: first[k].detach().clone() for k in ("rewards", "actions")})
            torch.manual_seed(case["tseed"])
            what += "|reused_object"
        return ctx.guard(fn, pol_spy, loader, what=what, **ckw)


def _first_call(case, ctx, env, hist, warm, first_log, insts1, ct, sl):
    """History: the first call of the evaluator object (on the other data set).  Its own result is checked lightly
    (shape, loader batches, reward == objective of the returned actions) - a first call is what every other case
    examines in full - and its returned tensors must not have been touched by the second call."""
    name, method, N, N1, bs1 = case["env"], case["method"], case["N"], hist["N"], hist["bs"]
    first, snap = warm["first"], warm["snap"]
    sizes1 = [min(bs1, N1 - s) for s in range(0, N1, bs1)]
    nb1, nb2 = len(sizes1), len(range(0, N, case["bs"]))
    ctx.event(f"history:evaluator_reused|{method}")
    ctx.event("history:first_data_set=" + ("smaller" if N1 < N else "same_size" if N1 == N else "larger"))
    ctx.event("history:loader_batch_size=" + ("same" if bs1 == case["bs"] else "other") +
              "|batches=" + ("same_count" if nb1 == nb2 else "other_count"))
    r1, a1 = first["rewards"], first["actions"]
    for k in ("rewards", "actions"):
        same = first[k].shape == snap[k].shape and torch.equal(first[k], snap[k])
        ctx.check(same, f"first_result_changed_by_second_call|{sl}",
                  f"{k!r} returned by the first call of the evaluator object ({N1} instances) changed during its second "
                  f"call ({N} instances): shape {tuple(snap[k].shape)} -> {tuple(first[k].shape)}")
    if not ctx.check(r1.dim() == 1 and r1.shape[0] == N1 and a1.dim() == 2 and a1.shape[0] == N1,
                     f"eval_shape|{sl}|first_call", f"rewards {tuple(r1.shape)}, actions {tuple(a1.shape)} for {N1} "
                     f"instances (loader batches {sizes1})"):
        return
    seen1 = [g["B"] for g in _groups(first_log)]
    ctx.check(seen1 == sizes1, f"eval_batches|{sl}|first_call", f"evaluator reset batches {seen1}, expected {sizes1}")
    R1, A1 = r1.double().tolist(), a1.tolist()
    for i in range(N1):
        v = _judge(name, insts1[i], A1[i], ct)
        if not _close(R1[i], v.obj, v.terms):
            ctx.violation(f"reward_not_objective_of_returned_actions|{sl}|first_call",
                          f"first call of the evaluator object, instance {i} of {N1} (loader batches {sizes1}): reported "
                          f"reward {R1[i]} but the returned actions {A1[i]} cost {v.obj} on it", {"instance": insts1[i]})


def exec_eval(case, ctx):
    """The case with a FRESH evaluator object (called once); a history case ('hist', api == "class") then once more
    with an evaluator object that has evaluated another data set before.  The second pass only runs when the first one
    passed, so a signature ending in |reused_object names a failure that needs the earlier call (and the minimiser's
    candidate without 'hist' keeps the plain signature of a failure that does not)."""
    _exec_eval(case, ctx, None)
    if case.get("hist") and case["api"] == "class":
        _exec_eval(case, ctx, case["hist"])


def _exec_eval(case, ctx, hist):
    ev = ctx.event if hist is None else (lambda *a, **k: None)  # (class counts of the case itself: first pass only)
    name, n, N, bs, method = (case[k] for k in ("env", "n", "N", "bs", "method"))
    sl = method if name in ("tsp", "cvrp") else (f"{method}|mtsp|{case['ct']}" if name == "mtsp" else f"{method}|{name}")
    env = _sized_env(name, n, case)
    ds, td0 = _dataset(case, env)
    insts = _instances(name, td0)
    policy = make_policy(case)
    log = []
    # mtsp: cost type of the env behind each spy, and the one the method reports in (sampling returns the
    # policy's own out["reward"]; every other method recomputes the reward with the evaluator's env)
    ct_of = ct = None
    if name == "mtsp":
        ct_of = {"eval": case["ct"], "policy": _policy_ct(name)}
        # every method must report in the objective of the evaluator's env (F47: sampling used to return the reward of
        # a default env that the policy rebuilt from its env name, i.e. the minmax objective for a cost_type="sum" env)
        ct = ct_of["eval"]
        ev(f"mtsp|cost_type={case['ct']}|{method}")
    warm, note = None, ""
    if hist:
        wds, wtd0 = _dataset({**case, "N": hist["N"], "dseed": hist["dseed"]}, env)
        warm = dict(ds=wds, log=log)
        sl += "|reused_object"
        note = (f" [second call of the evaluator object; its first call evaluated another data set of {hist['N']} "
                f"instances in loader batches of {hist['bs']}]")
    out = _run_eval(case, ctx, SpyEnv(env, log, "eval"), SpyPolicy(policy, log), ds, warm)
    if hist:
        # the spy log holds the calls of both evaluations: everything below refers to the second one only
        first_log, log = log[:warm["mark"]], log[warm["mark"]:]
        _first_call(case, ctx, env, hist, warm, first_log, _instances(name, wtd0), ct, sl)

    groups = _groups(log)
    seen = [g["B"] for g in groups]
    if case.get("auto"):
        # automatic batch size: the effective loader batch size b is read from the evaluator's reset calls.  Contract
        # (docstring of get_automatic_batch_size): max_batch_size is "the practical maximum batch size",
        # start_batch_size "the theoretical maximum" for all rollouts of a batch together; the loader keeps every
        # instance in order (b, b, ..., rest).
        mx, start, ratio = case["auto"]["max"], case["auto"]["start"], _ratio(case)
        b = seen[0] if seen else 0
        sizes = [min(b, N - s) for s in range(0, N, b)] if b >= 1 else []
        ctx.check(seen == sizes, f"auto_batch_size|batches|{sl}",
                  f"evaluator reset batches {seen} for {N} instances are not (b, ..., b, rest)")
        ctx.check(1 <= b <= mx, f"auto_batch_size|exceeds_max_batch_size|{sl}",
                  f"effective loader batch size {b} with max_batch_size={mx}, start_batch_size={start}, "
                  f"{ratio} rollouts per instance")
        ctx.check(b * ratio <= start, f"auto_batch_size|exceeds_start_batch_size|{sl}",
                  f"effective loader batch size {b} x {ratio} rollouts per instance > start_batch_size={start}")
        ev(f"auto_batch_size|b={'1' if b == 1 else ('>=N' if b >= N else 'k')}|"
                  f"cap={'max' if mx < start // max(ratio, 1) else 'start'}")
        if "multistart" in method:
            ns_eff = case["ns"] if case.get("ns") is not None else case["n"]
            ev(f"auto_batch_size|multistart|num_starts{'<10' if ns_eff < 10 else '>=10'}")
        bs = b
        if seen != sizes:
            return
    else:
        sizes = [min(bs, N - s) for s in range(0, N, bs)]
    batching = "single_batch" if len(sizes) == 1 else ("partial_last_batch" if N % bs else "batches_divide")
    ev(f"method={method}|{case['api']}")
    ev(f"env={name}|data={case['data']}")
    ev(batching)
    for k in ("top_p", "softmax_temp", "feats", "fd8", "inner_na"):
        if case.get(k) not in (None, 0.0) or (k in case and k in ("softmax_temp", "fd8")):
            ev(f"kwarg|{k}")

    rewards, actions = out["rewards"], out["actions"]
    if not ctx.check(rewards.dim() == 1 and rewards.shape[0] == N and actions.dim() == 2 and actions.shape[0] == N,
                     f"eval_shape|{sl}", f"rewards {tuple(rewards.shape)}, actions {tuple(actions.shape)} for "
                     f"{N} instances (loader batches {sizes}){note}"):
        return
    if not ctx.check(seen == sizes, f"eval_batches|{sl}",
                     f"evaluator reset batches {seen}, expected {sizes}{note}"):
        return
    if hist and warm["snap"]["actions"].dim() == 2:
        # EvalBase pads to the longest action row of ONE call: do the two data sets need different widths?
        w1, w2 = warm["snap"]["actions"].shape[1], actions.shape[1]
        ctx.event("history:action_width_first_call=" + ("narrower" if w1 < w2 else "same" if w1 == w2 else "wider"))
    if name in MORE_ENVS:
        # EvalBase pads the action tensors of the loader batches to a common length with zeros
        lens = {len(_strip(a)) for a in actions.tolist()}
        ev("padded_variable_length" if len(lens) > 1 else "equal_length")
    cands = _candidates(ctx, name, groups, insts, sizes, sl, ct_of, ct)
    if "multistart" in method:
        # the candidate set is the REQUESTED one: num_starts forced first moves per (augmented) instance - the largest
        # get_reward call of a loader batch holds all rollouts of that batch
        ns_eff = case["ns"] if case.get("ns") is not None else case["n"]
        for g, Bj in zip(groups, sizes):
            per = max((R for _, _, R, _, _ in g["calls"]), default=0) // max(Bj, 1)
            ctx.check(per % ns_eff == 0 and (method != "multistart_greedy" or per == ns_eff), f"candidate_count|{sl}",
                      f"num_starts={ns_eff} requested ({'explicitly' if case.get('ns') is not None else 'default'}) but "
                      f"{per} rollouts per instance were decoded for a loader batch of {Bj}")
        ev(f"candidate_count_checked|{'explicit' if case.get('ns') is not None else 'default'}_num_starts|{case['api']}")
    greedy = _greedy_reference(case, policy, env, td0, sizes)

    R = rewards.double().tolist()
    A = actions.tolist()
    differ = first_not_best = False
    for i in range(N):
        # (1) reported reward is the objective of the returned actions on original instance i
        v = _judge(name, insts[i], A[i], ct)
        bad = v.bad(1e-4)
        ctx.check(not bad, f"returned_actions_infeasible|{sl}",
                  f"instance {i}: returned actions {A[i]} are not a solution of it: {bad}{note}", {"instance": insts[i]})
        if not _close(R[i], v.obj, v.terms):
            ctx.violation(f"reward_not_objective_of_returned_actions|{sl}",
                          f"instance {i} of {N} (loader batches {sizes}): reported reward {R[i]} but the returned "
                          f"actions {A[i]} cost {v.obj} on it{note}", {"instance": insts[i]})
        # (2) it is the maximum over the instance's candidate rollouts
        objs = [c[0] for c in cands[i]]
        if not ctx.check(len(objs) > 0, f"no_candidates|{sl}", f"no get_reward call observed for instance {i}"):
            continue
        best = max(objs)
        if not _close(R[i], best, v.terms):
            side = "below" if R[i] < best else "above"
            ctx.violation(f"not_best_of_candidates|{sl}|{side}",
                          f"instance {i}: reported reward {R[i]} vs maximum {best} over its {len(objs)} candidate "
                          f"rollouts (objectives {sorted(set(round(o, 6) for o in objs))})")
        ctx.check(_key(name, A[i]) in {c[1] for c in cands[i]}, f"returned_actions_not_a_candidate|{sl}",
                  f"instance {i}: returned actions {A[i]} were never rolled out for it")
        if max(objs) - min(objs) > 1e-6:
            differ = True
        if best - objs[0] > 1e-6:
            first_not_best = True
        # (3) never worse than single greedy decoding when that rollout is among the candidates
        gk = _key(name, greedy[i])
        gv = _judge(name, insts[i], greedy[i], ct)
        if gk in {c[1] for c in cands[i]}:
            ev(f"greedy_among_candidates|{method}")
            if not R[i] >= gv.obj - 1e-5 * (1 + gv.terms):
                ctx.violation(f"worse_than_greedy|{sl}", f"instance {i}: reported {R[i]} < greedy {gv.obj} although "
                              f"the greedy rollout {greedy[i]} is among the candidates")
        else:
            ev(f"greedy_not_among_candidates|{method}")
    if differ:
        ev("candidates_differ")
    if first_not_best:  # the best rollout of some instance is not the first one recorded for it (copy/sample 0)
        ev("best_is_not_first_candidate" + ("|mtsp|" + case["ct"] if name == "mtsp" else ""))
    if hist is not None:
        ctx.event("history:second_call_" + ("nontrivial" if batching == "partial_last_batch" and differ else "plain"))
        return
    if batching == "partial_last_batch" and differ:
        ctx.nontriv()
    ctx.sample({k: v for k, v in case.items() if k not in ("pseed", "dseed", "tseed")})


def _min_eval(case):
    if "hist" in case:
        yield {k: v for k, v in case.items() if k != "hist"}  # (does it need the earlier call of the object at all?)
        h = case["hist"]
        for key, val in (("N", 1), ("N", 2), ("bs", 1), ("bs", case["bs"])):
            if h[key] != val:
                yield {**case, "hist": {**h, key: val}}
    for key, val in (("N", 1), ("N", 2), ("N", 3), ("N", max(1, case["N"] - 1)), ("bs", 1), ("bs", 2), ("n", 4),
                     ("E", 16), ("spread", 1.0), ("data", "tdd"), ("api", "class"), ("env", "tsp"),
                     ("na", 2), ("ns", 2), ("samples", 2), ("temperature", 1.0), ("top_k", 0)):
        if key in case and case[key] != val:
            if key == "na" and "dihedral" in case["method"]:
                continue
            c = {**case, key: val}
            if key == "E":
                c["H"] = 2
            if case.get("auto") and key in ("n", "ns", "na", "samples", "bs"):
                continue  # (start_batch_size was drawn as a multiple of the rollouts per instance)
            if key == "n" and case["env"] == "pdp":
                continue
            if key == "env":  # (mtsp -> tsp: drop the mtsp-only keys)
                if _state_reward(case) or case["env"] in MORE_ENVS:
                    continue
                c.pop("ct", None), c.pop("agents", None)
            if c.get("agents"):
                c["agents"] = [min(c["agents"][0], c["n"] - 1), min(c["agents"][1], c["n"] - 1)]
            if c.get("ns") is not None:
                c["ns"] = min(c["ns"], _max_starts(c))
            yield c


# =========================================================================== B2. select_best in a direct policy call
SEL_ENVS = ["mtsp", "mtsp", "mtsp", "tsp", "cvrp"]
SEL_MODES = ["samples", "samples", "ms_sampling", "ms_greedy"]


@st.composite
def sel_cases(draw, tier="quick"):
    c = _draw_env(draw, SEL_ENVS)
    E = draw(st.sampled_from([16, 32]))
    mode = draw(st.sampled_from(SEL_MODES))
    kmax = 6 if mode == "samples" else min(6, _max_starts(c))
    c.update(B=draw(st.integers(1, 6)), mode=mode, k=draw(st.one_of(st.integers(2, kmax), st.integers(1, kmax))),
             E=E, H=draw(st.sampled_from([1, 2] if E == 16 else [2, 4])),
             spread=draw(st.sampled_from([1.0, 1.25, 1.5])),
             temperature=draw(st.sampled_from([1.0, 1.0, 2.0])), top_k=draw(st.sampled_from([0, 0, 3])),
             pseed=draw(SEED), dseed=draw(SEED), tseed=draw(SEED))
    return c


def _sel_call(case, policy, env, td, select_best):
    kw = dict(temperature=case["temperature"], top_k=case["top_k"], select_best=select_best)
    if case["mode"] == "samples":
        kw.update(decode_type="sampling", num_samples=case["k"])
    else:
        kw.update(decode_type="multistart_sampling" if case["mode"] == "ms_sampling" else "multistart_greedy",
                  num_starts=case["k"])
    torch.manual_seed(case["tseed"])
    with torch.inference_mode():
        return policy(td.clone(), env, **kw)


def exec_sel(case, ctx):
    """policy(td, env, ..., select_best=True): docstring of the decoding strategies -- 'select_best: whether to
    select the best action or return all'.  Per instance the k rollouts are reduced to the best one; reward,
    actions (and the final state the reward is read from) must all belong to that rollout."""
    name, n, B, k, mode = (case[x] for x in ("env", "n", "B", "k", "mode"))
    ct = case.get("ct")
    sl = f"{mode}|{name}" + (f"|{ct}" if ct else "")
    env = _sized_env(name, n, case)
    policy = make_policy(case)
    torch.manual_seed(case["dseed"])
    td0 = env.generator(B)
    insts = _instances(name, td0)
    td = env.reset(td0.clone())
    log = []
    spy = SpyEnv(env, log, "policy")
    out = ctx.guard(_sel_call, case, policy, spy, td, True, what=f"policy|select_best|{sl}")
    ctx.event(f"{sl}|k={'1' if k == 1 else 'k'}")
    rewards, actions = out["reward"], out["actions"]
    if not ctx.check(rewards.dim() == 1 and rewards.shape[0] == B and actions.dim() == 2 and actions.shape[0] == B,
                     f"select_best_shape|{sl}", f"reward {tuple(rewards.shape)}, actions {tuple(actions.shape)} for "
                     f"B={B}, k={k} with select_best=True"):
        return
    calls = [r for r in log if r[0] == "reward"]
    ct_of = {"policy": ct, "all": ct} if name == "mtsp" else None
    # (a) every rollout as the selection saw it (get_reward spy; row r <-> instance r mod B verified)
    cands = _candidates(ctx, name, [{"B": B, "calls": calls}], insts, [B], f"select_best|{sl}", ct_of, ct)
    # (b) the same rollouts once more: same torch seed, select_best=False returns all k*B of them
    allout = ctx.guard(_sel_call, case, policy, env, td, False, what=f"policy|select_all|{sl}")
    keff = k if k > 1 else 1
    Rall, Aall = allout["reward"].reshape(-1), allout["actions"]
    if not ctx.check(Rall.shape[0] == keff * B and Aall.shape[0] == keff * B, f"select_all_shape|{sl}",
                     f"select_best=False returned {tuple(Rall.shape)} rewards / {tuple(Aall.shape)} actions for "
                     f"B={B}, k={k}"):
        return
    rec = ("reward", "all", keff * B, Aall, Rall)
    cands2 = _candidates(ctx, name, [{"B": B, "calls": [rec]}], insts, [B], f"select_all|{sl}", ct_of, ct)

    R = rewards.double().tolist()
    A = actions.tolist()
    first_not_best = False
    for i in range(B):
        v = _judge(name, insts[i], A[i], ct)
        bad = v.bad(1e-4)
        ctx.check(not bad, f"returned_actions_infeasible|select_best|{sl}",
                  f"instance {i}: returned actions {A[i]} are not a solution of it: {bad}", {"instance": insts[i]})
        if not _close(R[i], v.obj, v.terms):
            ctx.violation(f"reward_not_objective_of_returned_actions|select_best|{sl}",
                          f"instance {i} of B={B}, k={k}: returned reward {R[i]} but the returned actions {A[i]} "
                          f"cost {v.obj} on it", {"instance": insts[i]})
        for which, cs in (("spy", cands[i]), ("select_all", cands2[i])):
            objs = [c[0] for c in cs]
            if not ctx.check(len(objs) >= keff, f"no_candidates|select_best|{sl}",
                             f"instance {i}: {len(objs)} candidate rollouts observed ({which}), k={k}"):
                continue
            best = max(objs)
            if not _close(R[i], best, v.terms):
                side = "below" if R[i] < best else "above"
                ctx.violation(f"not_best_of_candidates|select_best|{sl}|{side}",
                              f"instance {i}: returned reward {R[i]} vs maximum {best} over its {len(objs)} "
                              f"rollouts ({which}; objectives {sorted(set(round(o, 6) for o in objs))})")
            ctx.check(_key(name, A[i]) in {c[1] for c in cs}, f"returned_actions_not_a_candidate|select_best|{sl}",
                      f"instance {i}: returned actions {A[i]} are none of its rollouts ({which})")
        # copy 0 of instance i is row i of the k*B-row batch
        o2 = [c[0] for c in cands2[i]]
        if o2 and max(o2) - o2[0] > 1e-6:
            first_not_best = True
    ctx.event("best_is_not_copy_0" if first_not_best else "best_is_copy_0_everywhere")
    if B >= 2 and k >= 2 and first_not_best:
        ctx.nontriv()
    ctx.sample({x: y for x, y in case.items() if x not in ("pseed", "dseed", "tseed")})


def _min_sel(case):
    for key, val in (("B", 1), ("B", 2), ("k", 2), ("n", 4), ("E", 16), ("spread", 1.0), ("temperature", 1.0),
                     ("top_k", 0), ("mode", "samples")):
        if case[key] != val:
            c = {**case, key: val}
            if key == "E":
                c["H"] = 2
            if c.get("agents"):
                c["agents"] = [min(c["agents"][0], c["n"] - 1), min(c["agents"][1], c["n"] - 1)]
            if c["mode"] != "samples":
                c["k"] = min(c["k"], _max_starts(c))
            yield c


# =========================================================================== C. POMO val/test step
def rot90_augmentation(xy, copies):
    """A caller-supplied augment_fn (StateAugmentation: 'if callable, then use the function directly'; called
    positionally with (feature [num_augment*B, nodes, 2], num_augment), so the parameter names are the caller's own):
    copy a of an instance (rows a*B .. a*B+B-1) is rotated by a*90 degrees about the centre of the unit square and
    mirrored for a >= 4 - exact isometries, copy 0 is the identity."""
    R = xy.shape[0]
    B = R // copies
    out = xy.clone()
    for a in range(copies):
        blk = xy[a * B:(a + 1) * B] - 0.5
        x, y = blk[..., 0], blk[..., 1]
        if a >= 4:
            x = -x
        for _ in range(a % 4):
            x, y = -y, x
        out[a * B:(a + 1) * B] = torch.stack([x, y], -1) + 0.5
    return out


@st.composite
def pomo_cases(draw, tier="quick"):
    env = draw(st.sampled_from(["tsp", "cvrp"]))
    n = draw(st.integers(4, 8))
    E = draw(st.sampled_from([16, 32]))
    # audit item 24: augment_fn as a callable; num_augment <= 1 (no augmentation at all); first_aug_identity=False;
    # feats handed over; the PolyNet val/test step
    family = draw(st.sampled_from(["dihedral8", "symmetric", "symmetric", "callable"]))
    model = draw(st.sampled_from(["pomo", "pomo", "symnco", "polynet"]))
    if family == "dihedral8":
        na = 8
    elif model == "symnco":
        na = draw(st.integers(2, 6))
    else:
        na = draw(st.one_of(st.integers(2, 6), st.integers(0, 6)))
    c = dict(env=env, n=n, B=draw(st.integers(1, 6)), E=E, H=draw(st.sampled_from([1, 2] if E == 16 else [2, 4])),
             spread=draw(st.sampled_from([1.0, 1.25, 1.5])), family=family, na=na,
             ns=draw(st.one_of(st.none(), st.integers(2, n))), phase=draw(st.sampled_from(["val", "test"])),
             model=model, pseed=draw(SEED), dseed=draw(SEED), tseed=draw(SEED))
    if model == "polynet":
        # (PolyNet(num_augment=0) raises IndexError in its val/test step - max_idxs.unsqueeze(2) on a 1-D tensor - while
        #  POMO accepts 0; PolyNet documents 1 as its "no augmentation" value (encoder_type="MatNet"): 0 is left out)
        c["na"] = max(c["na"], 1)
        c["E"], c["H"] = 32, 4
        c["K"] = draw(st.integers(2, 4))            # strategies of the policy
        c["ns"] = draw(st.integers(2, 5))           # val_num_solutions (sampled rollouts per instance and copy)
    if model != "symnco" and na >= 2 and draw(st.integers(0, 3)) == 0:
        c["fai"] = False  # first_aug_identity=False (F11: copy 1 of instance 0 is damaged, reported under F11's signature)
    if draw(st.integers(0, 3)) == 0:
        c["feats"] = ["locs"]
    # audit H6: the same model object on further batches of other sizes / phases (val -> train -> val)
    k = draw(st.sampled_from([0, 0, 1, 2]))
    if k:
        c["more"] = [dict(B=draw(st.integers(1, 6)), phase=draw(st.sampled_from(["val", "test", "train", "val"])),
                          dseed=draw(SEED), tseed=draw(SEED)) for _ in range(k)]
        # ... also with instances of ANOTHER size than the first batch (several validation sets of different sizes,
        # generalisation tests): tsp / cvrp take every size from the data, and a default num_starts must follow it
        if c["env"] in ("tsp", "cvrp") and draw(st.booleans()):
            for m_ in c["more"]:
                m_["n"] = draw(st.integers(4, 10))
    return c


def make_polynet_policy(case):
    from rl4co.models.zoo.polynet.policy import PolyNetPolicy

    torch.manual_seed(case["pseed"])
    pol = PolyNetPolicy(k=case["K"], env_name=case["env"], embed_dim=case["E"], num_encoder_layers=1,
                        num_heads=case["H"], feedforward_hidden=2 * case["E"], normalization="instance")
    with torch.no_grad():
        for p in pol.parameters():
            p.mul_(case["spread"])
    pol.eval()
    return pol


def exec_pomo(case, ctx):
    """POMO / SymNCO / PolyNet shared_step in val/test: 'max_reward' = mean over (instance, copy) of the best start,
    'max_aug_reward' = mean over instances of the best over copies x starts (absent without augmentation)."""
    from rl4co.models.zoo import POMO, PolyNet, SymNCO

    name, n, na, ns = (case[k] for k in ("env", "n", "na", "ns"))
    env = _sized_env(name, n)
    policy = make_polynet_policy(case) if case["model"] == "polynet" else make_policy(case)
    log = []
    mt = {ph: ["reward", "max_reward", "max_aug_reward"] for ph in ("val", "test")}
    fam = case["family"]
    kw = dict(num_augment=na, augment_fn=rot90_augmentation if fam == "callable" else fam, metrics=mt)
    if "feats" in case:
        kw["feats"] = list(case["feats"])
    if "fai" in case:
        kw["first_aug_identity"] = case["fai"]
    with _quiet():
        if case["model"] == "pomo":
            model = ctx.guard(POMO, env, policy, num_starts=ns, what="POMO.__init__", **kw)
        elif case["model"] == "polynet":
            model = ctx.guard(PolyNet, env, policy, k=case["K"], val_num_solutions=ns, what="PolyNet.__init__", **kw)
        else:
            model = ctx.guard(SymNCO, env, policy, num_starts=0 if ns is None else ns, what="SymNCO.__init__", **kw)
        # installed after construction (hyper-parameter saving copies the env; envs are registered sub-modules)
        model._modules.pop("env", None)
        model.__dict__["env"] = SpyEnv(env, log, "model")
    steps = [dict(B=case["B"], phase=case["phase"], dseed=case["dseed"], tseed=case["tseed"])] + list(case.get("more", []))
    sizes = []
    for i, stp in enumerate(steps):
        if stp["phase"] == "train" and case["model"] == "symnco":
            continue  # (SymNCO trains only with its own SymNCOPolicy; the evaluation steps here use the AM policy)
        if stp["phase"] == "train":
            # a training step in between (same object): only required not to disturb the evaluation steps around it
            model.train()
            torch.manual_seed(stp["dseed"])
            tdt = env.generator(stp["B"])
            torch.manual_seed(stp["tseed"])
            del log[:]
            with _quiet():
                res = ctx.guard(model.shared_step, tdt, i, "train", what=f"{case['model']}.shared_step|train")
            ctx.check(res.get("loss") is not None and bool(torch.isfinite(torch.as_tensor(res["loss"]).detach()).all()),
                      f"pomo_train_step_loss|{case['model']}", f"train step between evaluation steps returned loss "
                      f"{res.get('loss')!r}")
            ctx.event("history|train_step_between")
            continue
        _pomo_eval_step(case, ctx, model, env, log, stp, i)
        sizes.append(stp["B"])
    if len(sizes) >= 2:
        ctx.event("history|same_object_" + ("other_batch_size" if len(set(sizes)) > 1 else "same_batch_size"))
    ctx.sample({k: v for k, v in case.items() if k not in ("pseed", "dseed", "tseed")})


def _pomo_eval_step(case, ctx, model, env, log, stp, idx):
    name, n, na, ns = (case[k] for k in ("env", "n", "na", "ns"))
    B, ph = stp["B"], stp["phase"]
    fai = case.get("fai", True)
    na_eff = na if na > 1 else 1  # num_augment <= 1: no augmentation, one copy
    torch.manual_seed(stp["dseed"])
    if stp.get("n") is not None and stp["n"] != n:
        n = stp["n"]  # this batch holds instances of another size than the model's env was configured for
        td0 = _sized_env(name, n).generator(B)
        ctx.event("history|same_object_other_instance_size")
    else:
        td0 = env.generator(B)
    insts = _instances(name, td0)
    del log[:]
    model.eval()
    with _quiet():
        torch.manual_seed(stp["tseed"])
        with torch.inference_mode():
            out = ctx.guard(model.shared_step, td0.clone(), idx, ph, what=f"{case['model']}.shared_step|{ph}")
    sl = f"{case['model']}|{case['family']}"
    if idx == 0:
        ctx.event(f"{sl}|{ph}|ns={'auto' if ns is None else 'k'}")
        ctx.event(f"num_augment={'<=1' if na <= 1 else 'k'}|first_aug_identity={fai}|feats={'given' if 'feats' in case else 'default'}")
    calls = [r for r in log if r[0] == "reward"]
    if not ctx.check(len(calls) >= 1, f"pomo_no_candidates|{sl}", "no get_reward call observed"):
        return
    k_starts = ns if ns is not None else (n if case["model"] == "pomo" else 1)
    rec = calls[-1]
    Rrows = rec[2]
    if not ctx.check(Rrows == B * na_eff * k_starts, f"pomo_candidate_count|{sl}",
                     f"{Rrows} rollouts for B={B}, num_augment={na}, num_starts={k_starts}"):
        return
    A = rec[3].tolist()
    # first_aug_identity=False: StateAugmentation overwrites node 0 of row B (copy 1 of instance 0) with un-augmented
    # coordinates (finding F11).  The rollouts of that copy (one per start) are then evaluated by the env on a damaged
    # instance; they are reported under F11's signature and taken with the reward the library saw.
    damaged = set()
    if not fai and na_eff >= 2:
        rw = rec[4].reshape(-1).double().tolist()
        for s in range(k_starts):
            r = s * (B * na_eff) + 1 * B + 0
            v = _judge(name, insts[0], A[r])
            if not _close(rw[r], v.obj, v.terms, 1e-4):
                damaged.add(r)
        if damaged:
            ctx.event("F11_damaged_copy_in_model_step")
            ctx.violation(f"aug_not_isometric|first_aug_identity=False|row_B_node0_overwritten|{case['model']}_step",
                          f"{case['model']}(first_aug_identity=False, num_augment={na}): the rollouts of copy 1 of instance 0 "
                          f"are rewarded on a damaged copy (rows {sorted(damaged)[:4]})")
    groups = [{"B": B, "calls": [c for c in calls]}]
    if damaged:  # keep the damaged rows out of the row-mapping verification
        groups = [{"B": B, "calls": []}]
        cands = [[] for _ in insts]
        for _, tag, R_, acts_, rew_ in calls:
            AA, rr = acts_.tolist(), rew_.reshape(-1).double().tolist()
            for r in range(R_):
                if r in damaged and R_ == Rrows:
                    cands[r % B].append((rr[r], _key(name, AA[r]), tag))
                    continue
                v = _judge(name, insts[r % B], AA[r])
                if not _close(rr[r], v.obj, v.terms, 1e-4):
                    ctx.violation(f"candidate_row_mapping|pomo|{sl}|{tag}",
                                  f"row {r} of a {R_}-row get_reward call has reward {rr[r]} but its actions cost {v.obj} "
                                  f"on original instance {r % B}")
                cands[r % B].append((v.obj, _key(name, AA[r]), tag))
    else:
        cands = _candidates(ctx, name, groups, insts, [B], f"pomo|{sl}")
    # oracle regrouping: row = s*(na*B) + a*B + b  (policy batchifies the augmented batch by num_starts)
    obj = {}
    rwl = rec[4].reshape(-1).double().tolist()
    for r in range(Rrows):
        b, a, s = r % B, (r // B) % na_eff, r // (B * na_eff)
        obj[b, a, s] = rwl[r] if r in damaged else _judge(name, insts[b], A[r]).obj
    best_start = [[max(obj[b, a, s] for s in range(k_starts)) for a in range(na_eff)] for b in range(B)]
    want_max = sum(sum(row) for row in best_start) / (B * na_eff)
    want_aug = sum(max(row) for row in best_start) / B
    got_max = out.get(f"{ph}/max_reward")
    got_aug = out.get(f"{ph}/max_aug_reward")
    if na_eff >= 2:
        if not ctx.check(got_aug is not None, f"pomo_metrics_missing|{sl}", f"metrics {sorted(out.keys())}"):
            return
        ctx.check(abs(float(got_aug) - want_aug) <= 1e-4 * (1 + abs(want_aug)), f"pomo_max_aug_reward|{sl}",
                  f"max_aug_reward {float(got_aug)} != mean over instances of the best over copies x starts {want_aug}")
    else:
        ctx.check(got_aug is None, f"pomo_max_aug_reward|{sl}|no_augmentation",
                  f"max_aug_reward {got_aug} reported although num_augment={na} switches augmentation off")
    if k_starts > 1:
        ok = got_max is not None and abs(float(got_max) - want_max) <= 1e-4 * (1 + abs(want_max))
        if case["model"] in ("pomo", "polynet"):
            ctx.check(ok, f"pomo_max_reward|{sl}",
                      f"max_reward {got_max} != mean over (instance, copy) of the best start {want_max}")
        else:
            # SymNCO regroups (n_start, n_aug) although rows are laid out start-major (observation, cf. O1): its
            # 'max_reward' is a mean of partial maxima over a different partition of the same candidates.  Counted only.
            ctx.event("symnco_max_reward=" + ("best_start_per_copy" if ok else "other_partition"))
    differ = any(max(c[0] for c in cs) - min(c[0] for c in cs) > 1e-6 for cs in cands if cs)
    if B >= 2 and differ:
        ctx.nontriv()


def _min_pomo(case):
    if case.get("more"):
        yield {**case, "more": case["more"][:-1]}
    for key, val in (("B", 1), ("B", 2), ("n", 4), ("E", 16), ("spread", 1.0), ("env", "tsp"), ("ns", 2), ("na", 2),
                     ("model", "pomo")):
        if key in case and case[key] != val:
            if key == "na" and case["family"] == "dihedral8":
                continue
            if case["model"] == "polynet" and key in ("E", "model"):
                continue
            c = {**case, key: val}
            if key == "E":
                c["H"] = 2
            if c.get("ns") is not None:
                c["ns"] = min(c["ns"], c["n"])
            yield c


def preimport():
    from rl4co.data import transforms  # noqa
    from rl4co.models import AttentionModelPolicy  # noqa
    from rl4co.models.zoo import POMO, SymNCO  # noqa
    from rl4co.tasks import eval as _e  # noqa

    from rl4co.models.zoo import PolyNet  # noqa

    for name in ("tsp", "cvrp", "mtsp"):
        _default_env(name)


SUBS = [
    Sub("transforms", exec_aug, strategy=lambda tier: aug_cases(tier),
        budget={"quick": 30016, "thorough": 100000}, shards=16),
    Sub("evaluation", exec_eval, strategy=lambda tier: eval_cases(tier),
        budget={"quick": 1600, "thorough": 4800}, shards=16, shrink=False, minimize=_min_eval, weight=3.0),
    Sub("select_best", exec_sel, strategy=lambda tier: sel_cases(tier),
        budget={"quick": 640, "thorough": 2400}, shards=8, shrink=False, minimize=_min_sel, weight=1.5),
    Sub("pomo_step", exec_pomo, strategy=lambda tier: pomo_cases(tier),
        budget={"quick": 512, "thorough": 1600}, shards=8, shrink=False, minimize=_min_pomo, weight=2.0),
]
