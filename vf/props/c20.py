"""C20 — running statistics and stateful baselines are exact for any training history.

Targets
    rl4co.models.rl.common.utils.RewardScaler                      (batched Welford + scaling)
    rl4co.models.rl.reinforce.baselines.{No,Shared,Exponential,Mean,Warmup}Baseline
    rl4co.models.rl.reinforce.reinforce.REINFORCE.calculate_loss   (how both are wired together)

Semantics derived from the code, the docstrings and the callers (all asserted below):
  * RewardScaler.__call__ first *updates* the statistics with the current batch and then transforms that batch,
    i.e. "all values observed so far" includes the batch being scaled (reinforce.py / stepwise_ppo.py rely on a
    single call per batch).  std = sqrt(M2/(count-1)) (sample std; NaN for count == 1 exactly like torch.std of
    one element), output = (x-mean)/(std+eps) | x/(std+eps) | x/int | x, eps = finfo(x.dtype).eps.
  * ExponentialBaseline: v_0 = mean(reward_0), v_t = beta v_{t-1} + (1-beta) mean(reward_t), returned detached,
    loss 0.  MeanBaseline() is the beta = 0 instance.  SharedBaseline: mean over dim 1 (keepdims).  NoBaseline: (0,0).
  * WarmupBaseline: alpha = 0 initially, epoch_callback(epoch=e) forwards to the inner baseline and sets
    alpha = (e+1)/n_epochs (<= 1); eval returns alpha*inner + (1-alpha)*ema for value and loss, consults only the
    EMA at alpha == 0 and only the inner baseline at alpha == 1.

Histories are Hypothesis RuleBasedStateMachine runs recorded as replayable op lists (vf.stateful).

Round 3b (audit items 20, 35, H4): per-batch dtypes inside one history (float32 <-> float64, float16 / bfloat16 on a
small lattice), 0-dim and [B,A,S] batches, [B,1] and python-number inner values under the warm-up baseline, copies
(deepcopy / pickle) in the middle of a history with both copies continuing, nn.Module casts, WarmupBaseline.setup
(twice), SharedBaseline(on_dim=...), the registry branch "warmup", calculate_loss(reward=, log_likelihood=) and
batch["extra"] in front of stateful baselines.
"""
import copy
import math
import pickle
import types

import hypothesis.strategies as st
import numpy as np
import torch

from ..runner import Sub, ops_minimizer
from ..stateful import make_machine, run_history

PROPERTY = "C20"
RULE = (
    "histories = state-machine runs (quick <=20, thorough <=50 ops) over RewardScaler(scale in norm|scale|int|None, "
    "float32|float64) with observe(batch): batch size 1-50 (size 1 also as very first batch), shapes [n]/[n,1]/[a,b], "
    "values from lattice k/8, gaussian(mu,sigma), constant (own value or the history's value), large offset 1e3+-1e-2, "
    "mixed magnitudes 1e-3..1e4, or explicit short lists; over ExponentialBaseline/MeanBaseline (beta in [0,1] incl. "
    "0 and 1, rewards with and without grad, [B] and [B,S]); over WarmupBaseline (n_epochs 1-5, direct constructor or "
    "get_reinforce_baseline('rollout') factory, stub inner baseline, epoch_callback(epoch=e) with arbitrary e in 0..n+2 "
    "as well as consecutive epochs, eval, wrap_dataset); plus flat cases for No/Shared/Mean baselines and for "
    "REINFORCE.calculate_loss with 1-4 consecutive batches. Round 3b: every scaler batch may come in its own dtype "
    "(float32/float64 anywhere; float16/bfloat16 batches and accumulators in small-lattice histories, values k/8 in "
    "[-2,2]), shapes also 0-dim and [B,A,S]; EMA batches in float32/float64 per eval; mid-history deepcopy/pickle of "
    "scaler / EMA / warm-up baseline with BOTH copies continuing (observe_twin / eval_twin), nn.Module casts "
    "(.double()/.float()/.to) of the EMA baseline, WarmupBaseline.setup (also twice); warm-up inner values [B,1] against "
    "[B,S] rewards and python numbers (NoBaseline); SharedBaseline(on_dim=-1|last|tuple); registry branch 'warmup' "
    "(Warmup(Warmup(stub)), 0-5 epoch callbacks); calculate_loss(reward=, log_likelihood=) with decoy policy_out; "
    "batch['extra'] in front of exponential/mean/warm-up baselines. Non-trivial = scaler history with >=3 batches of >=2 "
    "distinct sizes / baseline history with >=2 evals (warm-up: >=2 evals and >=1 epoch callback); distinct = distinct "
    "history hash."
)

DT = {"f32": torch.float32, "f64": torch.float64, "f16": torch.float16, "bf16": torch.bfloat16}
EPS = {k: float(torch.finfo(v).eps) for k, v in DT.items()}
TINY = {k: float(torch.finfo(v).tiny) for k, v in DT.items()}
HALF = ("f16", "bf16")
EPS32 = EPS["f32"]
C_M2 = 32.0          # |M2 - ref| <= C_M2 * N * eps * max|x|^2   (observed worst ratio on 150k random steps: 1.9)
NOISE_FLOOR = 1e-6   # outputs compared against reference statistics only if std_ref > NOISE_FLOOR * max|x| ...
MAX_REL_VAR = 0.1    # ... and the forward bound on M2 is below this fraction of the reference M2

ASSUMPTIONS = [
    "all observed values finite, |x| in {0} u [2^-10, 1e5]; batch sizes 1-50; per-batch dtype: the accumulators keep the "
    "dtype of the first batch and every update runs in the coarser of (accumulator, batch) dtype, so all bounds use the "
    "eps of the coarsest dtype seen so far and the output keeps the dtype of its input; float16/bfloat16 only in "
    "histories whose values are all k/8, |k| <= 16 (float16 squares deviations: overflow at 65504 is outside the domain)",
    "copies: deepcopy and pickle round trips are the supported persistence routes (copy.copy shares the accumulator "
    "tensors by Python semantics and is not asserted); after a copy each object is checked against its own model",
    "warm-up inner value shapes: [B], 0-dim, [B,1] (reward [B,S]) and python numbers; value = alpha*inner + (1-alpha)*ema "
    "must broadcast to the reward shape; with python-number inner outputs the alpha == 1 result is that number itself",
    "registry 'warmup': n_epochs is forwarded to both warm-up levels, warmup_exp_beta configures the outer moving average "
    "(the inner one reads exp_beta; not asserted); get_reinforce_baseline('warmup', baseline=...) raises (audit section C)",
    "batch['extra'] present: calculate_loss uses it as the baseline value and must not evaluate (advance) the model's own "
    "baseline (docstring: extra = 'additional loss terms, e.g., REINFORCE baseline')",
    "statistics are updated with the current batch before that batch is transformed (code order; single call per batch "
    "in reinforce.py and stepwise_ppo.py)",
    "reference = float64 two-pass mean / corrected sum of squares (math.fsum) over the exactly up-cast observed values",
    "running mean: |mean - ref| <= eps * max|x| * sum_t((n_t+1) n_t/count_t + 1) (worst-case bound for the batched "
    "update in the input dtype, eps = 1.19e-7 float32 / 2.2e-16 float64)",
    f"M2: |M2 - ref| <= {C_M2:g} * N * eps * max|x|^2 + N*tiny for both dtypes (first-order forward-error bound with a 16x "
    "margin over the worst ratio observed; for float64 this is tighter than the 1e-9 relative bound of the design whenever "
    "std >= 3e-3*max|x| and replaces the absolute 1e-9*n*max|x|^2 bound elsewhere)",
    "count == 1: sample std undefined -> NaN output is the asserted behaviour (same as torch.std); count >= 2: NaN is a violation",
    "output is always compared with the stated transformation evaluated (float64) on the scaler's own accumulators "
    "(tolerance 8*eps32*|out|, the implementation takes the square root in float32 for every input dtype); it is compared "
    f"with the transformation evaluated on the reference statistics only when std_ref > {NOISE_FLOOR:g}*max|x| and the M2 "
    f"bound is below {MAX_REL_VAR:g}*M2_ref (tolerance derived from the two accumulator bounds); otherwise accumulators only",
    "in-place modification of the input is asserted absent for scale='norm', int and None only (scale='scale' divides in "
    "place; REINFORCE passes a fresh tensor) and is merely counted for 'scale'",
    "EMA one-step tolerance eps*max|x|*(n/2+8) against the actual previous state, closed form against the float64 model "
    "with the sum of the one-step tolerances",
    "WarmupBaseline: whether the EMA sees batches evaluated at alpha == 1 is unspecified; the model re-reads the EMA state "
    "after such evals; inner baseline is a stub REINFORCEBaseline returning known value/loss and counting calls",
    "epoch_callback(epoch=e) is expected to leave alpha == min(1,(e+1)/n_epochs) for every e >= 0, also when epochs arrive "
    "out of order or skip the warm-up window (resumed runs)",
]
TIME_CAP = {"quick": 300, "thorough": 2400}


def preimport():
    import rl4co.models.rl.common.utils  # noqa
    import rl4co.models.rl.reinforce.baselines  # noqa
    import rl4co.models.rl.reinforce.reinforce  # noqa


def evidence_extra(tier):
    return {"tolerances": {"C_M2": C_M2, "noise_floor": NOISE_FLOOR, "max_rel_var": MAX_REL_VAR,
                           "eps32": EPS32, "eps64": EPS["f64"]}}


# --------------------------------------------------------------------------- strategies
_lattice = st.integers(-512, 512).map(lambda k: k / 8.0)
_mag = st.one_of(st.floats(2.0 ** -10, 100.0, width=32), st.floats(-100.0, -(2.0 ** -10), width=32))
_special = st.sampled_from([0.0, 0.1, -0.1, 0.3, 0.7, 1e-3, 1e3, 1000.01, -2.7, 5.0, 1.0])
_offset = st.floats(-1e-2, 1e-2).map(lambda d: 1e3 + d)
_value = st.one_of(_lattice, _mag, _special, _offset)
# (one batch in sixteen is large: multi-start rewards [1024, 100] arrive as one call of > 2**16 values - block-wise or
#  chunked accumulation inside one update only shows there)
_sizes = st.one_of(*([st.integers(1, 50), st.integers(1, 8), st.sampled_from([1, 1, 2, 3, 7, 32, 50])] * 5
                     + [st.sampled_from([4097, 65537, 70000, 102400])]))
_seed = st.integers(0, 2 ** 20)


def batch_spec():
    explicit = st.lists(_value, min_size=1, max_size=6).map(lambda v: {"vals": v})
    lattice = st.fixed_dictionaries({"fam": st.just("lattice"), "n": _sizes, "seed": _seed})
    gauss = st.fixed_dictionaries({"fam": st.just("gauss"), "n": _sizes, "seed": _seed,
                                   "mu": st.sampled_from([0.0, 0.0, 1.0, -5.0, 100.0]),
                                   "sigma": st.sampled_from([1e-2, 0.1, 1.0, 1.0, 10.0])})
    const = st.fixed_dictionaries({"fam": st.just("const"), "n": _sizes, "c": st.one_of(st.none(), st.none(), _value)})
    offset = st.fixed_dictionaries({"fam": st.just("offset"), "n": _sizes, "seed": _seed})
    mixed = st.fixed_dictionaries({"fam": st.just("mixed"), "n": _sizes, "seed": _seed})
    # "cube" = [B, A, S] (POMO / SymNCO rewards after unbatchify), "zero" = a 0-dim tensor (one value)
    shape = st.sampled_from(["flat", "flat", "col", "mat", "cube", "zero"])
    return st.tuples(st.one_of(explicit, lattice, gauss, const, offset, mixed), shape).map(
        lambda t: {**t[0], "shape": t[1]})


def build_values(spec, c0=0.1):
    """float64 numpy values of a batch spec (deterministic; torch RNG seeded from the spec only)."""
    if "vals" in spec:
        return np.asarray([float(v) for v in spec["vals"]], dtype=np.float64)
    n, fam = int(spec["n"]), spec["fam"]
    if fam == "const":
        c = spec.get("c")
        return np.full(n, float(c0 if c is None else c), dtype=np.float64)
    g = torch.Generator().manual_seed(int(spec["seed"]))
    if fam == "lattice":
        v = torch.randint(-512, 513, (n,), generator=g).double() / 8.0
    elif fam == "gauss":
        v = float(spec["mu"]) + float(spec["sigma"]) * torch.randn(n, generator=g, dtype=torch.float64)
    elif fam == "offset":
        v = 1e3 + 1e-2 * (2 * torch.rand(n, generator=g, dtype=torch.float64) - 1)
    elif fam == "mixed":
        e = torch.randint(-3, 5, (n,), generator=g).double()
        v = torch.randn(n, generator=g, dtype=torch.float64).clamp(-8, 8) * 10.0 ** e
        v = torch.where(v.abs() < 1e-3, torch.zeros_like(v), v)
    else:
        raise ValueError(fam)
    return v.numpy()


def build_tensor(spec, dt, c0=0.1):
    t = torch.tensor(build_values(spec, c0), dtype=dt)
    n = t.numel()
    shape = spec.get("shape", "flat")
    if shape == "col":
        t = t.reshape(n, 1)
    elif shape == "mat":
        for a in (5, 4, 3, 2):
            if n % a == 0 and n > a:
                t = t.reshape(n // a, a)
                break
    elif shape == "cube":
        for a, b in ((2, 2), (3, 2), (2, 3), (4, 2), (1, 2), (1, 1)):
            if n % (a * b) == 0:
                t = t.reshape(n // (a * b), a, b)
                break
    elif shape == "zero":
        t = t[0].reshape(())
    return t


def half_values(t64):
    """Map arbitrary float64 values onto the lattice k/8, |k| <= 16: exactly representable in float16 and bfloat16, and
    small enough that float16 accumulators (sum of squared deviations of <= 1000 values) stay far below 65504."""
    k = torch.round(t64 * 8.0)
    k = torch.where(k.abs() <= 16, k, torch.remainder(k, 33.0) - 16.0)
    return k / 8.0


def fam_of(spec):
    return "explicit" if "vals" in spec else spec["fam"]


# --------------------------------------------------------------------------- reference model of the scaler
def ref_stats(vals):
    n = len(vals)
    mean = math.fsum(vals) / n
    d = vals - mean
    m2 = math.fsum(d * d) - math.fsum(d) ** 2 / n
    return mean, max(m2, 0.0)


class ScalerModel:
    """All observed values (float64) + forward-error bounds of the accumulators."""

    def __init__(self, dkey):
        self.dkey = dkey
        self.eps = EPS[dkey]
        self.tiny = TINY[dkey]
        self.vals = np.zeros(0, dtype=np.float64)
        self.sizes = []
        self.coef_mean = 0.0
        self.bkey = dkey       # dtype of the batch being observed
        self.switched = False  # some batch arrived in another dtype than the history's first one

    def set_dtype(self, bkey):
        """dtype of the next batch.  The accumulators keep the dtype of the first batch and every update is carried out
        in the coarser of (accumulator dtype, batch dtype): all bounds use the eps of the coarsest dtype seen so far."""
        if bkey != self.bkey or bkey != self.dkey:
            self.switched = True
        if not self.sizes:
            self.dkey = bkey
        self.bkey = bkey
        self.eps = max(self.eps, EPS[bkey]) if self.sizes else EPS[bkey]
        self.tiny = max(self.tiny, TINY[bkey]) if self.sizes else TINY[bkey]

    def observe(self, x):
        v = x.detach().reshape(-1).double().numpy()
        self.vals = np.concatenate([self.vals, v])
        self.sizes.append(len(v))
        n, cnt = len(v), len(self.vals)
        self.coef_mean += (n + 1) * n / cnt + 1.0

    @property
    def N(self):
        return len(self.vals)

    def bounds(self):
        mx = float(np.abs(self.vals).max()) if self.N else 0.0
        bm = self.eps * mx * self.coef_mean
        bM2 = C_M2 * self.N * self.eps * mx * mx + self.N * self.tiny
        return mx, bm, bM2

    def check_accumulators(self, s, ctx, tag):
        """count / mean / M2 of the real scaler against the model.  Returns (mean_ref, M2_ref, mx, bm, bM2)."""
        N = self.N
        ctx.check(int(s.count) == N, f"count|{tag}", f"count={s.count} after observing {N} values")
        mean_ref, M2_ref = ref_stats(self.vals)
        mx, bm, bM2 = self.bounds()
        mean, M2 = float(s.mean), float(s.M2)
        ctx.check(abs(mean - mean_ref) <= bm, f"running_mean|{tag}",
                  f"running mean {mean!r} != mean of all {N} observed values {mean_ref!r} (bound {bm:.3g})",
                  {"sizes": self.sizes, "err": abs(mean - mean_ref), "bound": bm})
        ctx.check(abs(M2 - M2_ref) <= bM2, f"running_M2|{tag}",
                  f"M2={M2!r} but sum of squared deviations of all {N} values is {M2_ref!r} (bound {bM2:.3g}); "
                  f"var {M2 / max(N - 1, 1)!r} vs sample variance {M2_ref / max(N - 1, 1)!r}",
                  {"sizes": self.sizes, "err": abs(M2 - M2_ref), "bound": bM2})
        return mean_ref, M2_ref, mx, bm, bM2

    def condition(self, M2_ref, mx, bM2):
        if self.N >= 2 and float(self.vals.max()) == float(self.vals.min()):
            return "const"
        std_ref = math.sqrt(M2_ref / max(self.N - 1, 1))
        if std_ref <= NOISE_FLOOR * mx or bM2 > MAX_REL_VAR * M2_ref:
            return "illcond"
        return "wellcond"

    def check_output(self, s, kind, x_in, out, ctx, tag):
        """`out` = scaler(x) for kind in (norm, scale), after self.observe(x_in) and the accumulator check.
        Returns False if the comparison could not be carried out (NaN finding that is listed as known)."""
        dkey, eps = self.bkey, self.eps
        eps_out = EPS[self.bkey]  # finfo(scores.dtype).eps, the term added to the std; also the output's resolution
        N = self.N
        mean_ref, M2_ref, mx, bm, bM2 = self.check_accumulators(s, ctx, tag)
        x64 = x_in.double()
        o64 = out.detach().double()
        ctx.check(out.shape == x_in.shape and out.dtype == x_in.dtype, f"out_shape_dtype|{tag}",
                  f"output {tuple(out.shape)} {out.dtype} for input {tuple(x_in.shape)} {x_in.dtype}")
        if N == 1:
            ctx.event("op:count1_nan_expected")
            ctx.check(bool(torch.isnan(o64).all()), f"count1_not_nan|{tag}",
                      "single observed value: sample std is undefined (torch.std -> NaN) but the output is not NaN",
                      {"out": out})
            return True
        cond = self.condition(M2_ref, mx, bM2)
        if bool(torch.isnan(o64).any()) or not bool(torch.isfinite(o64).all()):
            ok = ctx.violation(f"std_nan|{cond}|{dkey}|{kind}",
                               f"non-finite scaled output with count={N} >= 2 (M2={float(s.M2)!r}, reference "
                               f"M2={M2_ref!r}, mean={float(s.mean)!r}): running std is NaN although the sample std of "
                               f"the observed values is {math.sqrt(M2_ref / (N - 1))!r}",
                               {"sizes": self.sizes, "M2": float(s.M2), "M2_ref": M2_ref, "out": out.reshape(-1)[:8]})
            return bool(ok)
        # (b) stated transformation evaluated on the scaler's own accumulators
        var_own = max(float(s.M2) / (N - 1), 0.0)  # a negative M2 inside the accumulator bound is rounding noise around 0
        fac_own = math.sqrt(var_own) + eps_out
        num = x64 - float(s.mean) if kind == "norm" else x64
        ref_own = num / fac_own
        # (M2 / (count-1) is formed in the accumulators' dtype = dtype of the first batch, then the root in float32)
        tol_own = 8 * max(EPS32, eps_out, EPS[self.dkey]) * ref_own.abs() + 1e-300
        if self.switched or self.bkey in HALF:
            # mean / std are cast to the batch dtype before use: absolute error eps_out*(|x| + |mean|) in the numerator
            tol_own = tol_own + 2 * eps_out * (x64.abs() + abs(float(s.mean))) / fac_own
        ctx.check(bool(((o64 - ref_own).abs() <= tol_own).all()), f"transform_own|{tag}",
                  f"output is not {'(x-mean)/(std+eps)' if kind == 'norm' else 'x/(std+eps)'} for the scaler's own running "
                  f"mean/std (count={N})",
                  {"max_err": (o64 - ref_own).abs().max(), "max_ref": ref_own.abs().max(), "sizes": self.sizes})
        # (c) stated transformation evaluated on the reference statistics (well-conditioned histories only)
        if cond != "wellcond":
            ctx.event(f"op:ref_output_skipped_{cond}")
            return True
        ctx.event("op:ref_output_compared")
        std_ref = math.sqrt(M2_ref / (N - 1))
        rs = bM2 / M2_ref
        rel = 0.6 * rs + 4 * max(EPS32, eps_out)
        numr = x64 - mean_ref if kind == "norm" else x64
        ref = numr / (std_ref + eps_out)
        tol = 1.1 * ((bm if kind == "norm" else 0.0) + 2 * eps * mx) / std_ref + 1.1 * ref.abs() * rel + 1e-300
        ctx.check(bool(((o64 - ref).abs() <= tol).all()), f"transform_ref|{tag}",
                  f"output differs from the stated transformation with mean/sample-std of all {N} observed values "
                  f"(mean_ref={mean_ref!r}, std_ref={std_ref!r})",
                  {"max_err": (o64 - ref).abs().max(), "max_tol": tol.max(), "sizes": self.sizes})
        return True


# --------------------------------------------------------------------------- 1. RewardScaler machine
@st.composite
def scaler_init(draw):
    scale = draw(st.sampled_from(["norm", "norm", "norm", "scale", "scale", "int", None]))
    if scale == "int":
        scale = draw(st.sampled_from([1, 2, 3, 10, 100, 7]))
    dtype = draw(st.sampled_from(["f32", "f32", "f32", "f32", "f64", "f64", "f16", "bf16"]))
    init = {"scale": scale, "dtype": dtype, "c0": draw(_value)}
    if dtype not in HALF and draw(st.integers(0, 5)) == 0:
        init["lat"] = True  # small-lattice history: half precision batches may follow float32 / float64 ones
    return init


class ScalerH:
    def __init__(self, ctx, init):
        from rl4co.models.rl.common.utils import RewardScaler

        self.ctx = ctx
        self.init = init
        self.scale = init["scale"]
        self.dkey = init["dtype"]
        self.dt = DT[self.dkey]
        self.c0 = float(init.get("c0", 0.1))
        self.s = RewardScaler(self.scale)
        self.m = ScalerModel(self.dkey)
        self.kind = self.scale if isinstance(self.scale, str) else ("int" if isinstance(self.scale, int) else "none")
        self.tag = f"{self.kind}|{self.dkey}"
        self.fams = []
        self.n_ops = 0
        self.const_batches = 0
        self.inplace = 0
        # histories that may see float16 / bfloat16 batches keep every batch (of any dtype) on the lattice k/8, |k| <= 16:
        # a float16 update squares deviations (overflow at 65504) whatever the dtype of the accumulators
        self.half_history = self.dkey in HALF or bool(init.get("lat"))
        self.switches = 0
        self.twin = None
        self.forks = 0
        self.twin_ops = 0

    def check(self):
        if self.n_ops == 0:
            s = self.s
            self.ctx.check(s.count == 0 and float(s.mean) == 0 and float(s.M2) == 0, f"initial_state|{self.tag}",
                           "fresh scaler does not start from count=0, mean=0, M2=0")

    def _tensor(self, b, dt):
        """batch in its own dtype: dt None = the history's dtype; half precision batches live on the lattice k/8, |k| <= 16"""
        bkey = dt or self.dkey
        if bkey in HALF and not self.half_history:
            bkey = self.dkey  # (half precision batches only in histories that live on the small lattice)
        if self.half_history:
            if int(b.get("n", 0)) > 50:
                # (float16 accumulators hold at most 65504: large batches stay with float32 / float64 histories)
                b = {**b, "n": 50}
            x = half_values(build_tensor(b, torch.float64, self.c0)).to(DT[bkey])
        else:
            x = build_tensor(b, DT[bkey], self.c0)
        return bkey, x

    def _observe(self, s, m, b, dt, who=""):
        ctx = self.ctx
        bkey, x = self._tensor(b, dt)
        keep = x.clone()
        m.set_dtype(bkey)
        if m.switched:
            self.switches += 1
        tag = f"{self.kind}|{'switch' if m.switched else bkey}{who}"
        flat = keep.reshape(-1)
        if flat.numel() > 1 and bool((flat == flat[0]).all()):
            self.const_batches += 1
        out = ctx.guard(s, x, what="RewardScaler.__call__")
        ctx.event(f"op:shape={b.get('shape', 'flat')}")
        if self.kind == "none":
            ctx.check(torch.equal(out, keep) and torch.equal(x, keep), f"identity|{tag}",
                      "scale=None must return the scores unchanged", {"out": out, "in": keep})
            return
        if self.kind == "int":
            ref = keep.double() / self.scale
            ctx.check(out.dtype == keep.dtype and out.shape == keep.shape
                      and bool(((out.double() - ref).abs() <= 2 * EPS[bkey] * ref.abs()).all()), f"int_scale|{tag}",
                      f"scale={self.scale}: output is not scores/{self.scale}", {"out": out, "in": keep})
            ctx.check(torch.equal(x, keep), f"input_mutated|{tag}", "input tensor modified in place")
            return
        m.observe(keep)
        if self.kind == "norm":
            ctx.check(torch.equal(x, keep), f"input_mutated|{tag}",
                      "scale='norm' modified its input tensor in place", {"in": keep, "after": x})
        elif not torch.equal(x, keep) and not bool(torch.isnan(x).any()):
            self.inplace += 1
        m.check_output(s, self.kind, keep, out, ctx, tag)

    def do_observe(self, b, dt=None):
        self.n_ops += 1
        self.fams.append(fam_of(b))
        self._observe(self.s, self.m, b, dt)

    do_observe_b = do_observe  # (aliases: Hypothesis picks rules uniformly; observe keeps 3/5 of the operations)
    do_observe_c = do_observe

    # -- audit H4: persistence in the middle of a history, both copies continuing
    def pre_fork(self):
        return self.n_ops >= 1 and self.forks < 2

    def do_fork(self, how):
        ctx = self.ctx
        s = self.s
        twin = ctx.guard(copy.deepcopy, s, what="deepcopy(RewardScaler)") if how == "deepcopy" else \
            ctx.guard(lambda o: pickle.loads(pickle.dumps(o)), s, what="pickle(RewardScaler)")
        self.forks += 1
        ctx.check(twin.scale == s.scale and twin.count == s.count and float(twin.mean) == float(s.mean)
                  and float(twin.M2) == float(s.M2), f"fork_state|{how}|{self.kind}",
                  f"{how} copy of the scaler has count/mean/M2 {twin.count}/{float(twin.mean)!r}/{float(twin.M2)!r}, "
                  f"original {s.count}/{float(s.mean)!r}/{float(s.M2)!r}")
        self.twin = (twin, copy.deepcopy(self.m))

    def pre_observe_twin(self):
        return self.twin is not None

    def do_observe_twin(self, b, dt=None):
        """the copy goes on with its own batches; the original must not notice (and vice versa: every later observe of the
        original is checked against the original's own model)"""
        self.twin_ops += 1
        before = (self.s.count, float(self.s.mean), float(self.s.M2))
        self._observe(self.twin[0], self.twin[1], b, dt, who="|twin")
        self.ctx.check((self.s.count, float(self.s.mean), float(self.s.M2)) == before, f"fork_aliased|{self.kind}",
                       "observing a batch with the copy changed the accumulators of the original scaler")

    def finish(self):
        ctx, sizes = self.ctx, self.m.sizes if self.kind in ("norm", "scale") else []
        ctx.event(f"hist:scale={self.kind}")
        ctx.event(f"hist:dtype={self.dkey}")
        if self.kind in ("norm", "scale") and sizes:
            if sizes[0] == 1:
                ctx.event("hist:first_batch_size1")
            if self.const_batches:
                ctx.event("hist:has_constant_batch")
            if self.m.N >= 2 and float(self.m.vals.max()) == float(self.m.vals.min()):
                ctx.event("hist:constant_history")
            if "offset" in self.fams:
                ctx.event("hist:has_large_offset_batch")
            if "mixed" in self.fams:
                ctx.event("hist:has_mixed_magnitude_batch")
            if self.inplace:
                ctx.event("hist:scale_mode_divided_input_in_place")
            if self.m.switched:
                ctx.event("hist:dtype_switched" + ("|half_precision_history" if self.half_history else ""))
            if self.forks:
                ctx.event("hist:forked" + ("_and_both_continued" if self.twin_ops else ""))
            if len(sizes) >= 3 and len(set(sizes)) >= 2:
                ctx.event("hist:>=3_batches_unequal_sizes")
                ctx.nontriv()
            ctx.sample({"init": self.init, "sizes": sizes[:12], "families": self.fams[:12]})


# per-batch dtype (audit item 20): None = the history's dtype
_bdt = st.sampled_from([None, None, None, None, None, None, "f32", "f64", "f16", "bf16"])
SCALER_RULES = {"observe": {"b": batch_spec(), "dt": _bdt}, "observe_b": {"b": batch_spec(), "dt": _bdt},
                "observe_c": {"b": batch_spec(), "dt": _bdt},
                "fork": {"how": st.sampled_from(["deepcopy", "pickle"])},
                "observe_twin": {"b": batch_spec(), "dt": _bdt}}


# --------------------------------------------------------------------------- 2. ExponentialBaseline / MeanBaseline machine
_beta = st.one_of(st.sampled_from([0.0, 1.0, 0.5, 0.8, 0.8, 0.9, 0.99, 0.25]), st.floats(0.0, 1.0))


@st.composite
def ema_init(draw):
    kind = draw(st.sampled_from(["exp", "exp", "exp", "mean", "registry"]))
    beta = 0.0 if kind == "mean" else draw(_beta)
    return {"kind": kind, "beta": beta, "dtype": draw(st.sampled_from(["f32", "f32", "f64"])), "c0": draw(_value)}


def make_td(b):
    from tensordict import TensorDict

    return TensorDict({"x": torch.zeros(b, 1)}, batch_size=[b])


class EmaTracker:
    """float64 model of an ExponentialBaseline + tolerances; shared by the EMA and warm-up machines."""

    def __init__(self, beta, dkey):
        self.beta, self.dkey, self.eps = float(beta), dkey, EPS[dkey]
        self.v = None          # float64 closed-form value
        self.tol = 0.0         # accumulated tolerance of the closed form
        self.mx = 0.0
        self.n_seen = 0

    def step_expect(self, reward, v_prev_actual):
        """Expected new value from the *actual* previous state (one-step) and from the model (closed form)."""
        r = reward.detach().double().reshape(-1).numpy()
        m = math.fsum(r) / len(r)
        self.mx = max(self.mx, float(np.abs(r).max()), abs(v_prev_actual) if v_prev_actual is not None else 0.0)
        step_tol = self.eps * self.mx * (len(r) / 2 + 8) + 1e-300
        one = m if v_prev_actual is None else self.beta * v_prev_actual + (1.0 - self.beta) * m
        if self.v is None:
            self.v, self.tol = m, step_tol
        else:
            self.v = self.beta * self.v + (1.0 - self.beta) * m
            self.tol = self.beta * self.tol + step_tol
        self.n_seen += 1
        return one, step_tol, m

    def resync(self, v_actual):
        self.v = v_actual
        self.tol = self.eps * max(self.mx, abs(v_actual or 0.0)) + 1e-300


def beta_slice(beta):
    return "beta=0" if beta == 0 else ("beta=1" if beta == 1 else "beta=interior")


def make_reward(b, S, dt, c0, grad):
    x = build_tensor({**b, "shape": "flat"}, dt, c0)
    n = x.numel()
    if S > 1 and n % S == 0 and n > S:
        x = x.reshape(n // S, S)
    leaf = None
    if grad:
        leaf = x.clone().requires_grad_(True)
        x = leaf * 1.0
    return x, leaf


class EmaH:
    def __init__(self, ctx, init):
        from rl4co.models.rl.reinforce import baselines as B

        self.ctx, self.init = ctx, init
        self.dkey = init["dtype"]
        self.dt = DT[self.dkey]
        self.beta = float(init["beta"])
        self.c0 = float(init.get("c0", 0.1))
        kind = init["kind"]
        if kind == "mean":
            self.bl = ctx.guard(B.MeanBaseline, what="MeanBaseline()")
            ctx.check(isinstance(self.bl, B.REINFORCEBaseline), "mean_baseline_type", "MeanBaseline() is not a baseline")
        elif kind == "registry":
            self.bl = ctx.guard(B.get_reinforce_baseline, "exponential", beta=self.beta, what="get_reinforce_baseline")
        else:
            self.bl = B.ExponentialBaseline(beta=self.beta)
        self.tr = EmaTracker(self.beta, self.dkey)
        self.sl = ("mean|" if kind == "mean" else "") + beta_slice(self.beta)
        self.evals = 0
        self.grads = 0
        self.switches = 0
        self.twin = None
        self.twin_evals = 0
        self.casts = 0

    def check(self):
        if self.evals == 0:
            self.ctx.check(getattr(self.bl, "v", "missing") is None, f"ema_initial|{self.sl}", "fresh baseline has a value")

    def _eval(self, b, S, grad, dt=None, twin=False):
        ctx = self.ctx
        bl, tr = (self.twin if twin else (self.bl, self.tr))
        bkey = dt or self.dkey
        if bkey != self.dkey:
            self.switches += 1
        # the moving average is stored in the dtype of the expression beta*v + (1-beta)*mean(batch): tolerances use the
        # eps of the coarsest dtype seen so far
        tr.eps = max(tr.eps, EPS[bkey])
        reward, leaf = make_reward(b, S, DT[bkey], self.c0, grad)
        keep = reward.detach().clone()
        v_prev = None if bl.v is None else float(bl.v)
        first = bl.v is None
        td = make_td(reward.shape[0])
        other = None if self.twin is None else (self.bl if twin else self.twin[0])
        other_v = None if other is None or other.v is None else float(other.v)
        val, loss = ctx.guard(bl.eval, td, reward, None, what="ExponentialBaseline.eval")
        if other is not None:
            ctx.check((None if other.v is None else float(other.v)) == other_v, f"ema_fork_aliased|{self.sl}",
                      "an eval of one copy moved the moving average of the other copy")
        self.evals += not twin
        self.twin_evals += bool(twin)
        self.grads += bool(grad)
        one, step_tol, m = tr.step_expect(keep, v_prev)
        ctx.check(isinstance(val, torch.Tensor) and val.numel() == 1, f"ema_value_shape|{self.sl}",
                  "baseline value is not a scalar tensor")
        got = float(val)
        if first:
            ctx.check(abs(got - m) <= step_tol, f"ema_first|{self.sl}",
                      f"first baseline value {got!r} is not the mean of the first batch {m!r}")
        else:
            ctx.check(abs(got - one) <= step_tol, f"ema_recurrence|{self.sl}",
                      f"v_t={got!r} but beta*v_(t-1)+(1-beta)*mean_t = {one!r} (beta={self.beta}, v_(t-1)={v_prev!r}, "
                      f"mean_t={m!r})", {"err": abs(got - one), "tol": step_tol})
        ctx.check(abs(got - tr.v) <= tr.tol, f"ema_closed_form|{self.sl}",
                  f"after {tr.n_seen} batches v={got!r}, float64 recurrence over the whole history gives {tr.v!r}",
                  {"err": abs(got - tr.v), "tol": tr.tol})
        ctx.check(float(bl.v) == got, f"ema_state|{self.sl}", "returned value is not the stored moving average")
        ctx.check(not val.requires_grad and val.grad_fn is None and not bl.v.requires_grad, f"ema_not_detached|{self.sl}",
                  "returned/stored baseline value carries an autograd graph (must be detached)")
        ctx.check(not isinstance(loss, torch.Tensor) and loss == 0 or isinstance(loss, torch.Tensor)
                  and float(loss) == 0 and not loss.requires_grad, f"ema_loss|{self.sl}", f"baseline loss is {loss!r}, not 0")
        adv = reward - val
        ctx.check(adv.shape == reward.shape and adv.dtype == reward.dtype, f"ema_broadcast|{self.sl}",
                  f"reward - baseline has shape {tuple(adv.shape)} / {adv.dtype} for a reward {tuple(reward.shape)} / "
                  f"{reward.dtype}")
        ctx.check(torch.equal(reward.detach(), keep), f"ema_input_mutated|{self.sl}", "reward modified in place")
        if self.beta == 0:
            ctx.check(abs(got - m) <= step_tol, f"mean_baseline|{self.sl}",
                      f"beta=0 / mean baseline value {got!r} is not the batch mean {m!r}")
        if self.beta == 1 and not first:
            ctx.check(got == v_prev, f"ema_beta1_frozen|{self.sl}", "beta=1 must keep the first value")

    def do_eval(self, b, S, dt=None):
        self._eval(b, S, False, dt)

    def do_eval_grad(self, b, S, dt=None):
        self._eval(b, S, True, dt)

    do_eval_b = do_eval

    # -- audit H4: copies / casts in the middle of a history
    def pre_fork(self):
        return self.evals >= 1 and self.twin is None

    def do_fork(self, how):
        ctx, bl = self.ctx, self.bl
        twin = ctx.guard(copy.deepcopy, bl, what="deepcopy(ExponentialBaseline)") if how == "deepcopy" else \
            ctx.guard(lambda o: pickle.loads(pickle.dumps(o)), bl, what="pickle(ExponentialBaseline)")
        ctx.check(twin is not bl and twin.beta == bl.beta and twin.v is not None and float(twin.v) == float(bl.v),
                  f"ema_fork_state|{how}", f"{how} copy has beta/v {twin.beta}/{twin.v!r}, original {bl.beta}/{bl.v!r}")
        self.twin = (twin, copy.deepcopy(self.tr))

    def pre_eval_twin(self):
        return self.twin is not None

    def do_eval_twin(self, b, S, dt=None):
        self._eval(b, S, False, dt, twin=True)

    def do_cast(self, how):
        """nn.Module casts move parameters / buffers only; the moving average (a plain attribute) keeps its value"""
        ctx, bl = self.ctx, self.bl
        v0 = None if bl.v is None else float(bl.v)
        out = ctx.guard({"double": bl.double, "float": bl.float, "to_f64": lambda: bl.to(torch.float64),
                         "cpu": lambda: bl.to("cpu")}[how], what=f"ExponentialBaseline.{how}")
        self.casts += 1
        ctx.check(out is bl and (None if bl.v is None else float(bl.v)) == v0 and bl.beta == self.beta,
                  f"ema_cast_changed_state|{how}", f"after .{how}() the baseline holds v={bl.v!r}, beta={bl.beta}; "
                  f"before v={v0!r}, beta={self.beta}")

    def finish(self):
        ctx = self.ctx
        ctx.event(f"hist:{self.sl}")
        ctx.event(f"hist:dtype={self.dkey}")
        if self.switches:
            ctx.event("hist:dtype_switched")
        if self.twin is not None:
            ctx.event("hist:forked" + ("_and_both_continued" if self.twin_evals else ""))
        if self.casts:
            ctx.event("hist:module_cast")
        if self.grads:
            ctx.event("hist:reward_requires_grad")
        if self.evals >= 2:
            ctx.event("hist:>=2_evals")
            ctx.nontriv()
        ctx.sample({"init": self.init, "evals": self.evals})


_S = st.sampled_from([1, 1, 2, 3, 5])
_edt = st.sampled_from([None, None, None, None, "f32", "f64"])
EMA_RULES = {"eval": {"b": batch_spec(), "S": _S, "dt": _edt}, "eval_grad": {"b": batch_spec(), "S": _S, "dt": _edt},
             "eval_b": {"b": batch_spec(), "S": _S, "dt": _edt},
             "fork": {"how": st.sampled_from(["deepcopy", "pickle"])},
             "eval_twin": {"b": batch_spec(), "S": _S, "dt": _edt},
             "cast": {"how": st.sampled_from(["double", "float", "to_f64", "cpu"])}}


# --------------------------------------------------------------------------- 3. WarmupBaseline machine
StubBaseline = None  # created on first use (rl4co is imported lazily); module-level name so that pickle finds it


def make_stub():
    global StubBaseline
    if StubBaseline is None:
        StubBaseline = _stub_class()
    return StubBaseline()


def _stub_class():
    from rl4co.models.rl.reinforce.baselines import REINFORCEBaseline

    class StubBaseline(REINFORCEBaseline):
        """Inner baseline returning values chosen by the harness and recording how it is consulted."""

        def __init__(self):
            super().__init__()
            self.next_val, self.next_loss = None, None
            self.eval_calls, self.epoch_calls, self.wrap_calls, self.setup_calls = 0, [], 0, 0

        def eval(self, td, reward, env=None, **kw):
            self.eval_calls += 1
            return self.next_val, self.next_loss

        def epoch_callback(self, *a, **kw):
            self.epoch_calls.append((a, kw))

        def wrap_dataset(self, dataset, *a, **kw):
            self.wrap_calls += 1
            return ("wrapped", dataset)

        def setup(self, *a, **kw):
            self.setup_calls += 1

    StubBaseline.__qualname__ = "StubBaseline"
    StubBaseline.__module__ = __name__
    return StubBaseline


@st.composite
def warm_init(draw):
    return {"n": draw(st.integers(1, 5)), "beta": draw(_beta), "dtype": draw(st.sampled_from(["f32", "f32", "f64"])),
            "via": draw(st.sampled_from(["ctor", "ctor", "factory"])), "c0": draw(_value)}


class WarmH:
    def __init__(self, ctx, init):
        from rl4co.models.rl.reinforce import baselines as B

        self.ctx, self.init = ctx, init
        self.n = int(init["n"])
        self.beta = float(init["beta"])
        self.dkey = init["dtype"]
        self.dt = DT[self.dkey]
        self.c0 = float(init.get("c0", 0.1))
        self.stub = make_stub()
        if init["via"] == "factory":
            # the default REINFORCE configuration: warm-up around the rollout baseline; the rollout part is swapped
            # for the stub, the configured number of epochs / beta must have arrived in the warm-up wrapper
            self.wb = ctx.guard(B.get_reinforce_baseline, "rollout", n_epochs=self.n, exp_beta=self.beta,
                                what="get_reinforce_baseline(rollout)")
            ctx.check(isinstance(self.wb, B.WarmupBaseline) and isinstance(self.wb.baseline, B.RolloutBaseline),
                      "factory_type", "get_reinforce_baseline('rollout') is not Warmup(Rollout)")
            self.wb.baseline = self.stub
        else:
            self.wb = B.WarmupBaseline(self.stub, n_epochs=self.n, warmup_exp_beta=self.beta)
        self.alpha = 0.0
        self.tr = EmaTracker(self.beta, self.dkey)
        self.dirty = False
        self.evals = 0
        self.callbacks = []
        self.last_e = -1
        self.alphas_seen = set()
        self.stale_known = False
        self.setups = 0
        self.forks = 0

    def check(self):
        ctx, wb = self.ctx, self.wb
        if not self.callbacks and self.evals == 0:
            ctx.check(wb.alpha == 0, "warmup_alpha_initial", f"alpha starts at {wb.alpha!r}, not 0")
            ctx.check(wb.n_epochs == self.n and wb.warmup_baseline.beta == self.beta, "warmup_config",
                      f"configured n_epochs={self.n}, beta={self.beta} but wrapper has {wb.n_epochs}, {wb.warmup_baseline.beta}")
        ctx.check(abs(float(wb.alpha) - self.alpha) <= 1e-12, "warmup_alpha_drift",
                  f"alpha is {wb.alpha!r}, expected {self.alpha!r}")
        ctx.check(0.0 <= float(wb.alpha) <= 1.0, "warmup_alpha_range", f"alpha={wb.alpha!r} outside [0,1]")

    # -- epoch callbacks (as REINFORCE.on_train_epoch_end calls them)
    def _callback(self, e):
        ctx, wb = self.ctx, self.wb
        policy, env = object(), object()
        kw = dict(env=env, batch_size=7, device="cpu", epoch=e, dataset_size=11)
        before = len(self.stub.epoch_calls)
        ctx.guard(wb.epoch_callback, policy, what="WarmupBaseline.epoch_callback", **kw)
        in_order = e == self.last_e + 1
        self.callbacks.append(e)
        self.last_e = e
        ctx.check(len(self.stub.epoch_calls) == before + 1 and self.stub.epoch_calls[-1][0] == (policy,)
                  and self.stub.epoch_calls[-1][1] == kw, "warmup_callback_forward",
                  "epoch_callback not forwarded once, with the same arguments, to the inner baseline")
        want = min(1.0, (e + 1) / self.n)
        got = float(wb.alpha)
        sl = ("e<n" if e < self.n else "e>=n") + ("|in_order" if in_order else "|out_of_order")
        if abs(got - want) > 1e-12:
            stale = e >= self.n and abs(got - self.alpha) <= 1e-12
            what = "warmup_alpha_stale" if stale else "warmup_alpha"
            ctx.violation(f"{what}|{sl}", f"after epoch_callback(epoch={e}) with n_epochs={self.n}: alpha={got!r}, expected "
                          f"min(1,(e+1)/n)={want!r}" + (" (alpha left at its previous value: warm-up never completes)"
                                                       if stale else ""), {"callbacks": self.callbacks})
            self.stale_known = True
            want = got  # listed as known: follow the implementation so that the remaining history stays checkable
        self.alpha = want
        self.alphas_seen.add(round(want, 6))

    def do_epoch(self, e):
        self._callback(int(e))

    def do_next_epoch(self):
        self._callback(self.last_e + 1)

    # -- evaluation
    def _eval(self, b, inner, grad):
        ctx, wb, stub = self.ctx, self.wb, self.stub
        # inner["shape"]: vec [B] | scalar 0-dim | col: reward [B, S] with a per-instance inner value [B, 1] (shared /
        # critic-style baselines under multi-start rewards) | pynum: python numbers (0, 0), what NoBaseline returns
        reward, leaf = make_reward(b, int(inner.get("S", 2)) if inner["shape"] == "col" else 1, self.dt, self.c0, grad)
        keep = reward.detach().clone()
        B_ = reward.shape[0]
        g = torch.Generator().manual_seed(int(inner["seed"]))
        pynum = inner["shape"] == "pynum"
        if pynum:
            ival, iloss = 0, 0
        elif inner["shape"] == "scalar":
            ival = torch.randint(-64, 65, (), generator=g).to(self.dt) / 8.0
        elif reward.dim() == 2:
            ival = torch.randint(-64, 65, (B_, 1), generator=g).to(self.dt) / 8.0
        else:
            ival = torch.randint(-64, 65, (B_,), generator=g).to(self.dt) / 8.0
        if not pynum:
            iloss = torch.tensor(float(inner["loss"]), dtype=self.dt)
        ival64 = torch.as_tensor(ival, dtype=torch.float64) if pynum else ival.double()
        stub.next_val, stub.next_loss = ival, iloss
        ctx.event(f"op:inner={inner['shape']}" + ("|reward[B,S]" if reward.dim() == 2 else ""))
        a = self.alpha
        ema = wb.warmup_baseline
        if self.dirty and a < 1:
            self.tr.resync(None if ema.v is None else float(ema.v))
            self.dirty = False
        v_prev = None if ema.v is None else float(ema.v)
        calls = stub.eval_calls
        val, loss = ctx.guard(wb.eval, make_td(B_), reward, None, what="WarmupBaseline.eval")
        self.evals += 1
        consulted = stub.eval_calls - calls
        sl = "alpha=0" if a == 0 else ("alpha=1" if a == 1 else "alpha=interior")
        ctx.event(f"op:eval_{sl}")
        ctx.check(torch.equal(reward.detach(), keep), f"warmup_input_mutated|{sl}", "reward modified in place")
        if a == 1:
            ctx.check(consulted == 1, f"warmup_inner_calls|{sl}", f"inner baseline consulted {consulted}x at alpha=1")
            same = (val == 0 and loss == 0 and not isinstance(val, torch.Tensor)) if pynum else (
                isinstance(val, torch.Tensor) and torch.equal(val, ival) and torch.equal(torch.as_tensor(loss), iloss))
            ctx.check(same,
                      f"warmup_after|{sl}", "after warm-up the result must be exactly the inner baseline's (value, loss)",
                      {"val": val, "inner": ival, "loss": loss, "inner_loss": iloss})
            self.dirty = True
            return
        one, step_tol, m = self.tr.step_expect(keep, v_prev)
        ema_now = float(ema.v)
        ctx.check(abs(ema_now - one) <= step_tol, f"warmup_ema_recurrence|{sl}|{beta_slice(self.beta)}",
                  f"warm-up EMA moved to {ema_now!r}, recurrence gives {one!r} (beta={self.beta}, prev={v_prev!r}, mean={m!r})")
        ctx.check(abs(ema_now - self.tr.v) <= self.tr.tol, f"warmup_ema_closed_form|{sl}|{beta_slice(self.beta)}",
                  f"warm-up EMA {ema_now!r} vs float64 model {self.tr.v!r}", {"tol": self.tr.tol})
        if a == 0:
            ctx.check(consulted == 0, f"warmup_inner_calls|{sl}",
                      f"inner baseline consulted {consulted}x although alpha=0 (its value has weight zero)")
            ctx.check(isinstance(val, torch.Tensor) and abs(float(val) - one) <= step_tol and val.numel() == 1,
                      f"warmup_value|{sl}", f"value {val!r} is not the exponential baseline {one!r}")
            ctx.check(float(torch.as_tensor(loss)) == 0, f"warmup_loss|{sl}", f"loss {loss!r} != 0 during pure warm-up")
        else:
            ctx.check(consulted == 1, f"warmup_inner_calls|{sl}", f"inner baseline consulted {consulted}x at alpha={a}")
            eps = EPS[self.dkey]
            want = a * ival64 + (1 - a) * one
            tol = 4 * eps * (a * ival64.abs() + (1 - a) * abs(one)) + (1 - a) * step_tol + 1e-300
            ctx.check(isinstance(val, torch.Tensor) and val.shape == ival64.shape
                      and bool(((val.detach().double() - want).abs() <= tol).all()), f"warmup_value|{sl}",
                      f"value is not alpha*inner + (1-alpha)*ema (alpha={a}, ema={one!r})",
                      {"val": val, "inner": ival, "want": want})
            wl = a * float(iloss)

            ctx.check(abs(float(torch.as_tensor(loss)) - wl) <= 4 * eps * abs(wl) + 1e-300, f"warmup_loss|{sl}",
                      f"loss {float(torch.as_tensor(loss))!r} is not alpha*inner_loss + (1-alpha)*0 = {wl!r}")
        ctx.check(not torch.as_tensor(val).requires_grad, f"warmup_not_detached|{sl}",
                  "warm-up value carries an autograd graph although neither component should")
        adv = reward - val
        ctx.check(adv.shape == reward.shape, f"warmup_broadcast|{sl}", "reward - baseline changes the reward shape")

    # -- audit H4: setup (also a second time) and copies in the middle of a history
    def do_setup(self):
        """WarmupBaseline.setup forwards to the inner baseline (REINFORCE.post_setup_hook; run again by
        load_from_checkpoint / a second fit): the warm-up weight and the moving average must survive it"""
        ctx, wb, stub = self.ctx, self.wb, self.stub
        ema = wb.warmup_baseline
        v0 = None if ema.v is None else float(ema.v)
        calls = stub.setup_calls
        ctx.guard(wb.setup, object(), object(), batch_size=5, device="cpu", dataset_size=9, what="WarmupBaseline.setup")
        self.setups += 1
        ctx.check(stub.setup_calls == calls + 1, "warmup_setup_forward", f"setup forwarded {stub.setup_calls - calls}x "
                  "to the inner baseline")
        ctx.check((None if ema.v is None else float(ema.v)) == v0 and wb.warmup_baseline is ema,
                  "warmup_setup_reset_ema", f"setup changed the warm-up moving average from {v0!r} to {ema.v!r}")
        # (alpha is compared with the model by check() after every operation)

    def pre_fork(self):
        return self.forks < 2

    def do_fork(self, how, b):
        """deepcopy / pickle of the whole warm-up baseline: the copy continues from the same state (one eval compared
        with the one-step expectation) and the original does not notice"""
        ctx, wb = self.ctx, self.wb
        twin = ctx.guard(copy.deepcopy, wb, what="deepcopy(WarmupBaseline)") if how == "deepcopy" else \
            ctx.guard(lambda o: pickle.loads(pickle.dumps(o)), wb, what="pickle(WarmupBaseline)")
        self.forks += 1
        ema, tema = wb.warmup_baseline, twin.warmup_baseline
        v0 = None if ema.v is None else float(ema.v)
        ctx.check(twin is not wb and float(twin.alpha) == float(wb.alpha) and twin.n_epochs == wb.n_epochs
                  and tema.beta == ema.beta and (None if tema.v is None else float(tema.v)) == v0,
                  f"warmup_fork_state|{how}", f"{how} copy has alpha/n_epochs/beta/v {twin.alpha}/{twin.n_epochs}/"
                  f"{tema.beta}/{tema.v!r}, original {wb.alpha}/{wb.n_epochs}/{ema.beta}/{ema.v!r}")
        if self.alpha < 1:
            reward, _ = make_reward(b, 1, self.dt, self.c0, False)
            r = reward.double().reshape(-1).numpy()
            m = math.fsum(r) / len(r)
            want = m if v0 is None else self.beta * v0 + (1 - self.beta) * m
            tstub = twin.baseline
            tstub.next_val, tstub.next_loss = torch.zeros(reward.shape[0], dtype=self.dt), torch.zeros((), dtype=self.dt)
            ctx.guard(twin.eval, make_td(reward.shape[0]), reward, None, what="WarmupBaseline.eval|copy")
            mx = max(float(np.abs(r).max()), abs(v0 or 0.0))
            ctx.check(abs(float(tema.v) - want) <= EPS[self.dkey] * mx * (len(r) / 2 + 8) + 1e-300,
                      f"warmup_fork_continue|{how}", f"the copy's moving average moved to {float(tema.v)!r}, expected "
                      f"{want!r} from the state at the time of the copy")
            ctx.check((None if ema.v is None else float(ema.v)) == v0, f"warmup_fork_aliased|{how}",
                      "an eval of the copy moved the moving average of the original")

    def do_eval(self, b, inner):
        self._eval(b, inner, False)

    def do_eval_grad(self, b, inner):
        self._eval(b, inner, True)

    def do_wrap(self):
        ctx, wb, stub = self.ctx, self.wb, self.stub
        ds = object()
        calls = stub.wrap_calls
        out = ctx.guard(wb.wrap_dataset, ds, object(), batch_size=3, device="cpu", what="WarmupBaseline.wrap_dataset")
        used = stub.wrap_calls - calls
        if self.alpha > 0:
            ctx.check(used == 1 and out == ("wrapped", ds), "warmup_wrap|alpha>0",
                      "dataset not wrapped by the inner baseline although alpha > 0")
        else:
            ctx.check(used == 0 and out is ds, "warmup_wrap|alpha=0",
                      "inner baseline consulted for wrap_dataset although alpha = 0")

    def finish(self):
        ctx = self.ctx
        ctx.event(f"hist:n_epochs={self.n}")
        ctx.event(f"hist:via={self.init['via']}")
        cb = self.callbacks
        if cb:
            if cb == list(range(len(cb))):
                ctx.event("hist:callbacks_in_order_from_0")
            else:
                ctx.event("hist:callbacks_out_of_order")
            if any(e >= self.n for e in cb):
                ctx.event("hist:callback_beyond_warmup")
        if 1.0 in self.alphas_seen:
            ctx.event("hist:reached_alpha_1")
        if any(0 < x < 1 for x in self.alphas_seen):
            ctx.event("hist:interior_alpha")
        if self.setups:
            ctx.event("hist:setup" + ("_twice" if self.setups >= 2 else "_once"))
        if self.forks:
            ctx.event("hist:forked")
        if self.evals >= 2 and cb:
            ctx.event("hist:>=2_evals_and_callback")
            ctx.nontriv()
        ctx.sample({"init": self.init, "callbacks": cb[:12], "evals": self.evals})


_inner = st.fixed_dictionaries({"seed": _seed, "shape": st.sampled_from(["vec", "vec", "scalar", "col", "pynum"]),
                                "S": st.sampled_from([2, 3]),
                                "loss": st.one_of(st.just(0.0), st.integers(0, 64).map(lambda k: k / 8.0),
                                                  st.floats(2.0 ** -10, 10.0, width=32))})
WARM_RULES = {
    "eval": {"b": batch_spec(), "inner": _inner},
    "eval_grad": {"b": batch_spec(), "inner": _inner},
    "epoch": {"e": st.one_of(st.integers(0, 4), st.integers(0, 7))},
    "next_epoch": {},
    "wrap": {},
    "setup": {},
    "fork": {"how": st.sampled_from(["deepcopy", "pickle"]), "b": batch_spec()},
}


# --------------------------------------------------------------------------- 4. stateless baselines
@st.composite
def simple_cases(draw, tier="quick"):
    return {"B": draw(st.integers(1, 8)), "S": draw(st.integers(1, 8)), "K": draw(st.sampled_from([0, 0, 2, 3])),
            "fam": draw(st.sampled_from(["lattice", "gauss", "offset", "mixed", "const"])),
            "seed": draw(_seed), "seed2": draw(_seed), "dtype": draw(st.sampled_from(["f32", "f64"])),
            # SharedBaseline(on_dim=...): negative / last / tuple of dims (audit item 35); "last" = S or K axis
            "on_dim": draw(st.sampled_from([None, None, 1, 0, -1, "last", "tuple"])),
            # registry branch get_reinforce_baseline("warmup", n_epochs=, warmup_exp_beta=)
            "wn": draw(st.integers(1, 4)), "wbeta": draw(st.sampled_from([0.0, 0.5, 0.8, 0.9, 1.0])),
            "wcb": draw(st.integers(0, 5))}


def _fam_tensor(fam, n, seed, dt):
    spec = {"fam": fam, "n": n, "seed": seed, "mu": 1.0, "sigma": 1.0, "c": 0.3}
    return torch.tensor(build_values(spec), dtype=dt)


def simple_execute(case, ctx):
    from rl4co.models.rl.reinforce import baselines as B

    dt, eps = DT[case["dtype"]], EPS[case["dtype"]]
    Bn, S, K = case["B"], case["S"], case["K"]
    shape = (Bn, S) if K == 0 else (Bn, S, K)
    n = int(np.prod(shape))
    reward = _fam_tensor(case["fam"], n, case["seed"], dt).reshape(shape)
    reward2 = _fam_tensor(case["fam"], n, case["seed2"], dt).reshape(shape)
    keep = reward.clone()
    td = make_td(Bn)
    mx = float(reward.abs().max())
    # registry
    reg = {"no": B.NoBaseline, "shared": B.SharedBaseline, "exponential": B.ExponentialBaseline}
    for name, cls in reg.items():
        obj = ctx.guard(B.get_reinforce_baseline, name, what=f"get_reinforce_baseline({name})")
        ctx.check(type(obj) is cls, f"registry|{name}", f"registry returned {type(obj).__name__} for {name!r}")
    ctx.check(type(B.get_reinforce_baseline(None)) is B.NoBaseline, "registry|None", "default baseline is not NoBaseline")
    # NoBaseline
    v, l = ctx.guard(B.NoBaseline().eval, td, reward, None, what="NoBaseline.eval")
    ctx.check(v == 0 and l == 0 and torch.equal(reward - v, keep), "no_baseline", f"NoBaseline returned {(v, l)!r}")
    # SharedBaseline
    on_dim = case["on_dim"]
    if on_dim == "last":
        on_dim = len(shape) - 1
    elif on_dim == "tuple":
        on_dim = tuple(range(1, len(shape)))  # all rollout axes of an instance at once
    kw = {} if on_dim is None else {"on_dim": on_dim}
    dim = 1 if on_dim is None else on_dim
    dims = tuple(d % len(shape) for d in (dim if isinstance(dim, tuple) else (dim,)))  # own normalisation of the axes
    ctx.event(f"shared:on_dim={case['on_dim']}")
    v, l = ctx.guard(B.SharedBaseline().eval, td, reward, None, what="SharedBaseline.eval", **kw)
    want = keep.double()
    for d in dims:
        want = want.mean(dim=d, keepdim=True)
    wshape = [1 if i in dims else n_ for i, n_ in enumerate(shape)]
    group = int(np.prod([shape[d] for d in dims]))
    ctx.check(isinstance(v, torch.Tensor) and list(v.shape) == wshape, f"shared_shape|dim={case['on_dim']}",
              f"shared baseline shape {tuple(v.shape) if isinstance(v, torch.Tensor) else v!r}, expected {wshape}")
    tol = eps * mx * (group / 2 + 4) + 1e-300
    ctx.check(bool(((v.double() - want).abs() <= tol).all()), f"shared_value|dim={case['on_dim']}",
              "shared baseline is not the per-instance mean over the starts dimension", {"got": v, "want": want})
    ctx.check(l == 0, "shared_loss", f"shared baseline loss {l!r}")
    adv = reward - v
    ctx.check(adv.shape == reward.shape, "shared_broadcast", "reward - shared baseline changes the reward shape")
    ctx.check(bool((adv.double().sum(dim=dims).abs() <= group * 2 * tol).all()), f"shared_centered|dim={case['on_dim']}",
              "advantages under the shared baseline do not sum to zero per instance")
    ctx.check(torch.equal(reward, keep), "shared_input_mutated", "reward modified in place")
    if group == 1:
        ctx.event("shared:single_start")
    # registry branch "warmup": Warmup(Warmup(Rollout)); the configured number of epochs arrives at both levels, the
    # moving-average coefficient at the outer one; with a stub in place of the rollout baseline the value after c epoch
    # callbacks is a*(a*inner + (1-a)*m) + (1-a)*m, a = min(1, c/n), m = mean of the (first) batch
    if "wn" in case:
        wn, wbeta, wcb = case["wn"], float(case["wbeta"]), case["wcb"]
        wb = ctx.guard(B.get_reinforce_baseline, "warmup", n_epochs=wn, warmup_exp_beta=wbeta,
                       what="get_reinforce_baseline(warmup)")
        ok = (isinstance(wb, B.WarmupBaseline) and isinstance(wb.baseline, B.WarmupBaseline)
              and isinstance(wb.baseline.baseline, B.RolloutBaseline))
        if ctx.check(ok, "registry|warmup", "get_reinforce_baseline('warmup') is not Warmup(Warmup(Rollout))"):
            ctx.check(wb.n_epochs == wn and wb.baseline.n_epochs == wn and wb.warmup_baseline.beta == wbeta
                      and wb.alpha == 0 and wb.baseline.alpha == 0, "registry|warmup|config",
                      f"n_epochs={wn}, warmup_exp_beta={wbeta} configured; outer has n_epochs {wb.n_epochs}, beta "
                      f"{wb.warmup_baseline.beta}, inner n_epochs {wb.baseline.n_epochs}")
            stub = make_stub()
            wb.baseline.baseline = stub
            for e in range(wcb):
                ctx.guard(wb.epoch_callback, object(), env=object(), batch_size=3, device="cpu", epoch=e, dataset_size=5,
                          what="WarmupBaseline.epoch_callback|registry_warmup")
            a = min(1.0, wcb / wn)
            ctx.check(len(stub.epoch_calls) == wcb and abs(float(wb.alpha) - a) <= 1e-12
                      and abs(float(wb.baseline.alpha) - a) <= 1e-12, "registry|warmup|alpha",
                      f"after {wcb} epoch callbacks (n_epochs {wn}): outer alpha {wb.alpha}, inner alpha "
                      f"{wb.baseline.alpha}, innermost baseline called back {len(stub.epoch_calls)}x; expected {a}")
            r1 = reward.reshape(Bn, -1)[:, 0].clone()
            g = torch.Generator().manual_seed(case["seed2"])
            stub.next_val = torch.randint(-64, 65, (Bn,), generator=g).to(dt) / 8.0
            stub.next_loss = torch.tensor(0.5, dtype=dt)
            v, l = ctx.guard(wb.eval, td, r1, None, what="WarmupBaseline.eval|registry_warmup")
            m = math.fsum(r1.double().numpy()) / Bn
            inner = stub.next_val.double() if a == 1 else a * stub.next_val.double() + (1 - a) * m
            want = inner if a == 1 else (torch.full((), m, dtype=torch.float64) if a == 0 else a * inner + (1 - a) * m)
            wl = 0.5 * a * a if a < 1 else 0.5
            tolw = eps * float(r1.abs().max()) * (Bn / 2 + 8) + 8 * eps * float(want.abs().max()) + 1e-300
            ctx.check(isinstance(v, torch.Tensor) and bool(((v.double() - want).abs() <= tolw).all())
                      and abs(float(torch.as_tensor(l)) - wl) <= 8 * eps * wl + 1e-300, "registry|warmup|value",
                      f"nested warm-up value/loss after {wcb} of {wn} epochs is not the stated convex combination "
                      f"(alpha {a})", {"got": v, "want": want, "loss": l, "want_loss": wl})
            ctx.event("registry_warmup:alpha=" + ("0" if a == 0 else "1" if a == 1 else "interior"))
    # MeanBaseline: every value is the mean of the current batch only
    mb = ctx.guard(B.get_reinforce_baseline, "mean", what="get_reinforce_baseline(mean)")
    for i, r in enumerate((reward, reward2)):
        v, l = ctx.guard(mb.eval, td, r, None, what="MeanBaseline.eval")
        m = math.fsum(r.double().reshape(-1).numpy()) / n
        tolm = eps * max(mx, float(r.abs().max())) * (n / 2 + 8) + 1e-300
        ctx.check(isinstance(v, torch.Tensor) and v.numel() == 1 and abs(float(v) - m) <= tolm and l == 0,
                  f"mean_baseline|eval{i}", f"mean baseline returned {v!r}, batch mean is {m!r}")
        ctx.check((r - v).shape == r.shape and not v.requires_grad, "mean_broadcast", "mean baseline not broadcastable/detached")
    ctx.nontriv()
    ctx.event(f"fam:{case['fam']}")
    ctx.sample({k: case[k] for k in ("B", "S", "K", "fam", "dtype", "on_dim")})


# --------------------------------------------------------------------------- 5. REINFORCE.calculate_loss wiring
@st.composite
def loss_cases(draw, tier="quick"):
    bl = draw(st.sampled_from(["no", "shared", "exponential", "mean", "extra", "warmup"]))
    scale = draw(st.sampled_from(["norm", "norm", "scale", "int", None]))
    if scale == "int":
        scale = draw(st.sampled_from([2, 10, 100]))
    nb = draw(st.integers(1, 4))
    batches = [{"B": draw(st.integers(1, 8)), "S": draw(st.integers(1, 6)) if bl == "shared" else 0,
                "seed": draw(_seed), "mu": draw(st.sampled_from([0.0, -5.0, -20.0])),
                "sigma": draw(st.sampled_from([0.1, 1.0, 3.0]))} for _ in range(nb)]
    c = {"bl": bl, "beta": draw(_beta), "scale": scale, "dtype": draw(st.sampled_from(["f32", "f64"])),
         "batches": batches}
    # audit item 35: reward= / log_likelihood= handed over explicitly (the POMO / SymNCO route; policy_out then holds
    # the flat, differently shaped rollout tensors) and batch["extra"] in front of a stateful baseline
    c["explicit"] = draw(st.sampled_from([False, False, True]))
    if bl in ("exponential", "mean", "warmup"):
        for b_ in batches:
            b_["extra"] = draw(st.sampled_from([False, False, False, True]))
    return c


def loss_execute(case, ctx):
    from rl4co.models.rl.common.utils import RewardScaler
    from rl4co.models.rl.reinforce import baselines as B
    from rl4co.models.rl.reinforce.reinforce import REINFORCE
    from tensordict import TensorDict

    dkey = case["dtype"]
    dt, eps = DT[dkey], EPS[dkey]
    bl, scale, beta = case["bl"], case["scale"], float(case["beta"])
    if bl == "warmup":
        stub = make_stub()
        baseline = B.WarmupBaseline(stub, n_epochs=2, warmup_exp_beta=beta)
        baseline.epoch_callback(object(), epoch=0)  # alpha = 1/2
    elif bl == "extra":
        baseline = B.NoBaseline()
    else:
        baseline = B.get_reinforce_baseline(bl, **({"beta": beta} if bl == "exponential" else {}))
    scaler = RewardScaler(scale)
    fake = types.SimpleNamespace(baseline=baseline, advantage_scaler=scaler, env=None)
    kind = scale if isinstance(scale, str) else ("int" if isinstance(scale, int) else "none")
    model = ScalerModel(dkey)
    tr = EmaTracker(0.0 if bl == "mean" else beta, dkey)
    tag = f"{bl}|{kind}|{dkey}"
    for i, bs in enumerate(case["batches"]):
        Bn, S = bs["B"], bs["S"]
        shape = (Bn, S) if S else (Bn,)
        g = torch.Generator().manual_seed(int(bs["seed"]))
        reward = (bs["mu"] + bs["sigma"] * torch.randn(shape, generator=g, dtype=torch.float64)).to(dt)
        ll = (-5 * torch.rand(shape, generator=g, dtype=torch.float64)).to(dt).requires_grad_(True)
        keep = reward.clone()
        batch = TensorDict({}, batch_size=[Bn])
        extra_val = None
        inner_loss = 0.0
        has_extra = bl == "extra" or bool(bs.get("extra"))
        if has_extra:
            extra_val = torch.randint(-64, 65, (Bn,), generator=g).to(dt) / 8.0
            batch["extra"] = extra_val
        if bl == "warmup":
            stub.next_val = torch.randint(-64, 65, (Bn,), generator=g).to(dt) / 8.0
            inner_loss = float(torch.randint(0, 33, (), generator=g)) / 8.0
            stub.next_loss = torch.tensor(inner_loss, dtype=dt)
        v_prev = None
        if bl in ("exponential", "mean"):
            v_prev = None if baseline.v is None else float(baseline.v)
        elif bl == "warmup":
            v_prev = None if baseline.warmup_baseline.v is None else float(baseline.warmup_baseline.v)
        stub_calls = stub.eval_calls if bl == "warmup" else 0
        if case.get("explicit"):
            # policy_out carries other tensors (flat layout, shifted values): the explicit arguments must win
            pout = {"reward": reward.reshape(-1).flip(0) + 3.0, "log_likelihood": (ll.detach().reshape(-1) * 0.5 - 1.0)}
            out = ctx.guard(REINFORCE.calculate_loss, fake, make_td(Bn), batch, pout, reward=reward, log_likelihood=ll,
                            what="REINFORCE.calculate_loss|explicit")
        else:
            pout = {"reward": reward, "log_likelihood": ll}
            out = ctx.guard(REINFORCE.calculate_loss, fake, make_td(Bn), batch, pout, what="REINFORCE.calculate_loss")
        if has_extra and bl != "extra":
            # a supplied `extra` replaces the baseline: a stateful baseline must be left untouched
            ema_obj = baseline.warmup_baseline if bl == "warmup" else baseline
            v_now = None if ema_obj.v is None else float(ema_obj.v)
            ctx.check(v_now == v_prev and (bl != "warmup" or stub.eval_calls == stub_calls),
                      f"extra_touched_baseline|{bl}", f"batch['extra'] was supplied but the {bl} baseline was evaluated "
                      f"(moving average {v_prev!r} -> {v_now!r})")
            ctx.event("loss:extra_with_stateful_baseline")
        for k in ("loss", "reinforce_loss", "bl_loss", "bl_val"):
            ctx.check(k in out, f"loss_keys|{tag}", f"calculate_loss output lacks {k!r}")
        bl_val, bl_loss = out["bl_val"], out["bl_loss"]
        # baseline value against its model
        r64 = keep.double()
        if bl == "no":
            want, btol, wl = torch.zeros(()), 0.0, 0.0
        elif has_extra:
            want, btol, wl = extra_val.double(), 0.0, 0.0
        elif bl == "shared":
            want, btol, wl = r64.mean(dim=1, keepdim=True), eps * float(r64.abs().max()) * (S / 2 + 4), 0.0
        else:
            one, step_tol, m = tr.step_expect(keep, v_prev)
            if bl == "warmup":
                want = 0.5 * stub.next_val.double() + 0.5 * one
                btol, wl = step_tol + 4 * eps * float(want.abs().max()), 0.5 * inner_loss
            else:
                want, btol, wl = torch.tensor(one, dtype=torch.float64), step_tol, 0.0
        ctx.check(bool(((torch.as_tensor(bl_val).double() - want).abs() <= btol + 1e-300).all()), f"loss_bl_val|{tag}",
                  "bl_val reported by calculate_loss is not the baseline's value for this batch",
                  {"bl_val": bl_val, "want": want})
        ctx.check(abs(float(torch.as_tensor(bl_loss)) - wl) <= 4 * eps * abs(wl), f"loss_bl_loss|{tag}",
                  f"bl_loss {bl_loss!r}, expected {wl!r}")
        # advantage exactly as the module forms it, then the scaler model
        adv = keep - (bl_val.detach() if isinstance(bl_val, torch.Tensor) else bl_val)
        ctx.check(adv.shape == keep.shape, f"loss_adv_shape|{tag}", "advantage shape differs from reward shape")
        a64 = adv.double()
        ll64 = ll.detach().double()
        numel = a64.numel()
        skip = False
        if kind == "none":
            ref, tol = a64, torch.zeros_like(a64)
        elif kind == "int":
            ref = a64 / scale
            tol = 2 * eps * ref.abs()
        else:
            model.observe(adv)
            mean_ref, M2_ref, mx, bm, bM2 = model.check_accumulators(scaler, ctx, tag)
            N = model.N
            if N == 1:
                ctx.event("loss:count1_nan")
                ctx.check(math.isnan(float(out["loss"])), f"loss_count1_not_nan|{tag}",
                          "first batch with a single advantage: scaled advantage is NaN by definition, loss is not")
                continue
            cond = model.condition(M2_ref, mx, bM2)
            if not math.isfinite(float(out["loss"])):
                ctx.violation(f"std_nan|{cond}|{dkey}|{kind}|calculate_loss",
                              f"non-finite loss with {N} observed advantages (M2={float(scaler.M2)!r}, reference {M2_ref!r})")
                continue
            if cond != "wellcond":
                ctx.event(f"loss:skipped_{cond}")
                skip = True
            else:
                std_ref = math.sqrt(M2_ref / (N - 1))
                rel = 0.6 * bM2 / M2_ref + 4 * EPS32
                num = a64 - mean_ref if kind == "norm" else a64
                ref = num / (std_ref + eps)
                tol = 1.1 * ((bm if kind == "norm" else 0.0) + 2 * eps * mx) / std_ref + 1.1 * ref.abs() * rel
        if skip:
            continue
        ctx.event("loss:compared")
        want_rl = float(-(ref * ll64).mean())
        tol_rl = float((tol * ll64.abs()).mean()) + (numel / 2 + 4) * eps * float((ref * ll64).abs().mean()) + 1e-300
        got_rl = float(out["reinforce_loss"])
        ctx.check(abs(got_rl - want_rl) <= tol_rl, f"loss_reinforce|{tag}",
                  f"reinforce_loss {got_rl!r} != -mean(scaled(reward - baseline) * log_likelihood) = {want_rl!r}",
                  {"err": abs(got_rl - want_rl), "tol": tol_rl, "batch": i})
        got_l = float(out["loss"])
        ctx.check(abs(got_l - (want_rl + wl)) <= tol_rl + 4 * eps * (abs(want_rl) + abs(wl)), f"loss_total|{tag}",
                  f"loss {got_l!r} != reinforce_loss + bl_loss = {want_rl + wl!r}")
        # gradient reaches the policy only through the log-likelihood: d loss / d ll = -scaled advantage / numel
        (gr,) = torch.autograd.grad(out["loss"], ll, allow_unused=True)
        ctx.check(gr is not None and bool(((gr.double() * numel + ref).abs() <= tol + 4 * eps * ref.abs() + 1e-300).all()),
                  f"loss_grad|{tag}", "d loss / d log_likelihood is not -scaled_advantage / numel")
    if len(case["batches"]) >= 2:
        ctx.nontriv()
    ctx.event(f"bl:{bl}")
    ctx.event(f"scale:{kind}")
    if case.get("explicit"):
        ctx.event("loss:explicit_reward_and_ll")
    ctx.sample({"bl": bl, "scale": scale, "dtype": dkey, "batches": len(case["batches"])})


# --------------------------------------------------------------------------- registration
def _machine(H, init, rules):
    return lambda ctx, tier, deadline: make_machine(H, init, rules, ctx, deadline)


_STEPS = {"quick": 20, "thorough": 50}
SUBS = [
    Sub("scaler", lambda case, ctx: run_history(ScalerH, case, ctx), machine=_machine(ScalerH, scaler_init(), SCALER_RULES),
        budget={"quick": 7680, "thorough": 24000}, steps=_STEPS, shrink=False, minimize=ops_minimizer, weight=3.0),
    Sub("ema", lambda case, ctx: run_history(EmaH, case, ctx), machine=_machine(EmaH, ema_init(), EMA_RULES),
        budget={"quick": 3840, "thorough": 12000}, steps=_STEPS, shrink=False, minimize=ops_minimizer, weight=2.0),
    Sub("warmup", lambda case, ctx: run_history(WarmH, case, ctx), machine=_machine(WarmH, warm_init(), WARM_RULES),
        budget={"quick": 5120, "thorough": 16000}, steps=_STEPS, shrink=False, minimize=ops_minimizer, weight=2.0),
    Sub("simple_baselines", simple_execute, strategy=lambda tier: simple_cases(tier),
        budget={"quick": 6400, "thorough": 16000}, shards=8),
    Sub("reinforce_loss", loss_execute, strategy=lambda tier: loss_cases(tier),
        budget={"quick": 6400, "thorough": 16000}, shards=8),
]
