"""C08 — selection environments pick exactly the quota of distinct, allowed items."""
import math

import torch

from ..envs import SPECS, episode_cases
from ..oracles.scheduling import judge_flp, judge_mcp
from ..play import play
from ..runner import Sub

PROPERTY = "C08"
RULE = (
    "case = DPP/MDPP (chip 4x4..10x10, quota, keep-out ranges, 1-3 probing ports; invariants: quota, distinct, never a keep-out cell or probing port, mask == allowed and unchosen) / FLP (n 2..30, quota 1..n, coordinates also outside the unit box) / MCP (items, sets, set sizes with zero padding, quota 1..sets; generator and "
    "hand-built memberships) + batch + per-row selection order streams. Invariants after every step: chosen == set "
    "of executed actions (all distinct), mask == not chosen, done first true exactly at step == quota, FLP "
    "distances[i] == min over chosen facilities (float64 from coordinates), MCP weights == original weights of "
    "still-uncovered items and memberships of chosen sets zeroed (python sets); final reward == objective. "
    "Non-trivial = quota >= 2 and a step whose bookkeeping changed for > 1 item; distinct (case,row) hash."
)
ASSUMPTIONS = [
    "one quota per batch (the steps finish all rows on a shared counter)",
    "decap placement (DPP/MDPP) runs on synthetic PDN matrices (vf/eda.py): the real data files cannot be fetched; the "
    "selection logic does not depend on the physics, the reward is only required to be finite and per-row",
]
ENVS = ["flp", "mcp"]


def execute(case, ctx):
    spec, env, inst, insts, ep = play(case, ctx, keep_states=True)
    name, cfg = case["env"], case["cfg"]
    ctx.event(f"env:{name}")
    if ep.dead_end is not None or ep.cap_hit or ep.T == 0:
        ctx.event("aborted_episode(C02 territory)")
        return
    B, k = len(insts), cfg["k"]
    A = ep.actions_tensor()
    ctx.check(ep.T == k, f"{name}||episode_length", f"episode took {ep.T} steps for quota {k}", {"actions": A.tolist()})
    for t in range(ep.T):
        d = ep.dones[t]
        ctx.check(bool(d.all()) == (t + 1 >= k), f"{name}||done_at_quota",
                  f"done={d.tolist()} after {t + 1} selections with quota {k}", {"actions": A.tolist()})
    rew = ctx.guard(env.get_reward, ep.td.clone(), A.clone(), what=f"get_reward|{name}").reshape(-1).double()
    asym = name == "flp" and case.get("lat") is not None and case["lat"].get("asym") is not None
    conv, last_have = {}, {}
    for b in range(B):
        acts = A[b].tolist()
        det = {"row": b, "actions": acts, "instance": insts[b], "quota": k}
        big_change = False
        chosen = set()
        prev_book = None
        for t in range(ep.T):
            m = ep.masks[t][b].tolist()
            if m != [j not in chosen for j in range(len(m))]:
                ctx.violation(f"{name}||mask_not_unchosen", f"mask before step {t} is not 'not yet chosen'", {**det, "step": t, "mask": m})
                break
            if acts[t] in chosen:
                ctx.violation(f"{name}||duplicate_selection", f"item {acts[t]} selected twice", det)
                break
            chosen.add(acts[t])
            s = ep.states[t]
            got = set(torch.nonzero(s["chosen"][b]).flatten().tolist())
            if got != chosen:
                ctx.violation(f"{name}||chosen_bookkeeping", f"chosen={sorted(got)} but selected {sorted(chosen)}", {**det, "step": t})
                break
            if name == "flp" and asym:
                # direction-dependent cost matrix: "nearest facility" may be read facility->location or
                # location->facility; either is accepted, but it must be ONE reading for the whole episode and the one the
                # reward uses (checked below: reward == -sum of the final bookkeeping)
                Dm = insts[b]["orig_distances"]
                nloc = len(Dm)
                cand = {"facility_to_location": [min(Dm[j][i] for j in chosen) for i in range(nloc)],
                        "location_to_facility": [min(Dm[i][j] for j in chosen) for i in range(nloc)]}
                have = s["distances"][b].double().tolist()
                fits = [c for c, w_ in cand.items() if all(abs(w - h) <= 1e-5 for w, h in zip(w_, have))]
                if conv.get(b) is None and len(fits) == 1:
                    conv[b] = fits[0]
                if not fits or (conv.get(b) is not None and conv[b] not in fits):
                    ctx.violation("flp||nearest_distance_bookkeeping|asymmetric", f"distances after step {t} are not the nearest-facility "
                                  f"distances under {'either reading' if not fits else 'the reading used so far (' + conv[b] + ')'}",
                                  {**det, "step": t, "have": have, "candidates": cand})
                    break
                book = have
                last_have[b] = have
            elif name == "flp":
                locs = insts[b]["locs"]
                want = [min(math.hypot(p[0] - locs[j][0], p[1] - locs[j][1]) for j in chosen) for p in locs]
                have = s["distances"][b].double().tolist()
                if any(abs(w - h) > 1e-5 for w, h in zip(want, have)):
                    ctx.violation("flp||nearest_distance_bookkeeping", f"distances after step {t} are not the nearest-facility distances",
                                  {**det, "step": t, "want": want, "have": have})
                    break
                book = want
            else:
                mem, w = insts[b]["membership"], insts[b]["weights"]
                covered = set(int(x) for j in chosen for x in mem[j] if int(x) > 0)
                want = [0.0 if (i + 1) in covered else w[i] for i in range(len(w))]
                have = s["weights"][b].double().tolist()
                if want != have:
                    ctx.violation("mcp||uncovered_weight_bookkeeping", f"weights after step {t} are not the uncovered weights",
                                  {**det, "step": t, "want": want, "have": have})
                    break
                hm = s["membership"][b].tolist()
                for j in range(len(mem)):
                    exp = [0.0] * len(mem[j]) if j in chosen else mem[j]
                    if hm[j] != exp:
                        ctx.violation("mcp||membership_bookkeeping", f"membership row {j} after step {t} wrong", {**det, "step": t})
                        break
                book = want
            if prev_book is not None and sum(1 for x, y in zip(prev_book, book) if x != y) > 1:
                big_change = True
            prev_book = book
        v = (judge_flp if name == "flp" else judge_mcp)(insts[b], acts, cfg)
        if v.viol:
            ctx.violation(f"{name}||{v.viol[0][0]}", f"selection invalid: {v.viol}", det)
        if asym:
            if b in last_have:
                tot = sum(last_have[b])
                ctx.check(abs(float(rew[b]) + tot) <= 1e-5 * (1 + abs(tot)), "flp||reward_vs_bookkeeping|asymmetric",
                          f"reward {float(rew[b])} is not minus the sum of the nearest-facility distances shown to the policy ({tot})",
                          {**det, "reading": conv.get(b)})
                ctx.event(f"flp:asymmetric|{conv.get(b) or 'both_readings_fit'}")
        else:
            ctx.check(abs(float(rew[b]) - v.obj) <= 1e-5 * (1 + abs(v.terms)), f"{name}||reward",
                      f"reward {float(rew[b])} != objective {v.obj}", det)
        if k >= 2 and big_change:
            ctx.nontriv({"c": case, "row": b})
    ctx.sample({"env": name, "cfg": cfg, "B": B, "actions_row0": A[0].tolist(), "reward_row0": float(rew[0])})


def execute_decap(case, ctx):
    """DPP / MDPP on synthetic PDN data: quota, distinctness, keep-out cells and probing ports never chosen,
    mask == allowed and not yet chosen, done exactly at the quota."""
    spec, env, inst, insts, ep = play(case, ctx, keep_states=True)
    name, cfg = case["env"], case["cfg"]
    ctx.event(f"env:{name}")
    if ep.dead_end is not None or ep.cap_hit or ep.T == 0:
        ctx.event("aborted_episode(C02 territory)")
        return
    B, k = len(insts), cfg["k"]
    A = ep.actions_tensor()
    ctx.check(ep.T == k, f"{name}||episode_length", f"episode took {ep.T} placements for the configured quota {k}",
              {"actions": A.tolist(), "cfg": cfg})
    for t in range(ep.T):
        ctx.check(bool(ep.dones[t].all()) == (t + 1 >= k), f"{name}||done_at_quota",
                  f"done={ep.dones[t].tolist()} after {t + 1} placements with quota {k}", {"actions": A.tolist()})
    adjacent = False
    for b in range(B):
        allowed0 = inst["action_mask"][b].clone()  # generator: cells that are neither keep-out nor (single) probe
        probes = inst["probe"][b]
        if name == "mdpp":
            allowed0 &= ~probes.bool()
            forbidden_probe = set(torch.nonzero(probes.bool()).flatten().tolist())
        else:
            forbidden_probe = {int(probes.reshape(-1)[0])}
        keepout = set(torch.nonzero(~inst["action_mask"][b]).flatten().tolist())
        acts = A[b].tolist()
        det = {"row": b, "actions": acts, "keepout": sorted(keepout), "probes": sorted(forbidden_probe), "quota": k}
        chosen = set()
        size = cfg["size"]
        for t in range(ep.T):
            want = [bool(allowed0[j]) and j not in chosen for j in range(allowed0.shape[0])]
            if ep.masks[t][b].tolist() != want:
                ctx.violation(f"{name}||mask_not_allowed_and_unchosen", f"mask before placement {t} is not 'allowed and not yet chosen'",
                              {**det, "step": t})
                break
            a = acts[t]
            if a in chosen:
                ctx.violation(f"{name}||duplicate_selection", f"cell {a} chosen twice", det)
            if a in keepout:
                ctx.violation(f"{name}||keepout_cell_chosen", f"keep-out cell {a} chosen", det)
            if a in forbidden_probe:
                ctx.violation(f"{name}||probe_cell_chosen", f"probing port {a} chosen", det)
            chosen.add(a)
            r, c = divmod(a, size)
            if any((r + dr) * size + (c + dc) in keepout for dr, dc in ((0, 1), (1, 0), (0, -1), (-1, 0))
                   if 0 <= r + dr < size and 0 <= c + dc < size):
                adjacent = True
        ctx.check(len(chosen) == k, f"{name}||wrong_number_selected", f"{len(chosen)} distinct cells for quota {k}", det)
    rew = ctx.guard(env.get_reward, ep.td.clone(), A.clone(), what=f"get_reward|{name}")
    ctx.check(rew.reshape(-1).shape[0] == B and bool(torch.isfinite(rew).all()), f"{name}||reward_shape_or_nan",
              f"reward {rew.tolist()}")
    if k >= 2 and adjacent:
        ctx.nontriv()
    ctx.sample({"env": name, "cfg": cfg, "B": B, "actions_row0": A[0].tolist()})


def flp_mcp_cases(tier):
    import hypothesis.strategies as st

    @st.composite
    def c(draw):
        case = draw(episode_cases(tier, ENVS))
        if case["env"] == "flp" and case.get("lat") is not None and case["src"] == "lat" and draw(st.integers(0, 2)) == 0:
            # hand-built FLP instance with a direction-dependent cost matrix (see vf.envs.FLP.from_lattice)
            n = case["cfg"]["n"]
            B = len(case["lat"]["locs"])
            case["lat"]["asym"] = draw(st.lists(st.lists(st.lists(st.integers(0, 6), min_size=n, max_size=n), min_size=n, max_size=n),
                                                min_size=B, max_size=B))
            case.pop("env_shape", None)
        return case
    return c()


def preimport():
    from ..eda import data_dir
    data_dir()


SUBS = [
    Sub("decap", execute_decap, strategy=lambda tier: episode_cases(tier, ["dpp", "mdpp"]),
        budget={"quick": 3600, "thorough": 16000}, shards=16),
    Sub("episodes", execute, strategy=lambda tier: flp_mcp_cases(tier), budget={"quick": 8992, "thorough": 40000}, shards=16),
]
TIME_CAP = {"quick": 300, "thorough": 2400}
