"""C10 — decoding distributions are proper and confined to feasible actions.

Targets rl4co.utils.decoding.process_logits and DecodingStrategy.greedy/sampling/step.
Oracle: algebraic predicates against a float64 reference softmax computed from the
deterministically pre-processed logits (tanh clipping, masking, temperature replicated in
the *input dtype* so that ties are judged where the implementation sees them).
"""
import math

import hypothesis.strategies as st
import torch

from ..runner import Sub

PROPERTY = "C10"
RULE = (
    "cases = (logits [B,N] from lattice/gaussian/huge/tie-heavy/dominant families, mask with >=1 True "
    "per row incl. single-feasible and top-candidates-masked rows, temperature in [1e-3,1e3], top_k in "
    "0..N+3, top_p in [0,1] incl. 0,1,1e-12,1-1e-7, tanh clipping 0 or [0.1,50], float32/float64/float16/bfloat16, masking "
    "route mask+mask_logits=True | mask=None+mask_logits=False | mask given but mask_logits=False [both: bit-equal to "
    "the all-True-mask result; greedy/sampling with mask=None; sampling(unmasked log-probs, mask) must resample to a "
    "feasible action]). "
    "Non-trivial = filtering removed >=1 feasible entry, or fewer feasible entries than k, or an exact tie "
    "at the maximum / at the top-k cut; distinct = distinct case hash."
)
ASSUMPTIONS = [
    "logits finite and logits/temperature finite in the input dtype (constructed, not filtered)",
    "every mask row has at least one True entry",
    "shift invariance asserted with tanh clipping off (tanh(x+c) is not shift invariant by construction)",
    "when top-k and top-p are both on, nucleus mass is measured against the distribution entering the top-p stage",
    "half precision: values rounded to the dtype at construction; tolerances 4*eps of the dtype (float16 2^-10, bfloat16 "
    "2^-7), nucleus mass additionally N*eps (the filter's cumulative sum runs in the input dtype); shift invariance is "
    "asserted in float32/float64 only",
    "the resampling loop of sampling(logprobs, mask) is exercised only when all rows are feasible at once with probability "
    ">= 0.05 per round (it redraws the whole batch)",
]

EPS32 = 2.0 ** -23


# --------------------------------------------------------------------------- strategies
def _row_values(n, family):
    if family == "lattice":
        return st.lists(st.integers(-512, 512).map(lambda k: k / 8.0), min_size=n, max_size=n)
    if family == "gauss":
        return st.lists(st.floats(-10, 10, width=32, allow_nan=False), min_size=n, max_size=n)
    if family == "huge":
        mag = st.sampled_from([1.0, 1e3, 1e6, 1e12, 1e20, 1e30])
        return st.lists(st.tuples(st.floats(-1, 1, width=32, allow_nan=False), mag).map(lambda t: t[0] * t[1]),
                        min_size=n, max_size=n)
    if family == "ties":
        return st.lists(st.sampled_from([-2.0, 0.0, 0.5, 0.5, 3.0, 3.0]), min_size=n, max_size=n)
    if family == "dominant":
        return st.tuples(st.integers(0, n - 1), st.lists(st.floats(-1, 1, width=32), min_size=n, max_size=n)).map(
            lambda t: [v + (40.0 if i == t[0] else 0.0) for i, v in enumerate(t[1])])
    raise ValueError(family)


@st.composite
def cases(draw, tier="quick"):
    B = draw(st.integers(1, 6))
    N = draw(st.one_of(st.integers(1, 12), st.integers(1, 64)))
    family = draw(st.sampled_from(["lattice", "lattice", "gauss", "huge", "ties", "dominant"]))
    logits = [draw(_row_values(N, family)) for _ in range(B)]
    mask_kind = draw(st.sampled_from(["any", "any", "single", "all", "top_masked"]))
    mask = []
    for b in range(B):
        if mask_kind == "all":
            row = [True] * N
        elif mask_kind == "single":
            j = draw(st.integers(0, N - 1))
            row = [i == j for i in range(N)]
        else:
            row = draw(st.lists(st.booleans(), min_size=N, max_size=N))
            if mask_kind == "top_masked" and N >= 2:
                order = sorted(range(N), key=lambda i: -logits[b][i])
                for i in order[: max(1, N // 2)]:
                    row[i] = False
            if not any(row):
                row[draw(st.integers(0, N - 1))] = True
        mask.append(row)
    if family in ("lattice", "ties"):
        temperature = draw(st.sampled_from([2.0 ** e for e in range(-6, 7)] + [1.0, 1.0]))
    else:
        temperature = draw(st.one_of(st.just(1.0), st.floats(1e-3, 1e3), st.sampled_from([1e-3, 1e3, 0.5, 2.0])))
    top_k = draw(st.one_of(st.just(0), st.integers(0, N + 3)))
    top_p = draw(st.one_of(st.just(0.0), st.sampled_from([0.0, 1.0, 1e-12, 1e-8, 1 - 1e-7, 0.5, 0.9]),
                           st.floats(0.0, 1.0)))
    tanh = draw(st.one_of(st.just(0.0), st.just(0.0), st.floats(0.1, 50.0), st.sampled_from([10.0, 50.0])))
    # half precision (what 16-mixed training hands to the decoding code): values are rounded to the dtype when the tensor is
    # built; float16 cannot hold the "huge" family
    dtype = draw(st.sampled_from(["f32", "f32", "f32", "f64", "f64", "f16", "bf16"]))
    if dtype == "f16" and family == "huge":
        dtype = "bf16"
    shift = draw(st.integers(-8192, 8192).map(lambda k: k / 8.0))
    tseed = draw(st.integers(0, 2 ** 20))
    # masking route: the default (mask + mask_logits=True), mask=None with mask_logits=False (L2DPolicy4PPO.act, unmasked
    # decoding), or a mask that is handed over but switched off by mask_logits=False
    masking = draw(st.sampled_from(["mask"] * 5 + ["none", "ignored"]))
    return dict(B=B, N=N, family=family, logits=logits, mask=mask, temperature=temperature, top_k=top_k,
                top_p=top_p, tanh=tanh, dtype=dtype, shift=shift, tseed=tseed, masking=masking)


# --------------------------------------------------------------------------- oracle
def _pre(logits, mask, temperature, tanh):
    """Deterministic preprocessing replicated in the input dtype."""
    x = logits.clone()
    if tanh > 0:
        x = torch.tanh(x) * tanh
    x[~mask] = float("-inf")
    return x / temperature


def _ref_logp(z, keep):
    """float64 reference log-probs of the distribution restricted to `keep`."""
    zz = z.clone()
    zz[~keep] = float("-inf")
    m = zz.max(dim=-1, keepdim=True).values
    d = zz - m  # exact in float64 for float32 inputs of similar magnitude; keeps huge offsets out of the sum
    return d - torch.log(torch.exp(d).sum(-1, keepdim=True))


def execute(case, ctx):
    from rl4co.utils.decoding import DecodingStrategy, Greedy, Sampling, process_logits
    from tensordict import TensorDict

    dt = {"f32": torch.float32, "f64": torch.float64, "f16": torch.float16, "bf16": torch.bfloat16}[case["dtype"]]
    half = dt in (torch.float16, torch.bfloat16)
    logits = torch.tensor(case["logits"], dtype=torch.float64).to(dt)
    real_mask = torch.tensor(case["mask"], dtype=torch.bool)
    masking = case.get("masking", "mask")
    # with mask_logits=False nothing is masked: the oracle's mask is all-True, whatever mask is handed over
    mask = real_mask if masking == "mask" else torch.ones_like(real_mask)
    B, N = logits.shape
    T, k, p, tanh = case["temperature"], case["top_k"], case["top_p"], case["tanh"]
    eps = {torch.float32: 2.0 ** -23, torch.float64: 2.0 ** -52, torch.float16: 2.0 ** -10, torch.bfloat16: 2.0 ** -7}[dt]
    tol = 1e-5 if dt == torch.float32 else (1e-11 if dt == torch.float64 else 4 * eps)
    kw = dict(temperature=T, top_p=p, top_k=k, tanh_clipping=tanh)
    cfg = f"k={'0' if k == 0 else 'k'}|p={'0' if p == 0 else ('1' if p >= 1 else 'p')}" + \
        ("" if masking == "mask" else "|mask_logits=False") + (f"|{case['dtype']}" if half else "")
    ctx.event(f"dtype:{case['dtype']}")
    ctx.event(f"masking:{masking}")

    x = _pre(logits, mask, T, tanh)
    if not torch.isfinite(x[mask]).all():
        ctx.exclude("nonfinite_scaled_logits")
        return
    if masking == "mask":
        lp = ctx.guard(process_logits, logits.clone(), mask.clone(), what="process_logits", **kw)
    else:
        given = None if masking == "none" else real_mask.clone()
        lp = ctx.guard(process_logits, logits.clone(), given, what="process_logits|mask_logits=False", mask_logits=False, **kw)
        lp_all = ctx.guard(process_logits, logits.clone(), mask.clone(), what="process_logits", **kw)
        ctx.check(lp.shape == lp_all.shape and bool(((lp == lp_all) | (torch.isnan(lp) & torch.isnan(lp_all))).all()),
                  f"unmasked_differs_from_all_true_mask|{cfg}",
                  "process_logits(mask_logits=False) differs from the result with an all-True mask",
                  {"lp": lp, "lp_all_true": lp_all})
    ctx.check(lp.dtype == dt, f"dtype_changed|{cfg}", f"log-probs come back as {lp.dtype} for {dt} logits")
    z = x.double()
    kept = lp > float("-inf")

    # 1. proper distribution
    if torch.isnan(lp).any():
        ctx.violation(f"nan|{cfg}", "process_logits returned NaN log-probs", {"lp": lp})
        return
    total = lp.double().exp().sum(-1)
    ctx.check(bool(((total - 1).abs() <= 10 * tol).all()), f"not_normalised|{cfg}",
              f"probabilities sum to {total.tolist()}")
    # 2. masked entries have probability exactly zero
    ctx.check(bool((lp[~mask] == float("-inf")).all()), f"masked_positive|{cfg}",
              "a masked action has positive probability", {"lp": lp})
    # 3. a most likely feasible action is kept
    zmax = z.max(-1, keepdim=True).values
    ctx.check(bool(((z == zmax) & kept).any(-1).all()), f"argmax_dropped|{cfg}",
              "no entry attaining the maximum probability survives filtering", {"lp": lp})
    # 4. top-k
    stage = mask.clone()  # set entering the top-p stage
    if k > 0:
        kk = min(k, N)
        kth = torch.topk(x, kk, dim=-1).values[..., -1:]
        stage = mask & (x >= kth)
        ctx.check(bool((kept <= stage).all()), f"topk_exceeded|{cfg}",
                  "more than k (plus ties with the k-th) entries kept", {"kept": kept.sum(-1), "k": k})
    # upward closed: every kept entry >= every dropped feasible entry
    dropped = mask & ~kept
    big = torch.full_like(z, float("inf"))
    min_kept = torch.where(kept, z, big).min(-1).values
    max_drop = torch.where(dropped, z, -big).max(-1).values
    ctx.check(bool((min_kept >= max_drop).all()), f"not_upward_closed|{cfg}",
              "a dropped feasible entry is more likely than a kept one")
    # 5. nucleus mass
    q = _ref_logp(z, stage).exp()
    if 0 < p:
        mass = (q * kept).sum(-1)
        # half precision: the filter's own cumulative sum of N probabilities is carried in the input dtype
        mtol = 10 * tol + (N * eps if half else 0.0)
        ctx.check(bool((mass >= min(p, 1.0) - mtol).all()), f"topp_mass|{cfg}",
                  f"kept mass {mass.tolist()} below top_p={p}")
    # 6. kept entries renormalised proportionally
    ref = _ref_logp(z, kept)
    err = (lp.double() - ref)[kept].abs()
    bound = tol * (1 + ref[kept].abs())
    ctx.check(bool((err <= bound).all()), f"not_proportional|{cfg}",
              "kept log-probs are not the renormalised reference", {"max_err": err.max() if err.numel() else 0})

    # classes / non-triviality
    removed = (dropped.sum(-1) > 0).any().item()
    few = k > 0 and (mask.sum(-1) < k).any().item()
    tie_max = ((z == zmax) & mask).sum(-1).max().item() > 1
    if removed:
        ctx.event("filter_removed_feasible")
    if few:
        ctx.event("fewer_feasible_than_k")
    if tie_max:
        ctx.event("tie_at_max")
    if mask.sum(-1).min().item() == 1:
        ctx.event("single_feasible_row")
    if removed or few or tie_max:
        ctx.nontriv()
    ctx.sample({k_: case[k_] for k_ in ("B", "N", "family", "temperature", "top_k", "top_p", "tanh", "dtype")}
               | {"logits_row0": case["logits"][0][:8], "mask_row0": case["mask"][0][:8]})

    # 7. shift invariance (tanh off; float32 / float64 only: a half-precision logit cannot absorb the shift exactly)
    if tanh == 0 and not half and masking == "mask":
        c = case["shift"]
        exact = case["family"] in ("lattice", "ties") and math.log2(T) == int(math.log2(T))
        if exact:
            lp2 = ctx.guard(process_logits, logits.clone() + c, mask.clone(), what="process_logits", **kw)
            same = torch.equal(lp2, lp)
            ctx.check(same, f"shift_exact|{cfg}", f"adding {c} to all logits changed the distribution",
                      {"maxdiff": (lp2 - lp)[kept & (lp2 > -math.inf)].abs().max() if kept.any() else 0})
            ctx.event("shift_exact_checked")
        elif case["family"] in ("gauss", "dominant"):
            xs = logits.clone() + c
            lp2 = ctx.guard(process_logits, xs.clone(), mask.clone(), what="process_logits",
                            temperature=T, top_p=0.0, top_k=0, tanh_clipping=0)
            lp1 = ctx.guard(process_logits, logits.clone(), mask.clone(), what="process_logits",
                            temperature=T, top_p=0.0, top_k=0, tanh_clipping=0)
            slack = 8 * eps * (abs(c) + float(logits.abs().max())) / T
            d = (lp2 - lp1)[mask].abs().double()
            okb = tol * (1 + lp1[mask].abs().double()) + slack
            ctx.check(bool((d <= okb).all()), "shift_float", f"adding {c} changed log-probs beyond rounding",
                      {"maxdiff": d.max()})
            ctx.event("shift_float_checked")

    # 8. greedy returns a maximiser (mask=None on the unmasked routes, as L2DPolicy4PPO.act calls it)
    sel_mask = (lambda r=1: mask.repeat(r, 1)) if masking == "mask" else (lambda r=1: None)
    g = ctx.guard(DecodingStrategy.greedy, lp.clone(), sel_mask(), what="greedy")
    gv = lp.gather(1, g.unsqueeze(-1)).squeeze(-1)
    ctx.check(bool((gv == lp.max(-1).values).all()) and bool(mask.gather(1, g.unsqueeze(-1)).all()),
              "greedy_not_max", "greedy did not return a feasible maximiser", {"selected": g})
    # 9. sampling only returns positive-probability feasible actions
    R = 16
    torch.manual_seed(case["tseed"])
    s = ctx.guard(DecodingStrategy.sampling, lp.repeat(R, 1), sel_mask(R), what="sampling")
    sv = lp.repeat(R, 1).gather(1, s.unsqueeze(-1)).squeeze(-1)
    ctx.check(bool((sv > -math.inf).all()) and bool(mask.repeat(R, 1).gather(1, s.unsqueeze(-1)).all()),
              "sampling_infeasible", "sampling returned a zero-probability or masked action", {"selected": s})
    # 9b. sampling(log-probs that put mass on masked entries, mask): the documented resampling loop must still hand back
    # feasible actions only.  It redraws the whole batch until every row is feasible at once: asserted when that has
    # probability >= 0.05 per round (product of the rows' feasible masses), otherwise the loop is not expected to end
    if masking != "mask" and not bool(real_mask.all()):
        feas = (lp.double().exp() * real_mask).sum(-1)
        if float(feas.prod()) >= 0.05:
            torch.manual_seed(case["tseed"] + 2)
            s2 = ctx.guard(DecodingStrategy.sampling, lp.clone(), real_mask.clone(), what="sampling|resampling_loop")
            ctx.check(bool(real_mask.gather(1, s2.unsqueeze(-1)).all()), f"resampling_returns_infeasible|{cfg}",
                      "sampling(unmasked log-probs, mask) returned a masked action", {"selected": s2})
            ctx.event("resampling_loop_checked")
            ctx.nontriv({"c": case["logits"], "m": case["mask"], "k": "resample"})
        else:
            ctx.event("resampling_loop_skipped(feasible mass too small)")
    # 10. full strategy step never emits a masked action and stores its log-prob
    for cls in (Greedy, Sampling):
        strat = cls(**{**kw}) if masking == "mask" else cls(mask_logits=False, **kw)
        td = TensorDict({}, batch_size=[B])
        torch.manual_seed(case["tseed"] + 1)
        # (with mask_logits=False the strategy drops whatever mask it is given)
        td = ctx.guard(strat.step, logits.clone(), real_mask.clone(), td, what=f"{cls.__name__}.step")
        a = td["action"]
        ctx.check(bool(mask.gather(1, a.unsqueeze(-1)).all()), f"step_infeasible|{cls.__name__}",
                  "strategy.step emitted a masked action", {"action": a})
        stored = strat.logprobs[-1]
        want = lp.gather(1, a.unsqueeze(-1)).squeeze(-1)
        ctx.check(bool(((stored - want).abs() <= tol * (1 + want.abs())).all()) and bool((stored > -math.inf).all()),
                  f"step_logprob|{cls.__name__}", "stored log-prob is not that of the emitted action",
                  {"stored": stored, "want": want})


SUBS = [
    Sub("process_logits", execute, strategy=lambda tier: cases(tier),
        budget={"quick": 36000, "thorough": 200000}, shards=16),
]
TIME_CAP = {"quick": 300, "thorough": 2400}
