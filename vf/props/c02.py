"""C02 — episodes terminate: no dead ends; finished instances stay finished and steppable."""
import hypothesis.strategies as st
import torch

from ..envs import ALL_ENVS, SPECS, episode_cases, py_instance
from ..episode import flat_mask, pick_actions, row_done, seed_reset
from ..play import play
from ..runner import Sub, ops_minimizer
from ..stateful import make_machine, run_history

PROPERTY = "C02"
RULE = (
    "episodes: env + config + batch of generator/lattice instances + per-row (mode, choice stream); invariants after "
    "every step of the batched loop: every row (finished or not) is offered >=1 action while any row is unfinished, "
    "done is monotone per row, no NaN in float state, each row finishes within the problem's step bound; plus the "
    "library's rollout() with its random policy and max_steps=bound. machine: Hypothesis RuleBasedStateMachine over "
    "the batched state with rules step(stream choices) / step(finished rows take last|first offered action). "
    "Non-trivial = batch in which some row finished >=2 steps before another (mixed finished/unfinished states); "
    "environments whose rows always finish together are judged on the invariants only. FJSP/JSSP also with "
    "check_mask=True (the step's own assertion must never fire) and stepwise_reward=True; MDCPDP also start_mode='random'. "
    "ctor_kwargs: env built with allow_done_after_reset / run_type_checks (and batch_size=[B] + argument-less reset() "
    "for FLP/MCP, the only envs whose construction accepts it on the pinned tree), started via reset(batch_size=int) | "
    "reset(batch_size=[B]) | reset(): reset state equal to the plain env's under the same seed, same episode invariants."
)
ASSUMPTIONS = [
    "step bounds: n (TSP/ATSP/PDP/SMTWTP), n+1 (PDP forced start, PCTSP), 2n+1 (CVRP/CVRPTW/MTVRP), n+T (SVRP), "
    "2(n+ceil(sum demand))+1 (SDVRP), n+2 (OP), n-1+m-1 (mTSP), 2*ops+1 (FJSP/JSSP), loose horizon bound (FFSP), quota (FLP/MCP)",
    "one quota per batch for FLP/MCP; one FFSP env object per episode",
    "SVRP single-technician configurations are excluded (known boundary finding F21 is tracked in C18)",
]


def nan_keys(td):
    bad = []
    for k in td.keys():
        v = td[k]
        if isinstance(v, torch.Tensor) and v.dtype.is_floating_point and bool(torch.isnan(v).any()):
            bad.append(k)
    return bad


def execute(case, ctx):
    spec, env, inst, insts, ep = play(case, ctx, keep_states=True)
    name = case["env"]
    sl = spec.slice_of(case["cfg"])
    ctx.event(f"env:{name}")
    B = len(insts)
    det = {"actions": ep.actions_tensor().tolist() if ep.T else [], "B": B}
    if ep.dead_end is not None:
        t, b = ep.dead_end
        fin = ep.finish_step(b)
        ctx.violation(f"{name}|{sl}|dead_end|{'finished_row' if fin is not None else 'unfinished_row'}",
                      f"row {b} is offered no action at step {t} while the batch is unfinished", {**det, "row": b, "step": t})
        return
    if ep.done_regressed is not None:
        ctx.violation(f"{name}|{sl}|done_regressed", f"row {ep.done_regressed[1]} became unfinished again at step {ep.done_regressed[0]}", det)
    if ep.cap_hit:
        ctx.violation(f"{name}|{sl}|step_bound", f"episode did not finish within {ep.T} steps", det)
        return
    for t, s in enumerate(ep.states):
        bad = nan_keys(s)
        if bad:
            ctx.violation(f"{name}|{sl}|nan_state", f"NaN in state keys {bad} after step {t}", det)
            break
    fins = [ep.finish_step(b) for b in range(B)]
    for b in range(B):
        bound = spec.bound(case["cfg"], insts[b])
        if fins[b] is None or fins[b] > bound:
            ctx.violation(f"{name}|{sl}|row_step_bound", f"row {b} finished after {fins[b]} steps, bound {bound}",
                          {**det, "row": b, "instance": insts[b]})
    if fins and max(fins) - min(fins) >= 2:
        ctx.nontriv()
        ctx.event("mixed_finish>=2")
    elif name in ("tsp", "atsp", "pdp", "smtwtp", "flp", "mcp"):
        ctx.event("no_padding_possible")
        if B >= 2:
            ctx.nontriv()
    ctx.sample({"env": name, "cfg": case["cfg"], "B": B, "finish_steps": fins})


def execute_rollout(case, ctx):
    from rl4co.utils.decoding import random_policy, rollout

    spec = SPECS[case["env"]]
    name = case["env"]
    sl = spec.slice_of(case["cfg"])
    env = spec.env(case["cfg"])
    inst = ctx.guard(spec.instance, case, what=f"instance|{name}")
    insts = [py_instance(name, inst[b]) for b in range(inst.batch_size[0])]
    td = env.reset(inst.clone())
    torch.manual_seed(case["seed"])
    bound = max(spec.bound(case["cfg"], r) for r in insts)
    rew, td_f, A = ctx.guard(rollout, env, td, random_policy, bound + 5, what=f"rollout|{name}|{sl}")
    ctx.check(A.shape[1] <= bound, f"{name}|{sl}|rollout_step_bound",
              f"random rollout took {A.shape[1]} steps, bound {bound}", {"actions": A.tolist()})
    ctx.check(bool(row_done(td_f["done"], len(insts)).all()), f"{name}|{sl}|rollout_not_done", "rollout stopped before done")
    ctx.event(f"env:{name}")
    if A.shape[1] >= 3 and len(insts) >= 2:
        ctx.nontriv()


# ---------------------------------------------------------------- constructor options of RL4COEnvBase / reset routes
def ctor_cases(tier):
    @st.composite
    def c(draw):
        case = draw(episode_cases(tier, ALL_ENVS, sources=("gen",)))
        case.pop("env_shape", None)
        case["stepping"] = "default"
        opts = {}
        if draw(st.booleans()):
            opts["allow_done_after_reset"] = True
        if draw(st.booleans()):
            opts["run_type_checks"] = True
        route = draw(st.sampled_from(["int", "int", "list", "ctor_batch_size"]))
        if route == "ctor_batch_size":
            if case["env"] in ("flp", "mcp"):
                # RL4COEnvBase(batch_size=[B]) + argument-less reset(): on the pinned tree only the environments without
                # tensor specs accept a constructor batch size (every other env raises in torchrl's spec/batch-size
                # consistency check at construction - unsupported there, not drawn)
                opts["batch_size"] = [case["B"]]
            else:
                route = "int"
        case["ctor"], case["route"] = opts, route
        return case
    return c()


def execute_ctor(case, ctx):
    """Episodes on env objects built with the base-class constructor options allow_done_after_reset / run_type_checks
    (/ batch_size for FLP, MCP) and started through reset(batch_size=<int>) / reset(batch_size=[B]) / reset(): the reset
    state is the one the plain env produces by reset(batch_size=[B]) under the same torch seed, and the episode obeys the
    same invariants (an action for every row, done monotone, step bound)."""
    from ..episode import run_episode

    name, cfg, B = case["env"], case["cfg"], case["B"]
    spec = SPECS[name]
    sl = spec.slice_of(cfg)
    opts, route = case["ctor"], case["route"]
    tag = "+".join(sorted(opts)) or "no_option"
    ctx.event(f"env:{name}")
    ctx.event(f"ctor:{tag}")
    ctx.event(f"reset_route:{route}")
    plain = ctx.guard(spec.env, cfg, what=f"build_env|{name}")
    env = ctx.guard(spec.build, dict(cfg, _ctor=opts), what=f"build_env|{name}|{tag}")
    torch.manual_seed(case["seed"])
    ref = ctx.guard(plain.reset, batch_size=[B], what=f"reset|{name}")
    torch.manual_seed(case["seed"])
    if route == "int":
        td = ctx.guard(env.reset, batch_size=B, what=f"reset(batch_size=int)|{name}|{tag}")
    elif route == "list":
        td = ctx.guard(env.reset, batch_size=[B], what=f"reset(batch_size=list)|{name}|{tag}")
    else:
        td = ctx.guard(env.reset, what=f"reset()|{name}|{tag}")
    ctx.check(tuple(td.batch_size) == (B,), f"{name}|{sl}|reset_batch_size|{route}",
              f"reset via route {route} returned batch size {tuple(td.batch_size)}, requested {B}")
    for k in ref.keys():
        a, b = ref[k], td[k] if k in td.keys() else None
        same = isinstance(b, torch.Tensor) and a.shape == b.shape and bool(((a == b) | ((a != a) & (b != b))).all())
        if not same:
            ctx.violation(f"{name}|{sl}|reset_state_differs|{route}|{tag}",
                          f"state key {k!r} after reset via {route} on an env built with {opts} differs from "
                          f"reset(batch_size=[{B}]) of the plain env under the same seed")
            break
    insts = [py_instance(name, td[b]) for b in range(B)]
    rows = case["rows"]
    modes = [rows[b % len(rows)]["mode"] for b in range(B)]
    streams = [rows[b % len(rows)]["stream"] for b in range(B)]
    try:
        bound = max(spec.bound(cfg, r) for r in insts)
    except KeyError:
        bound = None  # bound needs instance keys the reset state does not carry under that name
    if bound is None:
        ctx.event("bound_unavailable_from_reset_state")
        return
    ep = ctx.guard(run_episode, env, td, modes, streams, bound + 3, False, False, what=f"episode|{name}|{tag}")
    det = {"actions": ep.actions_tensor().tolist() if ep.T else [], "B": B, "ctor": opts, "route": route}
    if ep.dead_end is not None:
        t, b = ep.dead_end
        ctx.violation(f"{name}|{sl}|dead_end|{'finished_row' if ep.finish_step(b) is not None else 'unfinished_row'}",
                      f"row {b} is offered no action at step {t} (env built with {opts})", det)
        return
    if ep.done_regressed is not None:
        ctx.violation(f"{name}|{sl}|done_regressed", "a finished row became unfinished again", det)
    if ep.cap_hit:
        ctx.violation(f"{name}|{sl}|step_bound", f"episode did not finish within {ep.T} steps (env built with {opts})", det)
        return
    if opts or route != "list":
        ctx.nontriv()


# ---------------------------------------------------------------- state machine
class BatchHarness:
    """State = batched td of one env; every op steps the whole batch once."""

    def __init__(self, ctx, init):
        self.ctx = ctx
        self.case = init
        self.spec = SPECS[init["env"]]
        self.name = init["env"]
        self.sl = self.spec.slice_of(init["cfg"])
        self.env = self.spec.env(init["cfg"])
        inst = ctx.guard(self.spec.instance, init, what=f"instance|{self.name}")
        self.B = inst.batch_size[0]
        self.insts = [py_instance(self.name, inst[b]) for b in range(self.B)]
        self.bound = max(self.spec.bound(init["cfg"], r) for r in self.insts)
        seed_reset(self.env, inst)  # resets that draw from the global RNG (MDCPDP start_mode="random") replay from the case
        self.td = ctx.guard(self.env.reset, inst.clone(), what=f"reset|{self.name}")
        self.done = row_done(self.td["done"], self.B)
        self.steps = 0
        self.first_done = [None] * self.B
        self.acts = []
        ctx.event(f"env:{self.name}")

    def all_done(self):
        return bool(self.done.all())

    def pre_step(self):
        return not self.all_done()

    def do_step(self, finished_mode, choices):
        mask = flat_mask(self.td["action_mask"], self.B)
        modes = ["stream" if not bool(self.done[b]) else finished_mode for b in range(self.B)]
        streams = [[choices[b % len(choices)]] for b in range(self.B)]
        acts = pick_actions(mask, modes, streams, 0)
        if bool((acts < 0).any()):
            b = int(torch.nonzero(acts < 0)[0])
            self.ctx.violation(f"{self.name}|{self.sl}|dead_end|{'finished_row' if bool(self.done[b]) else 'unfinished_row'}",
                               f"row {b} offered no action at step {self.steps}", {"actions": self.acts, "row": b},
                               abort_known=True)
        td = self.td.clone()
        td.set("action", acts)
        self.td = self.ctx.guard(lambda: self.env.step(td)["next"], what=f"step|{self.name}|{self.sl}")
        self.acts.append(acts.tolist())
        self.steps += 1
        nd = row_done(self.td["done"], self.B)
        if bool((self.done & ~nd).any()):
            self.ctx.violation(f"{self.name}|{self.sl}|done_regressed", "a finished row became unfinished", {"actions": self.acts})
        for b in range(self.B):
            if bool(nd[b]) and self.first_done[b] is None:
                self.first_done[b] = self.steps
        self.done = nd

    def check(self):
        bad = nan_keys(self.td)
        if bad:
            self.ctx.violation(f"{self.name}|{self.sl}|nan_state", f"NaN in {bad}", {"actions": self.acts})
        if self.steps > self.bound and not self.all_done():
            self.ctx.violation(f"{self.name}|{self.sl}|step_bound", f"unfinished after {self.steps} > bound {self.bound}",
                               {"actions": self.acts})
        fd = [f for f in self.first_done if f is not None]
        if self.all_done() and fd and max(fd) - min(fd) >= 2:
            self.ctx.nontriv({"c": self.case, "a": self.acts})


def init_strategy(tier):
    return episode_cases(tier, ALL_ENVS).map(lambda c: {k: v for k, v in c.items() if k != "rows"})


RULES = {"step": {"finished_mode": st.sampled_from(["last", "first", "stream"]),
                  "choices": st.lists(st.integers(0, 63), min_size=1, max_size=6)}}


def machine(ctx, tier, deadline):
    return make_machine(BatchHarness, init_strategy(tier), RULES, ctx, deadline)


def preimport():
    from ..eda import data_dir
    data_dir()


SUBS = [
    Sub("episodes", execute, strategy=lambda tier: episode_cases(tier, ALL_ENVS),
        budget={"quick": 6000, "thorough": 80000}, shards=16),
    Sub("rollout", execute_rollout, strategy=lambda tier: episode_cases(tier, ALL_ENVS, sources=("gen",)),
        budget={"quick": 1500, "thorough": 20000}, shards=16),
    Sub("ctor_kwargs", execute_ctor, strategy=ctor_cases, budget={"quick": 640, "thorough": 8000}, shards=16),
    Sub("machine", lambda case, ctx: run_history(BatchHarness, case, ctx), machine=machine,
        budget={"quick": 320, "thorough": 6000}, steps={"quick": 40, "thorough": 80}, shrink=False,
        minimize=ops_minimizer, shards=16),
]
TIME_CAP = {"quick": 400, "thorough": 3000}
