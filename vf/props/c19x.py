"""C19 — persistence round trips preserve instances, environments and policies.

Targets
  (a) rl4co.data.utils.save_tensordict_to_npz / load_npz_to_tensordict                           sub `npz`
  (b) rl4co.data.generate_data.generate_dataset / generate_env_data / generate_*_data files consumed by
      env.load_data (base, CVRP normalisation, MTVRP scale) and env.dataset, then env.reset             sub `datasets`
  (c) FJSP parser.write / FJSPFileGenerator / FJSPEnv.load_data, JSSP text files / JSSPFileGenerator /
      JSSPEnv.load_data                                                                            sub `sched_files`
  (d) copy.deepcopy / pickle of every environment class in vf.envs.SPECS (RL4COEnvBase.__getstate__)  sub `env_copy`
  (e) Lightning checkpoints of REINFORCE (+baselines), POMO, A2C, PPO                            sub `checkpoint`
  (f) RL4COEnvBase(data_dir=, train_file=, val_file=, test_file=, *_dataloader_names=, dataset_cls=) followed by
      env.dataset(n, phase) / env.dataset(n, phase, filename=) for every env spec: npz files, lists of files,
      FJSP/JSSP directories of text instances and single JSSP text files                         sub `env_files`

Oracles: bit equality of tensors (dtype, shape, bytes; NaN == NaN) against the object that was written, the
documented normalisation recomputed independently in numpy float32, an independent reader/writer of the two text
formats, and equality of complete stream-driven episodes (mask offered at every step, action, done flag, reward)
between the restored object and the original one.
"""
import contextlib
import copy
import io
import os
import pickle
import shutil
import tempfile

import hypothesis.strategies as st
import numpy as np
import torch
from tensordict import TensorDict

from ..envs import ALL_ENVS, SPECS, episode_cases, py_instance, row_strategy
from ..episode import run_episode
from ..runner import Sub

PROPERTY = "C19X"
RULE = (
    "npz: generator tds and reset-state tds of all 18 env specs plus hand-built tds (1-6 keys, dtypes f16/f32/f64/"
    "i8/i16/i32/i64/u8/bool/c64, trailing shapes incl. zero-size dims, non-contiguous / expanded / strided views, "
    "inf/-0.0/NaN planted), +-compress. datasets: generate_dataset files (tsp any n, vrp n in 10/15/20(/30/50), "
    "pctsp/op n=20, op const/unif/dist, pdp, atsp, mdpp 10x10 with synthetic PDN data) and generate_env_data arrays "
    "written through save_tensordict_to_npz (small n through the max_lengths / tmat_class keyword arguments), CVRP "
    "files with per-row different capacities, dataset sizes 1..13, read through env.load_data or env.dataset("
    "phase='val'); MTVRP generator.save_data -> env.load_data(scale on/off) for scaled and unscaled generators. "
    "sched_files: FJSP/JSSP generator or lattice instances (1-5 per directory) written by parser.write or by an "
    "independent writer under shuffled file names, read by the file generators (whole / chunked), env.load_data "
    "(explicit and default batch size) or an env built with generator_params=file_path. env_copy: every env spec, "
    "deepcopy / pickle, global RNG advanced before and after the dump, env optionally used for an episode first. "
    "env_files: every env spec of vf.envs (sizes <= 20; FJSP/JSSP drawn 5x as often) built through its real "
    "constructor with data_dir (with/without trailing slash) and, per phase train/val/test, no file | one file | a "
    "list of two files (val/test, default or custom *_dataloader_names) | for JSSP one .txt file; every file holds "
    "1-4 freshly drawn instances of its own (npz written by save_tensordict_to_npz, CVRP/SDVRP in the "
    "generate_vrp_data layout with one capacity per row; scheduling instances written by the independent text "
    "writer), names plain / in a sub-directory / (text directories) with a trailing slash or a dotted name; read "
    "back by env.dataset(n, phase=...) or env.dataset(n, phase, filename=<path>) (the constructor then names no "
    "file or another existing file for that phase) with n omitted, below, equal to or above the file size, as int "
    "or [n]; dataset_cls default or FastTdDataset. Oracle: the dataset holds exactly the instances of the named "
    "file(s) - npz: all rows in file order whatever n; text: min(n, #files) distinct instances of the directory - "
    "never generator output or another phase's file; phases without a file give n generated instances; one phase's "
    "stream-driven episode (masks, dones, reward) equals the episode on the in-memory original. "
    "checkpoint (enumerated, not searched): every pair of {REINFORCE(no/rollout/exponential/mean/critic), POMO, A2C, "
    "PPO} x {tsp, cvrp} 3 times (thorough: 20 times) with a 1-layer AttentionModelPolicy (embed 16/32), 5-8 nodes, "
    "1 epoch (thorough: 1-2) on 8-16 instances, remaining parameters from a RandomState seeded by the run seed. "
    "Non-trivial = npz td with >=2 "
    "dtypes or a non-contiguous entry; dataset size not in {1,2,4,8,10} ; scheduling directory with >=2 instances "
    "of different operation counts; env whose RNG was advanced before the dump; env_files case with >=2 phases read from files and at least one "
    "call whose n differs from the file size; checkpoint whose trained policy "
    "differs from its initialisation (and, for rollout, whose baseline policy differs from the trained policy). "
    "Distinct = distinct case hash."
)
ASSUMPTIONS = [
    "TORCH_FORCE_NO_WEIGHTS_ONLY_LOAD=1 (set by ./check): torch 2.14 refuses to unpickle the env / policy stored in "
    "the hyper-parameters of any rl4co checkpoint otherwise (clean error, outside this property)",
    "npz file names carry the .npz extension (np.savez appends it, np.load does not); flat tensordicts with a 1-D "
    "batch size; keys are python identifiers other than `file`",
    "scheduling instances are compared on their non-padded columns (padding width and padded content are free); "
    "start/end operation ids are compared by value (the file readers return float32 ids); directory order is the "
    "order of FileGenerator.files (os.listdir order, unsorted) — rows are matched to files by name, env.load_data "
    "results as a multiset",
    "env_files: file names handed to the constructor carry their suffix (.npz is NOT appended by RL4COEnvBase on the "
    "unchanged tree - check_extension is only used by generate_dataset - and the shipped configs/env/*.yaml spell it "
    "out; scheduling configs name extension-less directories, e.g. test_file: 10j_10m); names are relative to "
    "data_dir (os.path.join), absolute names are not exercised; a single text file is only given to JSSPEnv "
    "(JSSPFileGenerator tests os.path.isfile, FJSPFileGenerator always lists a directory); lists of files only for "
    "val/test (train_file is joined as one name); dataset(filename=) takes one full path, not joined with data_dir "
    "(tasks/eval.py); counts: load_npz_to_tensordict ignores batch_size, so an npz phase returns the whole file "
    "for every n, the text-file generators return min(n, number of files) with a warning (both observed on the "
    "unchanged tree and stated in the loaders); dataset_cls is not passed to FFSPEnv, which fixes FastTdDataset "
    "itself; the spec builders of vf.envs are reused by temporarily binding rl4co.envs.<Class> to "
    "functools.partial(<Class>, data_dir=..., ...): the real constructor runs with the spec's arguments plus the "
    "file arguments",
    "CVRP normalisation = demand / capacity[:, None] in float32; MTVRP scale = demand_{linehaul,backhaul} / "
    "capacity_original in float32 (vehicle_capacity is left as stored)",
    "MDPP: the real PDN data files cannot be downloaded here; the env is built on synthetic diagonally dominant "
    "complex matrices written to <scratch>/data/dpp, with the working directory switched to the scratch directory "
    "while the env is constructed (MDPPEnv always builds a default DPPGenerator that reads data/dpp/ relative to cwd)",
    "WarmupBaseline.alpha and ExponentialBaseline.v are plain attributes that checkpoints do not carry; only module "
    "parameters/buffers and the rollout-baseline policy are asserted (observation, not an alarm)",
    "trainer: RL4COTrainer(accelerator='cpu', precision='32-true', matmul_precision=None, logger=False, "
    "enable_checkpointing=False) + trainer.save_checkpoint(path); scratch directories live under tempfile.gettempdir()",
]
TIME_CAP = {"quick": 400, "thorough": 3000}


# --------------------------------------------------------------------------- helpers
PHASES = ("train", "val", "test")


@contextlib.contextmanager
def scratch():
    d = tempfile.mkdtemp(prefix="vf-c19-")
    try:
        yield d
    finally:
        shutil.rmtree(d, ignore_errors=True)


@contextlib.contextmanager
def cwd(path):
    old = os.getcwd()
    os.chdir(path)
    try:
        yield
    finally:
        os.chdir(old)


def same_tensor(a, b):
    """dtype, shape and values identical (NaN equals NaN)."""
    if a.dtype != b.dtype or tuple(a.shape) != tuple(b.shape):
        return False
    if a.numel() == 0:
        return True
    if a.dtype.is_floating_point or a.dtype.is_complex:
        return bool(((a == b) | ((a != a) & (b != b))).all())
    return bool(torch.equal(a, b))


def td_diff(want, got, dtypes=True):
    """First difference between two flat tensordicts / dicts of tensors, or None."""
    kw, kg = sorted(want.keys()), sorted(got.keys())
    if kw != kg:
        return f"keys differ: written {kw} read {kg}"
    for k in kw:
        a, b = want[k], got[k]
        if tuple(a.shape) != tuple(b.shape):
            return f"{k}: shape {tuple(a.shape)} -> {tuple(b.shape)}"
        if dtypes and a.dtype != b.dtype:
            return f"{k}: dtype {a.dtype} -> {b.dtype}"
        if not same_tensor(a, b.to(a.dtype)):
            return f"{k}: values differ"
    return None


def rows_of(case, B):
    rows = case["rows"]
    return [rows[b % len(rows)]["mode"] for b in range(B)], [rows[b % len(rows)]["stream"] for b in range(B)]


def ep_diff(e1, e2):
    """First difference between two recorded episodes (masks, actions, dones), or None."""
    if (e1.dead_end is None) != (e2.dead_end is None) or e1.cap_hit != e2.cap_hit:
        return f"termination differs: dead_end {e1.dead_end}/{e2.dead_end} cap {e1.cap_hit}/{e2.cap_hit}"
    for t in range(min(len(e1.masks), len(e2.masks))):
        if e1.masks[t].shape != e2.masks[t].shape or not torch.equal(e1.masks[t], e2.masks[t]):
            return f"mask differs at step {t}"
        if t < min(e1.T, e2.T) and not torch.equal(e1.actions[t], e2.actions[t]):
            return f"action differs at step {t}"
        if t < min(len(e1.dones), len(e2.dones)) and not torch.equal(e1.dones[t], e2.dones[t]):
            return f"done differs at step {t}"
    if e1.T != e2.T or len(e1.masks) != len(e2.masks):
        return f"episode length {e1.T} vs {e2.T}"
    return None


def finished(ep):
    return ep.dead_end is None and not ep.cap_hit and ep.T > 0


def compare_episodes(ctx, tag, env_a, td_a, env_b, td_b, modes, streams, cap):
    """Run the same choice streams on (env_a, td_a) = original and (env_b, td_b) = restored."""
    e1 = run_episode(env_a, td_a, modes, streams, cap)  # the original side is trusted here (C01-C08 judge it)
    e2 = ctx.guard(run_episode, env_b, td_b, modes, streams, cap, what=f"episode|{tag}")
    d = ep_diff(e1, e2)
    if d is not None:
        ctx.violation(f"{tag}|mask_mismatch", f"episode on the restored object differs from the original: {d}",
                      {"orig_actions": e1.actions_tensor(), "rest_actions": e2.actions_tensor()})
        return e1, e2
    if finished(e1):
        A = e1.actions_tensor()
        r1 = env_a.get_reward(e1.td.clone(), A.clone())
        r2 = ctx.guard(env_b.get_reward, e2.td.clone(), A.clone(), what=f"get_reward|{tag}")
        ok = r1.shape == r2.shape and same_tensor(r1, r2)
        ctx.check(ok, f"{tag}|reward_mismatch", "reward of the same action sequence differs after the round trip",
                  {"orig": r1, "restored": r2, "actions": A})
        ctx.event("episode_compared_with_reward")
    else:
        ctx.event("episode_compared_unfinished")
    return e1, e2


def try_instance(ctx, spec, case):
    """Instance of the case; generator crashes belong to C18 and are excluded here."""
    try:
        return spec.instance(case)
    except Exception:  # noqa
        ctx.exclude("instance_generation_crashed(C18)")
        return None


# =========================================================================== (a) npz
DTYPES = {"f16": torch.float16, "f32": torch.float32, "f64": torch.float64, "i8": torch.int8, "i16": torch.int16,
          "i32": torch.int32, "i64": torch.int64, "u8": torch.uint8, "bool": torch.bool, "c64": torch.complex64}
KEYS = ["locs", "depot", "demand", "capacity", "x", "a_b", "Key", "k0", "action_mask", "z9", "visited", "i",
        "current_node", "cost_matrix", "Arr_0", "_p"]


@st.composite
def npz_cases(draw, tier="quick"):
    kind = draw(st.sampled_from(["env", "env", "reset", "mixed", "mixed"]))
    case = {"kind": kind, "compress": draw(st.booleans()), "B": draw(st.integers(1, 6))}
    if kind in ("env", "reset"):
        name = draw(st.sampled_from(ALL_ENVS))
        case.update(env=name, cfg=draw(SPECS[name].cfg(tier)), seed=draw(st.integers(0, 2 ** 31 - 1)), src="gen")
    else:
        keys = draw(st.lists(st.sampled_from(KEYS), min_size=1, max_size=6, unique=True))
        ents = []
        for k in keys:
            ents.append({"key": k, "dtype": draw(st.sampled_from(sorted(DTYPES))),
                         "shape": draw(st.lists(st.integers(0, 4), min_size=0, max_size=3)),
                         "layout": draw(st.sampled_from(["contig", "contig", "transposed", "expanded", "strided"])),
                         "seed": draw(st.integers(0, 2 ** 20))})
        case["entries"] = ents
    return case


def make_tensor(e, B):
    g = torch.Generator().manual_seed(e["seed"])
    dt = DTYPES[e["dtype"]]
    rest = list(e["shape"])
    layout = e["layout"]
    shape = [B] + rest
    if layout == "transposed" and len(rest) >= 2:
        shape = [B] + rest[:-2] + [rest[-1], rest[-2]]
    elif layout == "expanded" and len(rest) >= 1:
        shape = [B] + [1] + rest[1:]
    elif layout == "strided":
        shape = [2 * B] + rest

    if dt == torch.bool:
        t = torch.randint(0, 2, shape, generator=g).bool()
    elif dt == torch.complex64:
        t = torch.complex(torch.randn(shape, generator=g), torch.randn(shape, generator=g))
    elif dt.is_floating_point:
        t = (torch.randn(shape, generator=g, dtype=torch.float64) * 10.0 ** (e["seed"] % 5 - 1)).to(dt)
        if t.numel() > 0:
            f = t.reshape(-1)
            f[0] = float("inf") if e["seed"] % 2 else -0.0
            if e["seed"] % 3 == 0:
                f[-1] = float("nan")
    else:
        info = torch.iinfo(dt)
        lo, hi = max(info.min, -2 ** 62), min(info.max, 2 ** 62)
        t = torch.randint(lo, hi, shape, generator=g, dtype=torch.int64).to(dt)
        if t.numel() > 0:
            t.reshape(-1)[0] = info.max
    if layout == "transposed" and len(rest) >= 2:
        t = t.transpose(-1, -2)
    elif layout == "expanded" and len(rest) >= 1:
        t = t.expand([B] + rest)
    elif layout == "strided":
        t = t[::2]
    return t


def exec_npz(case, ctx):
    from rl4co.data.utils import load_npz_to_tensordict, save_tensordict_to_npz

    B = case["B"]
    kind = case["kind"]
    if kind == "mixed":
        td = TensorDict({e["key"]: make_tensor(e, B) for e in case["entries"]}, batch_size=[B])
        label = "mixed"
        noncontig = any(not v.is_contiguous() for v in td.values())
    else:
        spec = SPECS[case["env"]]
        td = try_instance(ctx, spec, case)
        if td is None:
            return
        if kind == "reset":
            env = spec.env(case["cfg"])
            try:
                tdr = env.reset(td.clone())
            except Exception:  # noqa  (reset crashes are C01/C02 business)
                ctx.exclude("reset_crashed")
                return
            td = TensorDict({k: v for k, v in tdr.items() if isinstance(v, torch.Tensor)}, batch_size=[B])
        label = f"{kind}|{case['env']}"
        noncontig = False
    ctx.event(f"npz|{label}|{'compressed' if case['compress'] else 'plain'}")
    want = {k: v.clone() for k, v in td.items()}
    with scratch() as d:
        fn = os.path.join(d, "inst.npz")
        ctx.guard(save_tensordict_to_npz, td, fn, compress=case["compress"], what="save_tensordict_to_npz")
        ctx.check(os.path.isfile(fn), "npz|file_missing", "save_tensordict_to_npz did not create the file")
        td2 = ctx.guard(load_npz_to_tensordict, fn, what="load_npz_to_tensordict")
        diff = td_diff(want, td2)
        ctx.check(diff is None, f"npz|content|{'env' if kind != 'mixed' else 'mixed'}",
                  f"npz round trip changed the tensordict: {diff}",
                  {"dtypes": {k: str(v.dtype) for k, v in want.items()}})
        ctx.check(tuple(td2.batch_size) == (B,), "npz|batch_size", f"batch size {tuple(td2.batch_size)} != ({B},)")
        # the saved object itself must be untouched
        d0 = td_diff(want, td)
        ctx.check(d0 is None, "npz|source_modified", f"saving modified the source tensordict: {d0}")
    ndt = len({v.dtype for v in want.values()})
    for v in want.values():
        ctx.event(f"dtype|{str(v.dtype).replace('torch.', '')}")
    if ndt >= 2 or noncontig:
        ctx.nontriv()
    ctx.sample({"kind": kind, "env": case.get("env"), "keys": {k: [str(v.dtype), list(v.shape)] for k, v in want.items()}})


# =========================================================================== (b) datasets
VRP_SIZES_Q, VRP_SIZES_T = [10, 15, 20], [10, 15, 20, 30, 50]


@st.composite
def ds_cases(draw, tier="quick"):
    big = tier != "quick"
    prob = draw(st.sampled_from(["tsp", "vrp", "vrp", "vrp", "pctsp", "op", "op", "pdp", "atsp", "mdpp",
                                 "mtvrp", "mtvrp"]))
    size = draw(st.integers(1, 13))
    case = {"prob": prob, "size": size, "seed": draw(st.integers(0, 2 ** 31 - 1)),
            "rows": draw(st.lists(row_strategy(), min_size=1, max_size=4)),
            "compress": draw(st.booleans())}
    if prob == "mtvrp":
        case.update(cfg=draw(SPECS["mtvrp"].cfg(tier)), scale_demand=draw(st.booleans()), scale=draw(st.booleans()))
        return case
    via = draw(st.sampled_from(["dataset", "env_data"]))
    small = st.integers(2, 9) if not big else st.integers(2, 20)
    kw = {}
    dist = None
    if prob == "tsp":
        n = draw(small)
    elif prob == "vrp":
        n = draw(st.sampled_from(VRP_SIZES_T if big else VRP_SIZES_Q))
        via = draw(st.sampled_from(["dataset", "env_data", "mixed_capacity", "mixed_capacity"]))
        if via == "mixed_capacity":
            kw["cap2"] = draw(st.sampled_from([9.0, 12.0, 17.0, 45.0, 64.0]))
            kw["split"] = draw(st.integers(0, size))
        case["envcls"] = draw(st.sampled_from(["CVRPEnv", "CVRPEnv", "SDVRPEnv"]))
    elif prob == "pctsp":
        n = 20 if via == "dataset" else draw(small)
        if via == "env_data":
            kw["max_length"] = draw(st.sampled_from([1.0, 2.0, 3.0]))
        case["envcls"] = draw(st.sampled_from(["PCTSPEnv", "SPCTSPEnv"]))
    elif prob == "op":
        dist = draw(st.sampled_from(["const", "unif", "dist"]))
        n = 20 if via == "dataset" else draw(small)
        if via == "env_data":
            kw["max_length"] = draw(st.sampled_from([1.0, 1.5, 2.0, 3.0]))
    elif prob == "pdp":
        n = 2 * draw(st.integers(1, 4 if not big else 10))
    elif prob == "atsp":
        n = draw(small)
        if via == "env_data":
            kw["tmat_class"] = draw(st.booleans())
    else:  # mdpp
        n = 10
    case.update(via=via, n=n, dist=dist, kw=kw, loader=draw(st.sampled_from(["load_data", "load_data", "dataset"])))
    return case


def _gen_arrays(case, size, seed, cap_override=None):
    """Independent call of the generator function under the numpy seed the library uses."""
    from rl4co.data.generate_data import generate_env_data

    prob, n, dist, kw = case["prob"], case["n"], case["dist"], case["kw"]
    np.random.seed(seed)
    with contextlib.redirect_stdout(io.StringIO()):  # generate_vrp_data prints when a capacity is replaced
        return _gen_arrays_inner(generate_env_data, prob, n, dist, kw, size, cap_override)


def _gen_arrays_inner(generate_env_data, prob, n, dist, kw, size, cap_override):
    if prob in ("op", "pctsp") and "max_length" in kw:
        return generate_env_data(prob, size, n, dist, max_lengths={n: kw["max_length"]})
    if prob == "atsp" and "tmat_class" in kw:
        return generate_env_data(prob, size, n, dist, tmat_class=kw["tmat_class"])
    if prob == "vrp" and cap_override is not None:
        return generate_env_data(prob, size, n, dist, capacities={n: cap_override})
    return generate_env_data(prob, size, n, dist)


def _mdpp_files(d):
    """Synthetic PDN data (diag-dominant complex matrices) so that the (M)DPP env can be built offline."""
    dd = os.path.join(d, "data", "dpp")
    os.makedirs(dd, exist_ok=True)
    rs = np.random.RandomState(12345)
    F, N = 3, 100
    A = (rs.rand(F, N, N) + 1j * rs.rand(F, N, N)) * 0.1
    A = A + np.transpose(A, (0, 2, 1))
    for f in range(F):
        A[f] += np.eye(N) * (N * 0.5)
    np.save(os.path.join(dd, "10x10_pkg_chip.npy"), A.astype(np.complex64))
    np.save(os.path.join(dd, "01nF_decap.npy"), (rs.rand(F, 1, 1) + 1j * rs.rand(F, 1, 1)).astype(np.complex64))
    np.save(os.path.join(dd, "freq_201.npy"), np.linspace(1e8, 1e9, F).astype(np.float32))
    return dd


ENV_OF = {"tsp": "TSPEnv", "vrp": "CVRPEnv", "pctsp": "PCTSPEnv", "op": "OPEnv", "pdp": "PDPEnv", "atsp": "ATSPEnv",
          "mdpp": "MDPPEnv"}


def exec_datasets(case, ctx):
    if case["prob"] == "mtvrp":
        return exec_mtvrp(case, ctx)
    import rl4co.envs as E
    from rl4co.data.generate_data import generate_dataset
    from rl4co.data.utils import save_tensordict_to_npz

    prob, n, dist, via, size, seed = case["prob"], case["n"], case["dist"], case["via"], case["size"], case["seed"]
    tag = f"{prob}{'_' + dist if dist else ''}"
    ctx.event(f"dataset|{tag}|{via}|{case['loader']}")
    with scratch() as d:
        fn = os.path.join(d, "sub", f"{tag}{n}_val_seed{seed}.npz")
        os.makedirs(os.path.dirname(fn))
        # ---- write the file
        if via == "dataset":
            ctx.guard(generate_dataset, filename=fn, problem=prob, data_distribution=dist if dist else "all",
                      dataset_size=size, graph_sizes=[n], seed=seed, what=f"generate_dataset|{tag}")
            ctx.check(os.path.isfile(fn), f"dataset|{tag}|file_missing", "generate_dataset wrote no file")
            arrays = ctx.guard(_gen_arrays, case, size, seed, what=f"generate_env_data|{tag}")
            on_disk = dict(np.load(fn))
            bad = sorted(set(on_disk) ^ set(arrays)) or [k for k in arrays if not (
                on_disk[k].dtype == arrays[k].dtype and on_disk[k].shape == arrays[k].shape
                and np.array_equal(on_disk[k], arrays[k], equal_nan=False))]
            ctx.check(not bad, f"dataset|{tag}|file_content",
                      f"file written by generate_dataset(seed={seed}) differs from generate_env_data under the same "
                      f"numpy seed in {bad}")
        else:
            if via == "mixed_capacity":
                k = case["kw"]["split"]
                a1 = ctx.guard(_gen_arrays, case, k, seed, what=f"generate_env_data|{tag}") if k > 0 else None
                a2 = ctx.guard(_gen_arrays, case, size - k, seed + 1, cap_override=case["kw"]["cap2"],
                               what=f"generate_env_data|{tag}") if size - k > 0 else None
                parts = [a for a in (a1, a2) if a is not None]
                arrays = {key: np.concatenate([p[key] for p in parts], 0) for key in parts[0]}
                if len({float(c) for c in arrays["capacity"]}) > 1:
                    ctx.event("vrp_file_with_different_capacities")
            else:
                arrays = ctx.guard(_gen_arrays, case, size, seed, what=f"generate_env_data|{tag}")
            tdw = TensorDict({k: torch.from_numpy(v.copy()) for k, v in arrays.items()}, batch_size=[size])
            ctx.guard(save_tensordict_to_npz, tdw, fn, compress=case["compress"], what="save_tensordict_to_npz")
        for k, v in arrays.items():
            ctx.check(v.shape[0] == size, f"dataset|{tag}|size", f"{k} has {v.shape[0]} rows for dataset_size {size}")

        # ---- expected in-memory instance (documented normalisation recomputed in numpy float32)
        exp = {k: torch.from_numpy(np.array(v)) for k, v in arrays.items()}
        if prob == "vrp":
            exp["demand"] = torch.from_numpy((arrays["demand"] / arrays["capacity"][:, None]).astype(np.float32))
        mem = TensorDict({k: v.clone() for k, v in exp.items()}, batch_size=[size])

        # ---- env + loader
        clsname = case.get("envcls") or ENV_OF[prob]
        env_kw = dict(data_dir=os.path.dirname(fn), val_file=os.path.basename(fn))
        if prob == "mdpp":
            _mdpp_files(d)
            with cwd(d):
                env = E.MDPPEnv(**env_kw)
        else:
            env = getattr(E, clsname)(generator_params=dict(num_loc=n), **env_kw)
        if case["loader"] == "load_data":
            td = ctx.guard(env.load_data, fn, what=f"load_data|{clsname}")
        else:
            ds = ctx.guard(env.dataset, phase="val", what=f"env.dataset|{clsname}")
            ctx.check(len(ds) == size, f"dataset|{tag}|len", f"env.dataset has {len(ds)} items for a file of {size}")
            td = ds.collate_fn([ds[i] for i in range(len(ds))])
        diff = td_diff(exp, td)
        ctx.check(diff is None, f"dataset|{tag}|loaded_content|{clsname}",
                  f"instance read through {clsname}.{case['loader']} differs from the generated arrays "
                  f"(up to the documented normalisation): {diff}")
        ctx.check(tuple(td.batch_size) == (size,), f"dataset|{tag}|batch_size",
                  f"loaded batch size {tuple(td.batch_size)} != ({size},)")
        # reading the same file again in the same process (val_file == test_file, a train file re-read every epoch)
        # must give the same instances again, also after the first result was post-processed / consumed
        td_again = ctx.guard(env.load_data, fn, what=f"load_data_again|{clsname}")
        diff2 = td_diff(exp, td_again)
        ctx.check(diff2 is None, f"dataset|{tag}|second_load_differs|{clsname}",
                  f"loading the same file a second time gives different instances: {diff2}")

        # ---- same episode on the loaded and on the in-memory instance
        modes, streams = rows_of(case, size)
        cap = 4 * n + 12 if prob != "mdpp" else 40
        compare_episodes(ctx, f"dataset|{tag}|{clsname}", env, mem, env, td, modes, streams, cap)
    if size not in (1, 2, 4, 8, 10):
        ctx.nontriv()
    ctx.sample({k: case[k] for k in ("prob", "n", "dist", "via", "size", "loader", "kw")})


def exec_mtvrp(case, ctx):
    from rl4co.envs import MTVRPEnv

    cfg, B, seed, sd, scale = case["cfg"], case["size"], case["seed"], case["scale_demand"], case["scale"]
    sl = f"gen_{'scaled' if sd else 'raw'}|load_{'scale' if scale else 'asis'}"
    ctx.event(f"mtvrp|{sl}")
    gp = dict(num_loc=cfg["n"], variant_preset=cfg["variant"], scale_demand=sd)
    env = MTVRPEnv(generator_params=gp, check_solution=False)
    torch.manual_seed(seed)
    try:
        td = env.generator(batch_size=[B])
    except Exception:  # noqa
        ctx.exclude("instance_generation_crashed(C18)")
        return
    want = {k: v.clone() for k, v in td.items()}
    with scratch() as d:
        fn = os.path.join(d, "mtvrp.npz")
        ctx.guard(env.generator.save_data, td, fn, what="mtvrp.save_data")
        loaded = ctx.guard(env.load_data, fn, scale=scale, what="mtvrp.load_data")
        loaded_again = ctx.guard(env.load_data, fn, scale=scale, what="mtvrp.load_data_again")
        d2 = td_diff(loaded, loaded_again)
        ctx.check(d2 is None, f"mtvrp|second_load_differs|{sl}", f"loading the same file twice gives different instances: {d2}")
    exp = {k: v.clone() for k, v in want.items()}
    if scale:
        C = want["capacity_original"].numpy()
        for k in ("demand_linehaul", "demand_backhaul"):
            exp[k] = torch.from_numpy((want[k].numpy() / C).astype(np.float32))
    diff = td_diff(exp, loaded)
    ctx.check(diff is None, f"mtvrp|loaded_content|{sl}", f"MTVRP save_data/load_data changed the instance: {diff}")
    if scale and not sd:
        # metamorphic: raw file + scale=True gives the demands the scaling generator draws under the same seed
        env_s = MTVRPEnv(generator_params=dict(gp, scale_demand=True), check_solution=False)
        torch.manual_seed(seed)
        tds = env_s.generator(batch_size=[B])
        ok = all(same_tensor(tds[k], loaded[k]) for k in ("demand_linehaul", "demand_backhaul"))
        ctx.check(ok, "mtvrp|scale_vs_scaled_generator",
                  "load_data(scale=True) of an unscaled file differs from the demands of the scaling generator")
        ctx.event("mtvrp|metamorphic_scale")
    mem = TensorDict({k: v.clone() for k, v in exp.items()}, batch_size=[B])
    modes, streams = rows_of(case, B)
    compare_episodes(ctx, f"mtvrp|{sl}", env, mem, env, loaded, modes, streams, 2 * cfg["n"] + 4)
    if B not in (1, 2, 4, 8, 10):
        ctx.nontriv()
    ctx.sample({"prob": "mtvrp", "cfg": cfg, "scale_demand": sd, "scale": scale, "size": B})


# =========================================================================== (c) scheduling files
@st.composite
def sched_cases(draw, tier="quick"):
    name = draw(st.sampled_from(["fjsp", "jssp"]))
    spec = SPECS[name]
    cfg = dict(draw(spec.cfg(tier)))
    if draw(st.booleans()):  # make different operation counts per instance likely
        cfg["jobs"] = max(cfg["jobs"], 2)
        cfg["max_ops"] = max(cfg["max_ops"], cfg["min_ops"] + 1)
        if "one2one" in cfg:
            cfg["one2one"] = False
    B = draw(st.sampled_from([1, 2, 3, 3, 4, 5]))
    src = draw(st.sampled_from(["gen", "lat"]))
    case = {"env": name, "cfg": cfg, "B": B, "src": src, "seed": draw(st.integers(0, 2 ** 31 - 1))}
    if src == "lat":
        case["lat"] = draw(spec.lattice(cfg, B))
    case["rows"] = [draw(row_strategy()) for _ in range(B)]
    case["writer"] = draw(st.sampled_from(["parser", "parser", "harness"])) if name == "fjsp" else "harness"
    case["loader"] = draw(st.sampled_from(["generator", "generator", "load_data", "load_data", "env_gen"]))
    case["names"] = draw(st.lists(st.integers(0, 9999), min_size=B, max_size=B, unique=True))
    case["chunk"] = draw(st.integers(1, B))
    return case


def canon(td_row):
    """(start ids, end ids, eligible {machine: duration} per real operation) of one instance row."""
    pad = td_row["pad_mask"].bool()
    nops = int((~pad).sum())
    pt = td_row["proc_times"][:, :nops]
    return {"start": [int(x) for x in td_row["start_op_per_job"].tolist()],
            "end": [int(x) for x in td_row["end_op_per_job"].tolist()],
            "nops": nops,
            "pad_ok": bool((~pad[:nops]).all()) and bool(pad[nops:].all()),
            "ops": [{int(m): float(pt[m, o]) for m in range(pt.shape[0]) if float(pt[m, o]) > 0} for o in range(nops)]}


def canon_key(c):
    return (tuple(c["start"]), tuple(c["end"]), tuple(tuple(sorted(o.items())) for o in c["ops"]))


def fjsp_text(c, mas):
    """Independent FJSPLIB writer: header `<jobs> <machines> <flex>`, one line per job
    `<n_ops> (<n_eligible> (<machine 1-based> <duration>)*)*`."""
    flex = round(sum(len(o) for o in c["ops"]) / max(1, c["nops"]), 5)
    lines = [f"{len(c['start'])} {mas} {flex}"]
    for s, e in zip(c["start"], c["end"]):
        parts = [str(e - s + 1)]
        for o in range(s, e + 1):
            parts.append(str(len(c["ops"][o])))
            for m, dur in sorted(c["ops"][o].items()):
                parts += [str(m + 1), str(int(dur))]
        lines.append(" ".join(parts))
    return "\n".join(lines) + "\n"


def jssp_text(c, mas):
    """JSSP text format of rl4co/envs/scheduling/jssp/parser.py: header `<jobs> <machines>`, one line per job with
    `<machine 1-based> <duration>` pairs."""
    lines = [f"{len(c['start'])} {mas}"]
    for s, e in zip(c["start"], c["end"]):
        parts = []
        for o in range(s, e + 1):
            (m, dur), = c["ops"][o].items()
            parts += [str(m + 1), str(int(dur))]
        lines.append(" ".join(parts))
    return "\n".join(lines) + "\n"


def parse_fjsp_text(text):
    """Independent FJSPLIB reader -> (jobs, machines, per job list of {machine0: duration})."""
    rows = [[float(x) for x in ln.split()] for ln in text.splitlines() if ln.strip()]
    jobs, mas = int(rows[0][0]), int(rows[0][1])
    out = []
    for r in rows[1:]:
        k, i, ops = int(r[0]), 1, []
        for _ in range(k):
            ne = int(r[i])
            i += 1
            op = {}
            for _ in range(ne):
                op[int(r[i]) - 1] = float(r[i + 1])
                i += 2
            ops.append(op)
        out.append(ops)
    return jobs, mas, out


def exec_sched(case, ctx):
    import rl4co.envs as E
    from rl4co.envs.scheduling.fjsp import parser as fjsp_parser
    from rl4co.envs.scheduling.fjsp.generator import FJSPFileGenerator
    from rl4co.envs.scheduling.jssp.generator import JSSPFileGenerator

    name, cfg, B = case["env"], case["cfg"], case["B"]
    spec = SPECS[name]
    env = spec.env(cfg)
    inst = try_instance(ctx, spec, case)
    if inst is None:
        return
    mas = cfg["mas"]
    orig = [canon(inst[b]) for b in range(B)]
    writer, loader = case["writer"], case["loader"]
    ctx.event(f"sched|{name}|{writer}|{loader}|{case['src']}")
    FileGen = FJSPFileGenerator if name == "fjsp" else JSSPFileGenerator
    EnvCls = E.FJSPEnv if name == "fjsp" else E.JSSPEnv
    with scratch() as d:
        dd = os.path.join(d, "inst")
        # ---- write: file name -> original index
        index_of = {}
        if writer == "parser":
            tdr = env.reset(inst.clone())
            texts = ctx.guard(fjsp_parser.write, dd, tdr, what="fjsp.parser.write")
            files = sorted(os.listdir(dd))
            ctx.check(len(files) == B, "fjsp|write|n_files", f"parser.write produced {len(files)} files for {B} instances")
            for b, f in enumerate(files):  # names are <id+1>_<j>j_<m>m.txt: sorted by name = original order
                index_of[f] = b
            # independent reader of the documented FJSPLIB format
            for b in range(B):
                with open(os.path.join(dd, files[b])) as fh:
                    txt = fh.read()
                ctx.check(txt == texts[b], "fjsp|write|returned_text", "parser.write returned a text other than the file's")
                j, m, ops = parse_fjsp_text(txt)
                c = orig[b]
                exp_ops = [[c["ops"][o] for o in range(s, e + 1)] for s, e in zip(c["start"], c["end"])]
                ctx.check(j == len(c["start"]) and m == mas and ops == exp_ops, "fjsp|write|file_content",
                          f"file {files[b]} written by parser.write does not describe instance {b} in the documented "
                          f"FJSPLIB format (1-based machine ids)", {"text": txt, "expected_ops": exp_ops})
        else:
            os.makedirs(dd)
            for b in range(B):
                f = f"inst_{case['names'][b]:04d}.txt"
                index_of[f] = b
                with open(os.path.join(dd, f), "w") as fh:
                    fh.write(fjsp_text(orig[b], mas) if name == "fjsp" else jssp_text(orig[b], mas))

        # ---- read
        env_l = env
        order = None
        if loader == "generator":
            G = ctx.guard(FileGen, dd, what=f"FileGenerator|{name}")
            order = [index_of[os.path.basename(f)] for f in G.files]
            ctx.check(sorted(order) == list(range(B)), f"{name}|files_listed", f"generator lists files {G.files}")
            k = case["chunk"]
            first = ctx.guard(G, batch_size=[k], what=f"FileGenerator.call|{name}")
            if k < B:
                second = ctx.guard(G, batch_size=[B - k], what=f"FileGenerator.call|{name}")
                loaded = torch.cat([first, second], 0)
                ctx.event("chunked_read")
            else:
                loaded = first
            ctx.check(G.num_jobs == cfg["jobs"] and G.num_mas == mas, f"{name}|generator_dims",
                      f"file generator reports jobs={G.num_jobs} machines={G.num_mas} for {cfg['jobs']}x{mas}")
        elif loader == "load_data":
            loaded = ctx.guard(env.load_data, dd, batch_size=[B], what=f"load_data|{name}")
            dflt = ctx.guard(env.load_data, dd, what=f"load_data_default_bs|{name}")
            ctx.check(dflt.batch_size[0] == B, f"{name}|load_data_default_bs|count",
                      f"load_data(path) with the default batch size returned {dflt.batch_size[0]} of {B} instances")
            if dflt.batch_size[0] == B:
                k1 = sorted(canon_key(canon(dflt[i])) for i in range(B))
                ctx.check(k1 == sorted(canon_key(c) for c in orig), f"{name}|load_data_default_bs|content",
                          "load_data(path) with the default batch size does not return the instances of the directory")
        else:
            env_l = ctx.guard(EnvCls, generator_params=dict(file_path=dd), mask_no_ops=cfg["mask_no_ops"],
                              what=f"env_from_files|{name}")
            loaded = ctx.guard(env_l.generator, batch_size=[B], what=f"FileGenerator.call|{name}")
        ctx.check(loaded.batch_size[0] == B, f"{name}|n_loaded", f"{loaded.batch_size[0]} instances read from {B} files")
        got = [canon(loaded[i]) for i in range(B)]
        if order is None:  # match as a multiset
            pool = {}
            for b, c in enumerate(orig):
                pool.setdefault(canon_key(c), []).append(b)
            order = []
            for i, c in enumerate(got):
                cand = pool.get(canon_key(c))
                if not cand:
                    ctx.violation(f"{name}|instance_mismatch|{writer}|{loader}",
                                  f"instance {i} read from the directory equals none of the written instances",
                                  {"read": c, "written": orig})
                    return
                order.append(cand.pop())
        for i, b in enumerate(order):
            c, o = got[i], orig[b]
            ok = c["pad_ok"] and canon_key(c) == canon_key(o)
            ctx.check(ok, f"{name}|instance_mismatch|{writer}|{loader}",
                      f"row {i} of the loaded batch is not the instance of its file (original index {b})",
                      {"read": c, "written": o})
        # ---- same masks / makespan along a stream
        perm = torch.tensor(order, dtype=torch.long)
        ref = inst[perm]
        modes = [case["rows"][b]["mode"] for b in order]
        streams = [case["rows"][b]["stream"] for b in order]
        cap = 2 * max(o["nops"] for o in orig) + 4
        compare_episodes(ctx, f"{name}|{loader}", env, ref, env_l, loaded, modes, streams, cap)
    if len({o["nops"] for o in orig}) >= 2:
        ctx.nontriv()
        ctx.event("different_op_counts")
    ctx.sample({"env": name, "cfg": cfg, "B": B, "writer": writer, "loader": loader, "nops": [o["nops"] for o in orig]})


# =========================================================================== (d) env copies
@st.composite
def copy_cases(draw, tier="quick"):
    case = draw(episode_cases(tier, ALL_ENVS, max_b=4))
    case["how"] = draw(st.sampled_from(["deepcopy", "pickle", "pickle", "pickle_p2", "torch_save"]))
    case["advance"] = draw(st.integers(0, 6))
    case["after"] = draw(st.integers(0, 6))
    case["after_gen"] = draw(st.booleans())
    case["env_seed"] = draw(st.one_of(st.none(), st.integers(0, 2 ** 31 - 1)))
    case["used"] = draw(st.booleans())
    return case


SIMPLE = (int, float, str, bool, type(None))


def simple_attrs(obj):
    out = {}
    for k, v in getattr(obj, "__dict__", {}).items():
        if isinstance(v, SIMPLE):
            out[k] = v
        elif isinstance(v, (list, tuple)) and all(isinstance(x, SIMPLE) for x in v):
            out[k] = list(v)
    return out


def gen_two(env, B):
    """Two successive draws of an env from the global RNG: generator(batch_size) and reset(batch_size=) (tensor part)."""
    t1 = env.generator(batch_size=[B])
    r2 = env.reset(batch_size=[B])
    return dict(t1.items()), {k: v for k, v in r2.items() if isinstance(v, torch.Tensor)}


def exec_copy(case, ctx):
    name, cfg = case["env"], case["cfg"]
    spec = SPECS[name]
    sl = spec.slice_of(cfg)
    how = case["how"]
    ctx.event(f"copy|{name}|{how}")
    inst = try_instance(ctx, spec, case)
    if inst is None:
        return
    B = inst.batch_size[0]
    insts = [py_instance(name, inst[b]) for b in range(B)]
    cap = max(spec.bound(cfg, r) for r in insts) + 3
    modes, streams = rows_of(case, B)
    env = spec.build(cfg)
    if case["used"]:
        run_episode(env, inst, modes, streams, cap)
        ctx.event("env_used_before_copy")
    if case["env_seed"] is not None:
        env.set_seed(case["env_seed"])
    else:
        torch.manual_seed(case["seed"])
    if case["advance"]:
        torch.rand(case["advance"])
    has_rng = isinstance(getattr(env, "rng", None), torch.Generator)
    # S = state of the global RNG (the generator every instance generator samples from, and the object env.rng refers
    # to on the unchanged tree) at the moment of the dump.  Reference first: what the ORIGINAL env generates from S.
    S = torch.get_rng_state().clone()
    gen_ok = True
    try:
        ref1, ref2 = gen_two(env, B)
    except Exception:  # noqa
        gen_ok = False
        ctx.exclude("instance_generation_crashed(C18)")
    torch.set_rng_state(S)  # the harness puts the process back into state S: the dump happens in state S
    state0 = env.rng.get_state().clone() if has_rng else None
    n_between = 0
    if how == "deepcopy":
        env2 = ctx.guard(copy.deepcopy, env, what=f"deepcopy|{name}")
    else:
        if how == "torch_save":  # the way a checkpoint stores the env: inside the hyper-parameter dict, torch.save
            buf = io.BytesIO()
            ctx.guard(torch.save, {"hyper_parameters": {"env": env, "batch_size": 4}, "epoch": 0}, buf,
                      what=f"torch.save|{name}")
        else:
            proto = 2 if how == "pickle_p2" else pickle.HIGHEST_PROTOCOL
            blob = ctx.guard(pickle.dumps, env, proto, what=f"pickle.dumps|{name}")
        # the process moves on before the env is restored: plain draws and / or the original env generating on
        if case["after"]:
            torch.rand(case["after"])
            n_between += case["after"]
        if case.get("after_gen") and gen_ok:
            env.generator(batch_size=[B])
            n_between += 1
            ctx.event("original_generated_between_dump_and_load")
        if how == "torch_save":
            buf.seek(0)
            env2 = ctx.guard(torch.load, buf, weights_only=False, what=f"torch.load|{name}")["hyper_parameters"]["env"]
        else:
            env2 = ctx.guard(pickle.loads, blob, what=f"pickle.loads|{name}")
    ctx.check(type(env2) is type(env) and env2 is not env, f"{name}|copy_type", f"copy is a {type(env2).__name__}")
    if has_rng:
        ok = isinstance(getattr(env2, "rng", None), torch.Generator) and torch.equal(env2.rng.get_state(), state0)
        ctx.check(ok, f"{name}|rng_state", "RNG state of the restored env differs from the state when it was dumped")
        if case["advance"]:
            ctx.nontriv()
    # RNG continuation: RL4COEnvBase.__getstate__ stores the state of env.rng (= the global generator) and
    # __setstate__ puts it back, so the first thing the restored env generates is what the original generates from S,
    # whatever was drawn between dump and load
    if gen_ok:
        got1, got2 = ctx.guard(gen_two, env2, B, what=f"copy.generate_after_restore|{name}")
        d1 = td_diff(ref1, got1)
        d2 = td_diff(ref2, got2) if d1 is None else None
        ctx.check(d1 is None and d2 is None, f"{name}|rng_continuation|{'deepcopy' if how == 'deepcopy' else 'pickle'}",
                  f"after {how} (dump in global RNG state S, {n_between} draws between dump and restore) the restored "
                  f"env does not generate the instances the original env generates from S: "
                  f"{'generator(): ' + str(d1) if d1 is not None else 'second draw, reset(batch_size): ' + str(d2)}")
        ctx.event(f"rng_continuation|{'draws_between' if n_between else 'immediate'}")
    # configuration
    a1, a2 = simple_attrs(env), simple_attrs(env2)
    ctx.check(a1 == a2, f"{name}|env_attrs", "plain attributes of the env changed",
              {"diff": {k: [a1.get(k), a2.get(k)] for k in set(a1) | set(a2) if a1.get(k) != a2.get(k)}})
    g1, g2 = simple_attrs(env.generator), simple_attrs(getattr(env2, "generator", None))
    ctx.check(g1 == g2, f"{name}|generator_params", "generator parameters changed",
              {"diff": {k: [g1.get(k), g2.get(k)] for k in set(g1) | set(g2) if g1.get(k) != g2.get(k)}})
    # same generator output under the same seed
    if gen_ok:
        torch.manual_seed(case["seed"])
        ta = env.generator(batch_size=[B])
        torch.manual_seed(case["seed"])
        tb = ctx.guard(env2.generator, batch_size=[B], what=f"copy.generator|{name}")
        diff = td_diff(dict(ta.items()), dict(tb.items()))
        ctx.check(diff is None, f"{name}|generator_output", f"generator of the copy draws other instances: {diff}")
        torch.manual_seed(case["seed"])
        ra = env.reset(batch_size=[B])
        torch.manual_seed(case["seed"])
        rb = ctx.guard(env2.reset, batch_size=[B], what=f"copy.reset|{name}")
        fa = {k: v for k, v in ra.items() if isinstance(v, torch.Tensor)}
        fb = {k: v for k, v in rb.items() if isinstance(v, torch.Tensor)}
        diff = td_diff(fa, fb)
        ctx.check(diff is None, f"{name}|reset_output", f"reset() of the copy yields another state: {diff}")
    # same masks / rewards along a stream
    compare_episodes(ctx, f"{name}|{sl}|{how}", env, inst, env2, inst, modes, streams, cap)
    ctx.sample({"env": name, "cfg": cfg, "how": how, "advance": case["advance"], "after": case["after"],
                "env_seed": case["env_seed"]})


# =========================================================================== (e) checkpoints
ALGOS = ["reinforce_no", "reinforce_rollout", "reinforce_exponential", "reinforce_mean", "reinforce_critic", "pomo",
         "a2c", "ppo", "symnco", "symnco_ms"]
MULTISTART_ALGOS = ("pomo", "symnco_ms")  # their constructor calls REINFORCE.set_decode_type_multistart
CKPT_REPS = {"quick": 3, "thorough": 20}
# attributes that RL4COLitModule.setup() creates: Lightning's own load_from_checkpoint (PPO) does not run setup
SETUP_ATTRS = ("train_batch_size", "val_batch_size", "test_batch_size", "dataloader_names")


def run_seed():
    """Seed of this run (./check --seed N, else VERIF_SEED, else 1) for the enumerated checkpoint cases."""
    import sys

    if "--seed" in sys.argv[:-1]:
        try:
            return int(sys.argv[sys.argv.index("--seed") + 1])
        except ValueError:
            pass
    try:
        return int(os.environ.get("VERIF_SEED", "1") or 1)
    except ValueError:
        return 1


def ckpt_enum(tier="quick"):
    """Every (algorithm, env) pair CKPT_REPS times; the remaining parameters come from a numpy RandomState seeded
    with the run seed (cases stay plain JSON, so a replay does not depend on the seed)."""
    reps = max(1, int(round(CKPT_REPS.get(tier, 3) * float(os.environ.get("VF_BUDGET_SCALE", "1")))))
    rs = np.random.RandomState((run_seed() * 7919 + (0 if tier == "quick" else 1)) % (2 ** 31))
    out = []
    for rep in range(reps):
        for algo in ALGOS:
            for envn in ("tsp", "cvrp"):
                n = int(rs.randint(5, 9))
                case = {"algo": algo, "env": envn, "n": n, "emb": int(rs.choice([16, 32])),
                        "seed": int(rs.randint(0, 2 ** 31 - 1)), "train": int(rs.randint(8, 17)),
                        "val": int(rs.randint(3, 8)), "test": int(rs.randint(3, 6)),
                        "epochs": 1 if tier == "quick" else int(rs.randint(1, 3)),
                        "fresh_B": int(rs.randint(2, 6)), "fresh_seed": int(rs.randint(0, 2 ** 31 - 1)),
                        "lr": float(rs.choice([1e-3, 1e-2])),
                        # decoding configuration of the policy (plain attributes, restored by unpickling the policy)
                        "temperature": float(rs.choice([1.0, 1.0, 0.5, 1.5])),
                        "tanh_clipping": float(rs.choice([10.0, 10.0, 6.0])),
                        "val_decode": str(rs.choice(["greedy", "greedy", "greedy", "sampling"])),
                        "test_decode": str(rs.choice(["greedy", "greedy", "sampling"])),
                        # multi-start / augmentation configuration of POMO and SymNCO (plain attributes of the model)
                        "num_starts": None if rs.randint(0, 3) == 0 else int(rs.randint(2, n + 1)),
                        "aug": str(rs.choice(["dihedral8", "symmetric", "symmetric", "none"])),
                        "num_augment": int(rs.randint(2, 5)), "first_aug_identity": bool(rs.randint(0, 4) > 0),
                        # process history around the checkpoint
                        "advance": int(rs.randint(0, 5)), "between": int(rs.randint(0, 5)),
                        "reuse_first": bool(rs.randint(0, 2)), "phase_seed": int(rs.randint(0, 2 ** 31 - 1))}
                out.append(case)
    return out


def preimport():
    import lightning  # noqa
    import rl4co.models.rl  # noqa
    import rl4co.models.zoo  # noqa
    from rl4co.utils import RL4COTrainer  # noqa


def build_model(case, env=None, policy=None):
    """The model of the case; with `env` / `policy` given, a second model of the same class and arguments built around
    these existing objects (the policy-reuse history and what load_from_checkpoint does with the unpickled policy)."""
    from rl4co.envs import CVRPEnv, TSPEnv
    from rl4co.models.rl import A2C, PPO, REINFORCE
    from rl4co.models.rl.common.critic import create_critic_from_actor
    from rl4co.models.zoo import POMO, AttentionModelPolicy, SymNCO, SymNCOPolicy

    n, emb, algo = case["n"], case["emb"], case["algo"]
    if env is None:
        env = (TSPEnv if case["env"] == "tsp" else CVRPEnv)(generator_params=dict(num_loc=n))
    pk = dict(env_name=env.name, embed_dim=emb, num_encoder_layers=1, num_heads=2, feedforward_hidden=2 * emb,
              temperature=case.get("temperature", 1.0), tanh_clipping=case.get("tanh_clipping", 10.0),
              val_decode_type=case.get("val_decode", "greedy"), test_decode_type=case.get("test_decode", "greedy"))
    kw = dict(batch_size=4, train_data_size=case["train"], val_data_size=case["val"], test_data_size=case["test"],
              optimizer_kwargs={"lr": case["lr"]})
    if algo == "pomo":
        if policy is None:
            policy = AttentionModelPolicy(normalization="instance", use_graph_context=False, **pk)
        aug = case.get("aug", "dihedral8")
        akw = {"dihedral8": dict(num_augment=8, augment_fn="dihedral8"), "none": dict(num_augment=1),
               "symmetric": dict(num_augment=case.get("num_augment", 2), augment_fn="symmetric")}[aug]
        return POMO(env, policy=policy, num_starts=case.get("num_starts"),
                    first_aug_identity=case.get("first_aug_identity", True), **akw, **kw)
    if algo.startswith("symnco"):
        if policy is None:
            policy = SymNCOPolicy(**pk)
        ns = 0 if algo == "symnco" else (case.get("num_starts") or max(2, n // 2))
        return SymNCO(env, policy=policy, num_starts=ns, num_augment=case.get("num_augment", 2), **kw)
    if policy is None:
        policy = AttentionModelPolicy(**pk)
    if algo.startswith("reinforce_"):
        bl = algo.split("_", 1)[1]
        bkw = {"critic": create_critic_from_actor(policy, embed_dim=emb, hidden_dim=2 * emb)} if bl == "critic" else {}
        return REINFORCE(env, policy, baseline=bl, baseline_kwargs=bkw, **kw)
    critic = create_critic_from_actor(policy, embed_dim=emb, hidden_dim=2 * emb)
    if algo == "a2c":
        kw.pop("optimizer_kwargs")
        return A2C(env, policy, critic=critic, actor_optimizer_kwargs={"lr": case["lr"]}, **kw)
    return PPO(env, policy, critic=critic, mini_batch_size=4, ppo_epochs=1, **kw)


def sd_diff(a, b):
    ka, kb = sorted(a), sorted(b)
    if ka != kb:
        return f"state_dict keys differ: {sorted(set(ka) ^ set(kb))[:6]}"
    for k in ka:
        if not same_tensor(a[k], b[k]):
            return f"{k} differs"
    return None


def greedy(policy, env, td, decode_type="greedy"):
    policy.eval()
    with torch.no_grad():
        out = policy(env.reset(td.clone()), env, phase="test", decode_type=decode_type, return_actions=True)
    return out["actions"], out["reward"]


def is_plain(v):
    if isinstance(v, SIMPLE):
        return True
    if isinstance(v, (list, tuple)):
        return all(is_plain(x) for x in v)
    if isinstance(v, dict):
        return all(isinstance(k, str) and is_plain(x) for k, x in v.items())
    return False


def plain_attrs(obj):
    """Public plain-data attributes (numbers, strings, None, lists / dicts of them) of an object; `training` (the
    train/eval switch of nn.Module, flipped by every evaluation) is not configuration."""
    out = {}
    for k, v in vars(obj).items():
        if k.startswith("_") or k == "training" or not is_plain(v):
            continue
        out[k] = list(v) if isinstance(v, tuple) else v
    return out


def attrs_diff(a, b, optional=()):
    """{name: [original, restored]} for plain attributes that differ; names in `optional` may be absent on one side."""
    out = {}
    for k in sorted(set(a) | set(b)):
        if (k not in a or k not in b) and k in optional:
            continue
        if k not in a or k not in b or a[k] != b[k] or type(a[k]) is not type(b[k]):
            out[k] = [a.get(k, "<absent>"), b.get(k, "<absent>")]
    return out


def model_config(model):
    """Plain attributes of the Lightning module plus those of its augmentation object (POMO / SymNCO)."""
    cfg = plain_attrs(model)
    aug = getattr(model, "augment", None)
    cfg["augment"] = None if aug is None else dict(plain_attrs(aug), fn=getattr(aug.augmentation, "__name__", "?"))
    return cfg


def phase_outputs(model, policy, env, td, seed):
    """policy(td, env, phase=p) for p in train / val / test WITHOUT an explicit decode_type - the way shared_step of
    every model calls it (POMO / SymNCO add num_starts=<their own num_starts or env.get_num_starts(td)>), in eval mode
    under no_grad, the global RNG seeded with `seed` immediately before each call.  -> {phase: (actions, reward)}"""
    policy.eval()
    outs = {}
    for ph in PHASES:
        st0 = env.reset(td.clone())
        kw = {}
        if hasattr(model, "num_starts"):
            kw["num_starts"] = env.get_num_starts(st0) if model.num_starts is None else model.num_starts
        torch.manual_seed(seed)
        with torch.no_grad():
            out = policy(st0, env, phase=ph, return_actions=True, **kw)
        outs[ph] = (out["actions"], out["reward"])
    return outs


def decode_types(policy):
    return {ph: getattr(policy, f"{ph}_decode_type", "<absent>") for ph in PHASES}


def compare_behaviour(ctx, tag, what, ref, ref_types, got_model, got_policy, got_env, td, seed, ref_attrs):
    """`ref` = phase_outputs / ref_types = decode types / ref_attrs = plain attributes of the original policy;
    compare the policy `got_policy` (restored from a checkpoint, or the same object after it was handed to a second
    model) against them."""
    types = decode_types(got_policy)
    for ph in PHASES:
        ctx.check(types[ph] == ref_types[ph], f"{tag}|decode_type|{ph}",
                  f"{what}: {ph}_decode_type is {types[ph]!r}, the original policy had {ref_types[ph]!r}",
                  {"original": ref_types, "now": types})
    d = attrs_diff(ref_attrs, plain_attrs(got_policy))
    ctx.check(not d, f"{tag}|policy_attrs", f"{what}: plain attributes of the policy changed (name: [original, now]): {d}")
    got = ctx.guard(phase_outputs, got_model, got_policy, got_env, td, seed, what=f"policy_phase_forward|{tag}")
    for ph in PHASES:
        (a1, r1), (a2, r2) = ref[ph], got[ph]
        kind = "greedy" if "greedy" in ref_types[ph] else "sampling"
        ctx.check(a1.shape == a2.shape and torch.equal(a1, a2), f"{tag}|phase_actions|{ph}",
                  f"{what}: policy(td, env, phase={ph!r}) [decode type of the phase: {ref_types[ph]}, same torch seed] "
                  f"returns other actions than the original policy", {"orig": a1, "now": a2})
        ctx.check(r1.shape == r2.shape and same_tensor(r1, r2), f"{tag}|phase_rewards|{ph}",
                  f"{what}: policy(td, env, phase={ph!r}) returns other rewards", {"orig": r1, "now": r2})
        ctx.event(f"phase_compared|{kind}{'|multistart' if 'multistart' in ref_types[ph] else ''}")


def reuse_history(ctx, case, model, td, ref, ref_types, ref_attrs):
    """History: the policy object that model A was built around is handed to a second model of the same class and
    arguments (fine-tuning / evaluation scripts; load_from_checkpoint does exactly this with the unpickled policy).
    REINFORCE.set_decode_type_multistart documents itself as idempotent ("elif 'multistart' in attr: return"), no other
    constructor touches the policy: its configuration and behaviour must not change."""
    algo = case["algo"]
    pol = model.policy
    seed = case.get("phase_seed", 11)
    second = ctx.guard(build_model, case, env=model.env, policy=pol, what=f"second_model_around_policy|{algo}")
    ctx.check(second.policy is pol, f"reuse|{algo}|policy_object", "the second model does not hold the policy it was given")
    compare_behaviour(ctx, f"reuse|{algo}", "after a second model was constructed around the same policy object",
                      ref, ref_types, second, pol, model.env, td, seed, ref_attrs)
    d = attrs_diff(model_config(model), model_config(second), optional=SETUP_ATTRS)
    ctx.check(not d, f"reuse|{algo}|model_attrs", f"second model built with the same arguments is configured differently: {d}")
    ctx.event("policy_reused_for_second_model" + ("|multistart" if algo in MULTISTART_ALGOS else ""))


def load_checkpoint(ctx, cls, path, algo):
    """Model.load_from_checkpoint on a checkpoint the same model class just wrote: *any* exception is a failed
    round trip (PPO uses Lightning's loader, whose frames lie outside the repository), not only those whose
    traceback passes through rl4co."""
    import sys

    from ..runner import SkipCase, Violation, repo_frame

    try:
        return cls.load_from_checkpoint(path, map_location="cpu")
    except (Violation, SkipCase):
        raise
    except Exception as e:  # noqa
        fr = repo_frame(sys.exc_info()[2]) or "lightning"
        ctx.violation(f"crash|load_from_checkpoint|{algo}|{type(e).__name__}|{fr}",
                      f"{type(e).__name__}: {str(e)[:300]}", detail={"frame": fr}, abort_known=True)


def exec_ckpt(case, ctx):
    from rl4co.utils import RL4COTrainer

    from ..runner import HarnessError

    if os.environ.get("TORCH_FORCE_NO_WEIGHTS_ONLY_LOAD") != "1":
        raise HarnessError("C19 checkpoint sub-check needs TORCH_FORCE_NO_WEIGHTS_ONLY_LOAD=1 (run through ./check)")

    algo = case["algo"]
    ctx.event(f"ckpt|{algo}|{case['env']}")
    torch.manual_seed(case["seed"])
    model = build_model(case)
    init = {k: v.clone() for k, v in model.policy.state_dict().items()}
    phase_seed = case.get("phase_seed", 11)
    with scratch() as d:
        tkw = dict(max_epochs=case["epochs"], devices=1, accelerator="cpu", logger=False, enable_checkpointing=False,
                   enable_progress_bar=False, enable_model_summary=False, precision="32-true", matmul_precision=None,
                   default_root_dir=d, num_sanity_val_steps=0)
        if algo == "ppo":
            tkw["gradient_clip_val"] = None
        trainer = RL4COTrainer(**tkw)
        trainer.fit(model)
        # fresh instances for every comparison below
        torch.manual_seed(case["fresh_seed"])
        td = model.env.generator(batch_size=[case["fresh_B"]])
        # reference behaviour of the original (trained) policy through the per-phase decode types
        ref_types, ref_attrs = decode_types(model.policy), plain_attrs(model.policy)
        ref = phase_outputs(model, model.policy, model.env, td, phase_seed)
        cfg0 = model_config(model)
        if case.get("reuse_first"):
            reuse_history(ctx, case, model, td, ref, ref_types, ref_attrs)
        for ph in PHASES:
            ctx.event(f"ckpt|decode_type|{ph}|{ref_types[ph]}")
        if ref_attrs.get("temperature") != 1.0 or ref_attrs.get("tanh_clipping") != 10.0:
            ctx.event("ckpt|non_default_temperature_or_clipping")
        # the checkpoint is written while the global RNG is in state S ...
        torch.manual_seed(case["fresh_seed"] ^ 0x5DEECE)
        if case.get("advance"):
            torch.rand(case["advance"])
        S = torch.get_rng_state().clone()
        path = os.path.join(d, "model.ckpt")
        ctx.guard(trainer.save_checkpoint, path, what=f"save_checkpoint|{algo}")
        s_kept = torch.equal(torch.get_rng_state(), S)  # writing the checkpoint drew nothing: S is the dump-time state
        sd0 = {k: v.clone() for k, v in model.state_dict().items()}
        # ... the process moves on ...
        torch.rand(1 + case.get("between", 0))
        loaded = load_checkpoint(ctx, type(model), path, algo)
        # ... and the env pickled in the hyper-parameters continues from S (first draw after the restore)
        env_ok = type(loaded.env) is type(model.env) and hasattr(loaded.env, "generator")
        cont = ctx.guard(loaded.env.generator, batch_size=[case["fresh_B"]], what=f"ckpt.env.generator|{algo}") \
            if env_ok and s_kept else None
    ctx.check(type(loaded) is type(model), f"ckpt|{algo}|type", f"loaded a {type(loaded).__name__}")
    # 1. policy parameters bit-equal
    pol0 = {k[len("policy."):]: v for k, v in sd0.items() if k.startswith("policy.")}
    diff = sd_diff(pol0, dict(loaded.policy.state_dict()))
    ctx.check(diff is None, f"ckpt|{algo}|policy_params", f"policy parameters changed by the checkpoint round trip: {diff}")
    # 2. every other module of the checkpoint (critic, baseline networks, rollout-baseline policy)
    aux0 = {k: v for k, v in sd0.items() if not k.startswith("policy.")}
    aux1 = {k: v for k, v in loaded.state_dict().items() if not k.startswith("policy.")}
    diff = sd_diff(aux0, aux1)
    ctx.check(diff is None, f"ckpt|{algo}|aux_params", f"critic / baseline parameters changed: {diff}")
    trained = any(not same_tensor(init[k], pol0[k]) for k in init)
    # 3. hyper-parameters that define the data / optimisation
    ctx.check(loaded.data_cfg == model.data_cfg, f"ckpt|{algo}|data_cfg", f"data_cfg {loaded.data_cfg} != {model.data_cfg}")
    # 4. env restored from the checkpoint draws the same instances: (a) continuing from the dump-time RNG state ...
    ctx.check(env_ok, f"ckpt|{algo}|env", f"env restored from the checkpoint is a {type(loaded.env).__name__} without generator")
    if cont is not None:
        torch.set_rng_state(S)
        want = model.env.generator(batch_size=[case["fresh_B"]])
        diff = td_diff(dict(want.items()), dict(cont.items()))
        ctx.check(diff is None, f"ckpt|{algo}|env_rng_continuation",
                  f"checkpoint written in global RNG state S, {1 + case.get('between', 0)} draws, load_from_checkpoint: "
                  f"the restored env does not generate the instances the original env generates from S: {diff}")
        ctx.event("ckpt|env_rng_continuation_checked")
    else:
        ctx.event("ckpt|save_checkpoint_advanced_rng(continuation_not_checked)")
    # ... (b) and under an explicit seed
    torch.manual_seed(case["fresh_seed"])
    td1 = model.env.generator(batch_size=[case["fresh_B"]])
    torch.manual_seed(case["fresh_seed"])
    td2 = ctx.guard(loaded.env.generator, batch_size=[case["fresh_B"]], what=f"ckpt.env.generator|{algo}")
    diff = td_diff(dict(td1.items()), dict(td2.items()))
    ctx.check(diff is None, f"ckpt|{algo}|env", f"env stored in the checkpoint generates other instances: {diff}")
    diff = td_diff(dict(td.items()), dict(td1.items()))
    if diff is not None:
        raise HarnessError(f"fresh instances not reproducible under their seed: {diff}")
    # 5. configuration of the model and of the policy, decode type of every phase, and the solutions / rewards that
    #    policy(td, env, phase=p) gives on fresh instances through these per-phase decode types
    d = attrs_diff(cfg0, model_config(loaded), optional=SETUP_ATTRS)
    ctx.check(not d, f"ckpt|{algo}|model_attrs",
              f"plain attributes of the restored model differ (name: [original, restored]): {d}")
    compare_behaviour(ctx, f"ckpt|{algo}", "restored from the checkpoint", ref, ref_types, loaded, loaded.policy,
                      loaded.env, td, phase_seed, ref_attrs)
    # 6. greedy actions and rewards on fresh instances (explicit decode type)
    kinds = ["greedy"] + (["multistart_greedy"] if algo == "pomo" else [])
    for dec in kinds:
        a1, r1 = greedy(model.policy, model.env, td, dec)
        a2, r2 = ctx.guard(greedy, loaded.policy, loaded.env, td, dec, what=f"ckpt.policy|{algo}")
        ctx.check(a1.shape == a2.shape and torch.equal(a1, a2), f"ckpt|{algo}|greedy_actions",
                  f"{dec} solutions of the restored policy differ", {"orig": a1, "restored": a2})
        ctx.check(same_tensor(r1, r2), f"ckpt|{algo}|greedy_rewards", f"{dec} rewards differ", {"orig": r1, "restored": r2})
    # 7. augmentation of POMO / SymNCO gives the same views (same torch seed: `symmetric` draws its rotations)
    if getattr(model, "augment", None) is not None and getattr(loaded, "augment", None) is not None:
        torch.manual_seed(phase_seed)
        v1 = model.augment(model.env.reset(td.clone()))
        torch.manual_seed(phase_seed)
        v2 = ctx.guard(loaded.augment, loaded.env.reset(td.clone()), what=f"ckpt.augment|{algo}")
        diff = td_diff({"locs": v1["locs"]}, {"locs": v2["locs"]})
        ctx.check(diff is None, f"ckpt|{algo}|augmentation", f"augmented views of the restored model differ: {diff}")
        ctx.event(f"ckpt|augmentation_compared|{cfg0['augment']['fn']}")
    # 8. rollout baseline
    nontrivial_bl = True
    if algo == "reinforce_rollout":
        b0, b1 = model.baseline.baseline, loaded.baseline.baseline
        diff = sd_diff(dict(b0.policy.state_dict()), dict(b1.policy.state_dict()))
        ctx.check(diff is None, f"ckpt|{algo}|baseline_policy", f"rollout-baseline policy changed: {diff}")
        a1, r1 = greedy(b0.policy, model.env, td)
        a2, r2 = greedy(b1.policy, loaded.env, td)
        ctx.check(torch.equal(a1, a2) and same_tensor(r1, r2), f"ckpt|{algo}|baseline_rollout",
                  "greedy rollout of the restored baseline policy differs")
        blsd = b0.policy.state_dict()
        nontrivial_bl = any(not same_tensor(blsd[k], pol0[k]) for k in pol0)
        if nontrivial_bl:
            ctx.event("rollout_baseline_differs_from_policy")
    # 9. the policy-reuse history on the original model (after the checkpoint comparisons unless `reuse_first`)
    if not case.get("reuse_first"):
        reuse_history(ctx, case, model, td, ref, ref_types, ref_attrs)
    if trained:
        ctx.event("policy_trained")
        if nontrivial_bl:
            ctx.nontriv()
    ctx.sample({k: case.get(k) for k in ("algo", "env", "n", "emb", "train", "val", "epochs", "temperature",
                                         "val_decode", "test_decode", "num_starts", "aug")})


# =========================================================================== (f) dataset files handed to the env
TEXT_ENVS = ("fjsp", "jssp")  # val/test "files" are directories of text instances (JSSP also: one text file)
CVRP_FILES = ("cvrp", "sdvrp")  # CVRPEnv.load_data documents demand / capacity (inherited by SDVRPEnv)
FILE_ENV_POOL = [e for e in ALL_ENVS if e not in TEXT_ENVS] + list(TEXT_ENVS) * 5
N_KINDS = ["more", "less", "equal", "more", "wrapped_less", "wrapped_more", "default"]


def _small_cfg(cfg):
    return not isinstance(cfg.get("n"), int) or cfg["n"] <= 20


@st.composite
def envfile_cases(draw, tier="quick"):
    name = draw(st.sampled_from(FILE_ENV_POOL))
    cfg = draw(SPECS[name].cfg(tier).filter(_small_cfg))
    text = name in TEXT_ENVS
    if text and draw(st.booleans()):  # different operation counts between the instances of a directory
        cfg = dict(cfg, jobs=max(cfg["jobs"], 2), max_ops=max(cfg["max_ops"], cfg["min_ops"] + 1))
        if "one2one" in cfg:
            cfg["one2one"] = False
    case = {"env": name, "cfg": cfg, "seed": draw(st.integers(0, 2 ** 31 - 1)), "dir_slash": draw(st.booleans()),
            "dataset_cls": draw(st.sampled_from(["TensorDictDataset", "TensorDictDataset", "FastTdDataset"]))}
    phases = {}
    for ph in PHASES:
        kinds = ["file", "file", "file", "none"] + (["list"] if ph != "train" else []) + (["txt", "txt"] if name == "jssp" else [])
        kind = draw(st.sampled_from(kinds))
        p = {"kind": kind, "n": draw(st.sampled_from(N_KINDS)), "n_gen": draw(st.integers(1, 4))}
        if kind != "none":
            p["sizes"] = [1] if kind == "txt" else [draw(st.integers(1, 4)) for _ in range(2 if kind == "list" else 1)]
            p["style"] = draw(st.sampled_from(["plain", "plain", "subdir"] + (["slash", "dotted"] if text and kind != "txt" else [])))
            p["via"] = "ctor" if kind == "list" else draw(st.sampled_from(["ctor", "ctor", "filename"]))
            p["decoy"] = p["via"] == "filename" and draw(st.booleans())
            p["custom_names"] = kind == "list" and draw(st.booleans())
        phases[ph] = p
    if all(p["kind"] == "none" for p in phases.values()):
        phases["test"].update(kind="file", sizes=[draw(st.integers(1, 4))], style="plain", via="ctor", decoy=False,
                              custom_names=False)
    case["phases"] = phases
    case["episode_phase"] = draw(st.sampled_from([ph for ph in PHASES if phases[ph]["kind"] != "none"]))
    case["rows"] = draw(st.lists(row_strategy(), min_size=1, max_size=4))
    return case


@contextlib.contextmanager
def ctor_kwargs(clsname, **kw):
    """While active, `rl4co.envs.<clsname>(...)` (as the spec builders of vf.envs call it) receives the additional
    keyword arguments `kw`: the real constructor with the spec's own arguments plus data_dir / *_file / ..."""
    import functools

    import rl4co.envs as E

    real = getattr(E, clsname)
    setattr(E, clsname, functools.partial(real, **kw))
    try:
        yield real
    finally:
        setattr(E, clsname, real)


def dataset_call(ctx, env, name, args, kw):
    """env.dataset(*args, **kw); a crash inside rl4co is a violation `crash|env.dataset|<env>|<Type>|<frame>`.  Returns
    None only when that crash is a listed known finding (the caller then skips this phase, not the whole case)."""
    import sys

    from ..runner import SkipCase, Violation, repo_frame

    try:
        return env.dataset(*args, **kw)
    except (Violation, SkipCase):
        raise
    except Exception as e:  # noqa
        fr = repo_frame(sys.exc_info()[2])
        if fr is None:
            raise
        ctx.violation(f"crash|env.dataset|{name}|{type(e).__name__}|{fr}",
                      f"env.dataset{tuple(args)} {kw}: {type(e).__name__}: {str(e)[:300]}", detail={"frame": fr})
        return None


def dataset_rows(ds):
    """All items of a dataset object, collated the way the data loader does."""
    idx = list(range(len(ds)))
    if hasattr(ds, "__getitems__"):
        return ds.collate_fn(ds.__getitems__(idx))
    return ds.collate_fn([ds[i] for i in idx])


def exec_envfiles(case, ctx):
    import rl4co.data.dataset as D
    from rl4co.data.utils import save_tensordict_to_npz

    name, cfg, phases = case["env"], case["cfg"], case["phases"]
    spec = SPECS[name]
    text = name in TEXT_ENVS
    env0 = spec.env(cfg)  # the in-memory original side
    clsname = type(env0).__name__
    ctx.event(f"envfile|{name}")

    with scratch() as d:
        data_dir = os.path.join(d, "data")
        os.makedirs(data_dir)
        counter = [0]

        def new_file(ph, size, style, kind):
            """Write one dataset file (npz / directory of text instances / single text file) with fresh instances.
            Returns its record, or None if the generator crashed (C18)."""
            i = counter[0]
            counter[0] += 1
            try:
                inst = spec.gen(cfg, size, (case["seed"] + 7919 * i) % (2 ** 31))
            except Exception:  # noqa
                return None
            rel = f"{ph}_{i}" if style != "subdir" else os.path.join("nested", f"{ph}_{i}")
            if style == "dotted":
                rel += ".v1"
            rec = {"size": size, "inst": inst}
            if text:
                rec["canon"] = [canon(inst[b]) for b in range(size)]
                dd = os.path.join(data_dir, rel)
                os.makedirs(dd)
                for b in range(size):
                    with open(os.path.join(dd, f"i{i}_{b:02d}.txt"), "w") as fh:
                        fh.write((fjsp_text if name == "fjsp" else jssp_text)(rec["canon"][b], cfg["mas"]))
                rec["name"] = os.path.join(rel, f"i{i}_00.txt") if kind == "txt" else (rel + "/" if style == "slash" else rel)
            else:
                arrays = {k: v.clone() for k, v in inst.items()}
                exp = dict(arrays)
                if name in CVRP_FILES:  # documented file format of generate_vrp_data: one capacity per instance
                    arrays["capacity"] = arrays["capacity"].reshape(size)
                    exp = dict(arrays)
                    exp["demand"] = torch.from_numpy(
                        (arrays["demand"].numpy() / arrays["capacity"].numpy()[:, None]).astype(np.float32))
                rec["exp"] = exp
                rec["name"] = rel + ".npz"
                fn = os.path.join(data_dir, rec["name"])
                os.makedirs(os.path.dirname(fn), exist_ok=True)
                save_tensordict_to_npz(TensorDict(arrays, batch_size=[size]), fn)
            rec["path"] = os.path.join(data_dir, rec["name"])
            return rec

        # ---- write the files and assemble the constructor arguments
        kw = {"data_dir": data_dir + ("/" if case["dir_slash"] else "")}
        if case["dataset_cls"] != "TensorDictDataset" and name != "ffsp":  # FFSPEnv fixes its dataset class itself
            kw["dataset_cls"] = getattr(D, case["dataset_cls"])
        ctx.event(f"envfile|dataset_cls|{kw['dataset_cls'].__name__ if 'dataset_cls' in kw else 'default'}")
        plan = {}
        for ph in PHASES:
            p = phases[ph]
            if p["kind"] == "none":
                continue
            recs = [new_file(ph, s, p["style"], p["kind"]) for s in p["sizes"]]
            decoy = new_file(ph, 1, "plain", "file") if p["decoy"] else None
            if any(r is None for r in recs) or (p["decoy"] and decoy is None):
                ctx.exclude("instance_generation_crashed(C18)")
                return
            plan[ph] = recs
            if p["kind"] == "list":
                kw[f"{ph}_file"] = [r["name"] for r in recs]
                if p["custom_names"]:
                    kw[f"{ph}_dataloader_names"] = [f"{ph}-set-{j}" for j in range(len(recs))]
                    ctx.event("envfile|custom_dataloader_names")
            elif p["via"] == "ctor":
                kw[f"{ph}_file"] = recs[0]["name"]
            elif decoy is not None:
                kw[f"{ph}_file"] = decoy["name"]  # another existing file: dataset(filename=...) must override it
                ctx.event("envfile|filename_overrides_another_file")
            ctx.event(f"envfile|{ph}|{p['kind']}|{p['via']}|{p['style']}")

        with ctor_kwargs(clsname, **kw) as real:
            env = ctx.guard(spec.build, cfg, what=f"env_with_files|{name}")
        if type(env) is not real:
            from ..runner import HarnessError
            raise HarnessError(f"spec {name} did not build a {clsname}")

        # ---- read every phase back
        loaded_for_episode = None
        varied_n = 0
        for ph in PHASES:
            p = phases[ph]
            if p["kind"] == "none":
                n = p["n_gen"]
                ds = dataset_call(ctx, env, name, (n,), {"phase": ph})
                if ds is not None:
                    ctx.check(len(ds) == n, f"envfile|{name}|generated_count",
                              f"dataset({n}, phase={ph!r}) without a {ph}_file holds {len(ds)} generated instances")
                ctx.event(f"envfile|{ph}|none")
                continue
            recs = plan[ph]
            size0 = recs[0]["size"]
            nk = p["n"]
            n = {"default": None, "equal": size0, "less": max(1, size0 - 1), "wrapped_less": max(1, size0 - 1)}.get(
                nk, size0 + 2)
            args = () if n is None else (([n],) if nk.startswith("wrapped") else (n,))
            dkw = {"phase": ph}
            if p["via"] == "filename":
                dkw["filename"] = recs[0]["path"]
            ctx.event(f"envfile|n|{nk}")
            out = dataset_call(ctx, env, name, args, dkw)
            if out is None:
                continue
            if p["kind"] == "list":
                names = kw.get(f"{ph}_dataloader_names") or [str(j) for j in range(len(recs))]
                ctx.check(isinstance(out, dict) and list(out.keys()) == names, f"envfile|{name}|dataloader_names",
                          f"dataset(phase={ph!r}) for {len(recs)} files returned "
                          f"{list(out.keys()) if isinstance(out, dict) else type(out).__name__}, expected the names {names}")
                dsets = [out[k] for k in names]
            else:
                ctx.check(isinstance(out, kw.get("dataset_cls", torch.utils.data.Dataset)), f"envfile|{name}|dataset_type",
                          f"dataset(phase={ph!r}) returned a {type(out).__name__}")
                dsets = [out]
            for j, (ds, rec) in enumerate(zip(dsets, recs)):
                size = rec["size"]
                want_n = size if (n is None or not text) else min(n, size)
                if n is not None and n != size:
                    varied_n += 1
                how = f"{p['kind']}|{p['via']}"
                what = (f"env.dataset({', '.join(map(str, args))}{', ' if args else ''}phase={ph!r}"
                        f"{', filename=...' if 'filename' in dkw else ''}) with {ph}_file={kw.get(ph + '_file')!r}")
                ctx.check(len(ds) == want_n, f"envfile|{name}|count|{how}",
                          f"{what}: {len(ds)} instances, the file holds {size} (expected {want_n})")
                rows = dataset_rows(ds)
                if text:
                    pool = {}
                    for b, c in enumerate(rec["canon"]):
                        pool.setdefault(canon_key(c), []).append(b)
                    order = []
                    for i2 in range(want_n):
                        c = canon(rows[i2])
                        cand = pool.get(canon_key(c))
                        if not cand or not c["pad_ok"]:
                            ctx.violation(f"envfile|{name}|not_the_file|{how}",
                                          f"{what}: instance {i2} is none of the (remaining) instances of the files on "
                                          f"disk (freshly generated or taken from another file?)",
                                          {"read": c, "on_disk": rec["canon"]})
                            return
                        order.append(cand.pop())
                    got = rows
                    mem = rec["inst"][torch.tensor(order, dtype=torch.long)]
                else:
                    diff = td_diff(rec["exp"], rows)
                    ctx.check(diff is None, f"envfile|{name}|not_the_file|{how}",
                              f"{what}: the instances differ from the file on disk up to the documented normalisation "
                              f"(freshly generated or taken from another file?): {diff}")
                    got = rows
                    mem = TensorDict({k: v.clone() for k, v in rec["exp"].items()}, batch_size=[size])
                if ph == case["episode_phase"] and j == 0:
                    loaded_for_episode = (mem, got)

        # ---- same episode on the loaded and on the in-memory instance
        if loaded_for_episode is not None:
            mem, got = loaded_for_episode
            B = mem.batch_size[0]
            modes, streams = rows_of(case, B)
            if text:
                cap = 2 * max(canon(mem[b])["nops"] for b in range(B)) + 4
            else:
                cap = max(spec.bound(cfg, py_instance(name, mem[b])) for b in range(B)) + 3
            compare_episodes(ctx, f"envfile|{name}", env0, mem, env, got, modes, streams, cap)
    n_file_phases = sum(1 for ph in PHASES if phases[ph]["kind"] != "none")
    if n_file_phases >= 2 and varied_n >= 1:
        ctx.nontriv()
    ctx.sample({"env": name, "cfg": cfg, "phases": {ph: {k: v for k, v in phases[ph].items() if k != "n_gen"}
                                                     for ph in PHASES}})


SUBS = [
    Sub("npz", exec_npz, strategy=lambda tier: npz_cases(tier), budget={"quick": 320, "thorough": 5000}, shards=16),
    Sub("datasets", exec_datasets, strategy=lambda tier: ds_cases(tier), budget={"quick": 160, "thorough": 2500},
        shards=16, weight=2.0),
    Sub("sched_files", exec_sched, strategy=lambda tier: sched_cases(tier), budget={"quick": 160, "thorough": 2500},
        shards=16, weight=3.0),
    Sub("env_files", exec_envfiles, strategy=lambda tier: envfile_cases(tier), budget={"quick": 256, "thorough": 4000},
        shards=16, weight=2.0),
    Sub("env_copy", exec_copy, strategy=lambda tier: copy_cases(tier), budget={"quick": 160, "thorough": 2500},
        shards=16, weight=2.0),
    Sub("checkpoint", exec_ckpt, enumerate=ckpt_enum, budget={"quick": 60, "thorough": 400}, shards=16, shrink=False,
        weight=4.0),
]
