"""C06 — the built-in solution checkers agree with the ground-truth definition."""
import hypothesis.strategies as st
import torch

from ..envs import SPECS, episode_cases
from ..play import DISCRETE, judge_row, play, tau_for
from ..runner import Sub

PROPERTY = "C06"
RULE = (
    "case = routing env with a checker + instance batch + choice streams + a list of solution operators. Candidates = "
    "mask-generated solutions (padded and trimmed), feasibility-preserving reshapes (strip the trailing depot "
    "returns, one route per customer, reversed order, merged routes when they fit) and single-fault corruptions "
    "(drop / duplicate a customer, merge routes, swap / move visits, insert or remove a visit). Each candidate is "
    "classified by the independent oracle with margins: robustly feasible (all margins >= tau) => checker must "
    "accept; robustly infeasible (discrete fault or margin <= -10 tau) for the constraint kinds the property lists "
    "=> checker must raise; otherwise don't-care. Improvement envs: rec_best corruptions (two cycles, repeated "
    "successor, two nodes exchanged in the tour => delivery before pickup) on the reset state of one row and on batches of 2-4 rows after 1-4 random moves "
    "(k_max 2-4) with exactly one corrupted row. Every classified candidate is checked against the reset tensordict, a "
    "re-used tensordict and the FINAL tensordict of the rollout (the td the library hands to get_reward): same verdict "
    "required; all-feasible batches also through env.get_reward(final td, actions) with check_solution=True. "
    "Non-trivial = robustly infeasible corrupted candidate; distinct hash."
)
ASSUMPTIONS = [
    "each candidate is checked as a batch of one (checkers assert over the whole batch); in addition the complete "
    "mask-generated batch and the batch with exactly one corrupted row are checked as batches",
    "any exception raised by the checker counts as rejection",
    "only the violation kinds named by the property are asserted in the 'must raise' direction",
    "SDVRP solutions that stay at the depot (depot -> depot) while demand remains are don't-care: the checker "
    "documents that pruning rule",
]
ENVS = ["tsp", "atsp", "cvrp", "sdvrp", "cvrptw", "svrp", "op", "pctsp", "spctsp", "pdp", "mtvrp"]
ASSERTED = {"duplicate_visit", "missing_visit", "capacity", "capacity_linehaul", "capacity_backhaul", "time_window",
            "depot_deadline", "delivery_before_pickup", "max_length", "min_prize", "skill", "unserved_demand",
            "linehaul_after_backhaul", "distance_limit"}
OPS = ["identity", "trim", "strip_tail", "revisit", "reverse", "split_all", "merge", "drop", "dup", "revisit_own_route", "swap",
       "move", "insert", "remove"]


def apply_op(op, acts, fin, n_nodes, depot_env, i, j):
    t = list(acts[:fin]) if fin else list(acts)
    L = len(t)
    if op == "identity":
        return list(acts)
    if op == "trim" or L == 0:
        return t
    i, j = i % L, j % L
    if op == "strip_tail":
        while depot_env and len(t) > 1 and t[-1] == 0:
            t.pop()
        return t
    if op == "reverse":
        return t[::-1]
    if op == "split_all":
        if not depot_env:
            return t
        out = []
        for a in t:
            if a != 0:
                out += [a, 0]
        return out or t
    if op == "merge":
        zs = [k for k, a in enumerate(t[:-1]) if a == 0 and k > 0]
        if not zs:
            return t
        del t[zs[i % len(zs)]]
        return t
    if op == "drop":
        cs = [k for k, a in enumerate(t) if a != 0 or not depot_env]
        if not cs:
            return t
        k = cs[i % len(cs)]
        t[k] = 0 if depot_env else t[(k + 1) % L]
        return t
    if op == "dup":
        t[i] = t[j]
        return t
    if op in ("revisit", "revisit_own_route"):
        # a customer served once more while nobody is missing (the length grows by the extra visit): inside an existing
        # route, or as a route of its own at the end (always within the capacity)
        cs = sorted({a for a in t if a != 0 or not depot_env})
        if not cs:
            return t
        c = cs[j % len(cs)]
        if op == "revisit":
            t.insert(i, c)
            return t
        while depot_env and len(t) > 1 and t[-1] == 0:
            t.pop()
        return t + ([0, c] if depot_env else [c])
    if op == "swap":
        t[i], t[j] = t[j], t[i]
        return t
    if op == "move":
        a = t.pop(i)
        t.insert(j, a)
        return t
    if op == "insert":
        missing = [c for c in range(1 if depot_env else 0, n_nodes) if c not in t]
        if not missing:
            return t
        t.insert(i, missing[j % len(missing)])
        return t
    if op == "remove":
        if L > 1:
            del t[i]
        return t
    return t


def run_checker(env, td1, cand, clone=True):
    acts = torch.tensor([cand], dtype=torch.long)
    try:
        env.check_solution_validity(td1.clone() if clone else td1, acts)
        return None
    except AssertionError:
        return "AssertionError"
    except Exception as e:  # any exception is a rejection
        return type(e).__name__


def execute(case, ctx):
    spec, env, inst, insts, ep = play(case, ctx)
    name, cfg = case["env"], case["cfg"]
    sl = spec.slice_of(cfg)
    ctx.event(f"env:{name}")
    if ep.dead_end is not None or ep.cap_hit or ep.T == 0:
        return
    td0 = env.reset(inst.clone())
    A = ep.actions_tensor()
    tau = tau_for(case)
    exact = DISCRETE if case["src"] == "lat" else ()
    depot_env = spec.has_depot_action
    for b in range(len(insts)):
        n_nodes = ep.masks[0][b].shape[0]
        fin = ep.finish_step(b)
        # one tensordict per row that is handed to the checker again and again WITHOUT cloning (a checker only reads):
        # the verdict on it must be the verdict on a fresh copy, whatever was checked on it before
        used_td = td0[b:b + 1].clone()
        n_used = 0
        for (op, i, j) in case["ops"]:
            cand = apply_op(op, A[b].tolist(), fin, n_nodes, depot_env, i, j)
            if not cand or min(cand) < 0 or max(cand) >= n_nodes:
                continue
            v = judge_row(case, spec, insts[b], cand)
            names = {c for c, _ in v.viol}
            cls = v.robust_class(tau, exact)
            if cls == "infeasible" and not (names & ASSERTED):
                cls = "dont_care"
            if cls == "feasible" and names:
                cls = "dont_care"
            if names - ASSERTED:
                cls = "dont_care"  # e.g. customers after the closing return: not a kind the property lists
            if name == "sdvrp" and cls == "feasible":
                body = list(cand)
                while body and body[-1] == 0:
                    body.pop()
                if any(a == 0 and b == 0 for a, b in zip([0] + body, body)):
                    # staying at the depot while demand remains: the checker documents this pruning rule
                    cls = "dont_care"
            ctx.event(f"class:{cls}")
            if cls == "dont_care":
                continue
            raised = run_checker(env, td0[b:b + 1], cand)
            det = {"row": b, "op": op, "candidate": cand, "instance": insts[b], "oracle": v.viol[:3], "raised": raised}
            raised_used = run_checker(env, used_td, cand, clone=False)
            if (raised is None) != (raised_used is None):
                ctx.violation(f"{name}|{sl}|checker_verdict_depends_on_earlier_checks|{cls}",
                              f"checker says {raised or 'valid'} on a fresh copy of the instance but {raised_used or 'valid'} on "
                              f"a tensordict on which {n_used} solutions were checked before: {cand}", det)
            n_used += 1
            if n_used >= 2:
                ctx.event("reused_td_checks")
            # the library reaches the checker through env.get_reward(td, actions) with the FINAL td of the decoding loop
            # (visited / used_capacity / current_time ... all consumed by the episode), not with the reset td: a checker
            # judges the instance data and the actions, so its verdict on the final rollout state of this instance must
            # be its verdict on the reset state
            raised_final = run_checker(env, ep.td[b:b + 1], cand)
            ctx.event("final_td_checks")
            if (raised is None) != (raised_final is None):
                ctx.violation(f"{name}|{sl}|checker_verdict_depends_on_rollout_state|{cls}",
                              f"checker says {raised or 'valid'} given the reset tensordict but {raised_final or 'valid'} given "
                              f"the final tensordict of the rollout of the same instance: {cand} ({cls} by the oracle)",
                              {**det, "raised_final_td": raised_final, "rollout_actions": A[b].tolist()})
            if cls == "feasible" and raised is not None:
                ctx.violation(f"{name}|{sl}|checker_rejects_feasible|{op}", f"checker raised {raised} on a feasible solution {cand}", det)
            if cls == "infeasible":
                robust = sorted(c for c, s_ in v.viol if c in ASSERTED and (s_ == float("-inf") or (s_ < 0 if c in exact else s_ <= -10 * tau)))
                kind = (robust or sorted(names & ASSERTED))[0]
                if raised is None:
                    if cand[-1] != 0 and depot_env and run_checker(env, td0[b:b + 1], cand + [0]) is not None:
                        kind += "|unreturned_last_route"  # only the implicit return of the last route is unchecked
                    ctx.violation(f"{name}|{sl}|checker_accepts_infeasible|{kind}",
                                  f"checker accepted a solution violating {v.viol[:2]}: {cand}", det)
                ctx.event(f"infeasible:{name}:{kind}")
                if op not in ("identity", "trim"):
                    ctx.nontriv({"c": case["env"], "i": insts[b], "cand": cand})
            else:
                ctx.event(f"feasible:{name}:{op}")
    # batch level: the checkers assert over the whole batch, so also (i) the complete mask-generated batch must be
    # accepted when every row is robustly feasible and (ii) the batch with exactly one robustly infeasible row (the
    # others unchanged) must be rejected
    B = len(insts)
    if B >= 2:
        row_cls, row_v = [], []
        for b in range(B):
            v = judge_row(case, spec, insts[b], A[b].tolist())
            names = {c for c, _ in v.viol}
            c_ = v.robust_class(tau, exact)
            if names - ASSERTED or (c_ == "feasible" and names):
                c_ = "dont_care"
            row_cls.append(c_)
            row_v.append(v)
        if all(c_ == "feasible" for c_ in row_cls):
            try:
                env.check_solution_validity(td0.clone(), A.clone())
                raised = None
            except Exception as e:
                raised = type(e).__name__
            ctx.event("batch:all_feasible")
            if raised is not None:
                ctx.violation(f"{name}|{sl}|checker_rejects_feasible|batch",
                              f"checker raised {raised} on a batch of {B} feasible mask-generated solutions (each accepted alone)",
                              {"actions": A.tolist(), "instances": insts})
            # the library route itself: get_reward(final td of the rollout, actions) with check_solution=True (MTVRPEnv
            # is built with check_solution=False in vf.envs: its checker is called on the final td directly)
            try:
                if getattr(env, "check_solution", False):
                    env.get_reward(ep.td.clone(), A.clone())
                else:
                    env.check_solution_validity(ep.td.clone(), A.clone())
                raised_lib = None
            except Exception as e:
                raised_lib = type(e).__name__
            ctx.event("batch:all_feasible|get_reward(final td)")
            if raised_lib is not None:
                ctx.violation(f"{name}|{sl}|checker_rejects_feasible|batch|final_td",
                              f"get_reward(final td, actions) with check_solution=True raised {raised_lib} on a batch of {B} "
                              "feasible mask-generated solutions", {"actions": A.tolist(), "instances": insts})
            # one corrupted row
            T = A.shape[1]
            for (op, i, j) in case["ops"][1:]:
                b = (i + j) % B
                cand = apply_op(op, A[b].tolist(), ep.finish_step(b), ep.masks[0][b].shape[0], depot_env, i, j)
                if not cand or len(cand) > T or (len(cand) < T and not depot_env) or min(cand) < 0 \
                        or max(cand) >= ep.masks[0][b].shape[0]:
                    continue
                cand = cand + [0] * (T - len(cand))
                v = judge_row(case, spec, insts[b], cand)
                names = {c for c, _ in v.viol}
                robust = sorted(c for c, s_ in v.viol if c in ASSERTED and (s_ == float("-inf") or (s_ < 0 if c in exact else s_ <= -10 * tau)))
                if v.robust_class(tau, exact) != "infeasible" or not robust or names - ASSERTED:
                    continue
                A2 = A.clone()
                A2[b] = torch.tensor(cand)
                try:
                    env.check_solution_validity(td0.clone(), A2)
                    raised = None
                except Exception as e:
                    raised = type(e).__name__
                ctx.event("batch:one_infeasible_row")
                if raised is None and run_checker(env, td0[b:b + 1], cand) is not None:
                    # only alarm here when the row alone IS rejected: the batch composition hid the violation
                    ctx.violation(f"{name}|{sl}|checker_accepts_infeasible|batch|{robust[0]}",
                                  f"checker accepted a batch whose row {b} violates {v.viol[:2]} (that row alone is rejected)",
                                  {"row": b, "candidate": cand, "actions": A2.tolist()})
                try:  # same batch, final rollout td
                    env.check_solution_validity(ep.td.clone(), A2.clone())
                    raised_f = None
                except Exception as e:
                    raised_f = type(e).__name__
                if (raised is None) != (raised_f is None):
                    ctx.violation(f"{name}|{sl}|checker_verdict_depends_on_rollout_state|batch",
                                  f"batch with one infeasible row ({robust[0]}): {raised or 'valid'} given the reset td, "
                                  f"{raised_f or 'valid'} given the final td of the rollout",
                                  {"row": b, "candidate": cand, "actions": A2.tolist()})
                break
    ctx.sample({"env": name, "cfg": cfg, "ops": case["ops"], "actions_row0": A[0].tolist()})


def cases(tier):
    op = st.tuples(st.sampled_from(OPS), st.integers(0, 40), st.integers(0, 40)).map(list)

    @st.composite
    def c(draw):
        case = draw(episode_cases(tier, ENVS, max_b=4))
        case["ops"] = [["identity", 0, 0]] + draw(st.lists(op, min_size=2, max_size=6))
        return case
    return c()


# ---------------------------------------------------------------- improvement envs: rec_best corruptions
def execute_improvement(case, ctx):
    """rec_best corruptions judged on (i) the reset state of a one-row batch (B=1, moves=0: the original domain) and (ii)
    batches of 2-4 rows after a few moves of the env's own random-move sampler (k_max 2-4 for k-opt), with exactly ONE
    row corrupted: the checker asserts over the whole batch, whichever row holds the fault."""
    from rl4co.envs import PDPRuinRepairEnv, TSPkoptEnv

    n, kind = case["n"], case["env"]
    B, moves, k = int(case.get("B", 1)), int(case.get("moves", 0)), int(case.get("k", 2))
    torch.manual_seed(case["seed"])
    env = TSPkoptEnv(generator_params=dict(num_loc=n), k_max=k) if kind == "tsp_kopt" else PDPRuinRepairEnv(generator_params=dict(num_loc=n))
    td = ctx.guard(env.reset, batch_size=[B], what=f"reset|{kind}")
    for _ in range(moves):
        def one(td=td):
            env._random_action(td)
            return env.step(td)["next"]
        td = ctx.guard(one, what=f"random_move|{kind}")
    row = int(case.get("row", 0)) % B
    recs = td["rec_best"].tolist()
    rec = recs[row]
    N = len(rec)

    def tour_ok(succ):
        seen, cur = set(), 0
        for _ in range(N):
            cur = succ[cur]
            if cur in seen or not (0 <= cur < N):
                return False
            seen.add(cur)
        return cur == 0 and len(seen) == N

    def pdp_ok(succ):
        order, cur = {}, 0
        for t in range(N):
            cur = succ[cur]
            order[cur] = t
        half = (N - 1) // 2
        return all(order[p] < order[p + half] for p in range(1, half + 1))

    def ok(succ):
        return tour_ok(succ) and (kind != "pdp_rr" or pdp_ok(succ))

    cand = list(rec)
    i, j = case["i"] % N, case["j"] % N
    if case["fault"] == "two_cycles" and N >= 4:
        # swap successors of two nodes -> splits the cycle in two (or keeps one): judged by the oracle
        cand[i], cand[j] = cand[j], cand[i]
    elif case["fault"] == "repeat":
        cand[i] = cand[j]
    elif case["fault"] == "swap_nodes" and tour_ok(rec) and N >= 3:
        # two non-depot nodes exchange their places in the tour: still one cycle; for PDP a pickup may now come after
        # its delivery (the precedence fault the property names)
        seq, cur = [0], 0
        for _ in range(N - 1):
            cur = rec[cur]
            seq.append(cur)
        a, b2 = 1 + i % (N - 1), 1 + j % (N - 1)
        seq[a], seq[b2] = seq[b2], seq[a]
        for x in range(N):
            cand[seq[x]] = seq[(x + 1) % N]
    elif case["fault"] == "none":
        pass
    others_ok = all(ok(r) for x, r in enumerate(recs) if x != row)
    valid = ok(cand)
    td2 = td.clone()
    rb = td["rec_best"].clone()
    rb[row] = torch.tensor(cand, dtype=rb.dtype)
    td2["rec_best"] = rb
    try:
        env.check_solution_validity(td2, None)
        raised = None
    except Exception as e:
        raised = type(e).__name__
    det = {"rec_best": cand, "orig": rec, "raised": raised, "row": row, "B": B, "moves": moves, "all_rec_best": recs}
    tag = "" if (B == 1 and moves == 0) else "|batch_after_moves"
    ctx.event(f"{kind}:{'valid' if valid else 'invalid'}:{case['fault']}")
    ctx.event(f"{kind}:B={B}|moves={'0' if moves == 0 else '>=1'}" + (f"|k={k}" if kind == "tsp_kopt" else ""))
    if not others_ok:
        ctx.event("uncorrupted_row_invalid(C09 territory)")
        return
    if valid and raised is not None:
        ctx.violation(f"{kind}||checker_rejects_feasible{tag}", f"checker raised {raised} on a batch of valid tours", det)
    if not valid:
        perm = sorted(cand) == list(range(N))
        reason = "delivery_before_pickup" if (perm and tour_ok(cand)) else ("not_single_cycle" if perm else "repeated_successor")
        if raised is None:
            ctx.violation(f"{kind}||checker_accepts_infeasible|{reason}{tag}",
                          f"checker accepted rec_best {cand} ({reason}) in row {row} of a batch of {B} after {moves} moves", det)
        if B >= 2 and row >= 1:
            ctx.event("corrupted_row>=1_of_batch")
        ctx.nontriv()


def improvement_cases(tier):
    @st.composite
    def c(draw):
        case = {"env": draw(st.sampled_from(["tsp_kopt", "pdp_rr"])), "n": 2 * draw(st.integers(2, 6)),
                "seed": draw(st.integers(0, 2 ** 20)),
                "fault": draw(st.sampled_from(["two_cycles", "repeat", "none", "two_cycles", "swap_nodes"])),
                "i": draw(st.integers(0, 40)), "j": draw(st.integers(0, 40))}
        if draw(st.integers(0, 2)) > 0:  # two thirds: batches after a few moves, one corrupted row
            case.update(B=draw(st.integers(2, 4)), moves=draw(st.integers(1, 4)), row=draw(st.integers(0, 3)))
            if case["env"] == "tsp_kopt":
                case["k"] = draw(st.sampled_from([2, 2, 3, 4]))
                case["n"] = max(case["n"], 2 * case["k"] + 2)
        return case
    return c()


SUBS = [
    Sub("solutions", execute, strategy=cases, budget={"quick": 4000, "thorough": 40000}, shards=16),
    Sub("improvement", execute_improvement, strategy=improvement_cases, budget={"quick": 600, "thorough": 8000}, shards=16),
]
TIME_CAP = {"quick": 400, "thorough": 3000}
