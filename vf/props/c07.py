"""C07 — scheduling environments always yield valid schedules with the reported makespan."""
import torch

from ..envs import SPECS, episode_cases, py_instance
from ..oracles.scheduling import FFSPModel, JobShopModel, judge_ffsp, judge_jobshop, judge_smtwtp
from ..play import play, stepwise_reward_check
from ..runner import Sub

PROPERTY = "C07"
RULE = (
    "case = FJSP / JSSP (mask_no_ops on/off, stepwise_reward on/off [step rewards must sum to -(makespan - largest lower "
    "bound of the reset state)], check_mask on/off [must never raise], variable ops per job => padded batches, eligibility 1..M, generator and "
    "hand-built integer instances) / FFSP / SMTWTP + batch + per-row choice streams biased to waits. Oracles: (1) "
    "independent validity predicate over the final schedule (every real op once, eligible machine, exact processing "
    "time, job precedence, machine exclusivity, padded ops untouched) and makespan == -reward; (2) reference "
    "event-driven simulator re-derives every step's mask and the final start/finish/assignment (FJSP/JSSP) resp. "
    "schedule (FFSP) from the action list alone; SMTWTP: permutation of 1..n. Non-trivial = episode with >=1 wait or "
    "forced time advance and (batches) differing op counts; distinct (case,row) hash. Sub ffsp_multistart: the "
    "documented machine-order augmentation of FFSP (reset -> batchify(td, k) -> env.pre_step, k <= M!, 2-3 machines per "
    "stage): every replicated row is judged by the same validity predicate and by a reference sweep that visits the "
    "machines of each stage in that start's permutation; non-trivial = row of a start >= 1."
)
ASSUMPTIONS = [
    "integer processing times >= 1 (0 encodes 'ineligible' in FJSP/JSSP)",
    "one FFSP env object per episode",
    "the reference simulators in vf/oracles/scheduling.py are the trusted model of the documented decision process",
]
ENVS = ["fjsp", "jssp", "ffsp", "smtwtp"]


def execute(case, ctx):
    stepwise = bool(case["cfg"].get("stepwise"))
    spec, env, inst, insts, ep = play(case, ctx, keep_states=stepwise)
    name = case["env"]
    cfg = case["cfg"]
    sl = spec.slice_of(cfg)
    ctx.event(f"env:{name}|{sl}")
    if cfg.get("check_mask"):
        ctx.event(f"env:{name}|check_mask=True")
    if ep.dead_end is not None or ep.cap_hit or ep.T == 0:
        ctx.event("aborted_episode(C02 territory)")
        return
    B = len(insts)
    A = ep.actions_tensor()
    rew = ctx.guard(env.get_reward, ep.td.clone(), A.clone(), what=f"get_reward|{name}|{sl}").reshape(-1).double()
    opcounts = set()
    for b in range(B):
        acts = A[b].tolist()
        fin = ep.finish_step(b)
        det = {"row": b, "actions": acts, "finish": fin, "instance": insts[b]}
        if name == "smtwtp":
            v = judge_smtwtp(insts[b], acts)
            if v.viol:
                ctx.violation(f"smtwtp||{v.viol[0][0]}", f"episode is not a permutation of the jobs: {acts}", det)
            ctx.check(abs(float(rew[b]) - v.obj) <= 1e-5 * (1 + v.terms), "smtwtp||reward", f"reward {float(rew[b])} != {v.obj}", det)
            if len(acts) >= 3:
                ctx.nontriv({"c": case, "row": b})
            continue
        if name in ("fjsp", "jssp"):
            model = JobShopModel(insts[b], jssp=(name == "jssp"), mask_no_ops=cfg["mask_no_ops"])
            opcounts.add(sum(1 for p in insts[b]["pad_mask"] if not p))
        else:
            model = FFSPModel(insts[b], cfg["stages"], cfg["mas"])
        for t in range(fin):
            want = model.mask()
            got = ep.masks[t][b].tolist()
            if want != got:
                ctx.violation(f"{name}|{sl}|mask_vs_model", f"mask at step {t} differs from the reference simulator",
                              {**det, "step": t, "env_mask": got, "model_mask": want})
                break
            model.step(acts[t])
        else:
            ctx.check(model.done, f"{name}|{sl}|done_vs_model", "env reports done but the reference simulator is not", det)
        if name in ("fjsp", "jssp"):
            final = {"start_times": ep.td["start_times"][b].double().tolist(),
                     "finish_times": ep.td["finish_times"][b].double().tolist(),
                     "ma_assignment": ep.td["ma_assignment"][b].tolist()}
            v = judge_jobshop(insts[b], final)
            if v.viol:
                ctx.violation(f"{name}|{sl}|{v.viol[0][0]}", f"invalid schedule: {v.viol}", {**det, "final": final})
            for o, m in model.assign.items():
                if abs(final["start_times"][o] - model.start[o]) > 1e-6 or abs(final["finish_times"][o] - model.finish[o]) > 1e-6 \
                        or final["ma_assignment"][m][o] == 0:
                    ctx.violation(f"{name}|{sl}|schedule_vs_model", f"stored schedule of op {o} differs from the one the actions describe",
                                  {**det, "final": final, "model_start": model.start, "model_finish": model.finish})
                    break
            waits = model.waits + model.forced_transits
        else:
            final = {"schedule": ep.td["schedule"][b].tolist()}
            v = judge_ffsp(insts[b], final, cfg["stages"], cfg["mas"])
            if v.viol:
                ctx.violation(f"ffsp||{v.viol[0][0]}", f"invalid flow-shop schedule: {v.viol}", {**det, "final": final})
            J = cfg["jobs"]
            if [row[:J] for row in final["schedule"]] != [row[:J] for row in model.start]:
                ctx.violation("ffsp||schedule_vs_model", "stored schedule differs from the one the actions describe",
                              {**det, "final": final, "model": model.start})
            waits = model.waits
        if abs(float(rew[b]) - v.obj) > 1e-5 * (1 + v.terms):
            ctx.violation(f"{name}|{sl}|makespan", f"reward {float(rew[b])} != -makespan {v.obj}", {**det, "final": final})
        if stepwise and name in ("fjsp", "jssp") and not v.viol and model.done:
            # stepwise_reward=True: the per-step rewards telescope to -(makespan - initial lower bound); the makespan is
            # the reference simulator's (instance + actions), the reported makespan above is still -get_reward(td, actions)
            stepwise_reward_check(ctx, name, sl, ep, b, max(model.finish[o] for o in model.assign), det)
        if waits >= 1:
            ctx.event("row_with_wait_or_time_advance")
            ctx.nontriv({"c": case, "row": b})
    if len(opcounts) >= 2:
        ctx.event("padded_batch(different op counts)")
    ctx.sample({"env": name, "cfg": cfg, "src": case["src"], "B": B, "actions_row0": A[0].tolist(), "reward_row0": float(rew[0])})


def execute_ffsp_multistart(case, ctx):
    """FFSP under the documented machine-order augmentation (get_num_starts = M!): the history of the real caller
    (MultiStageFFSPPolicy.pre_forward) is reset -> batchify(td, k) -> env.pre_step(td) -> mask-confined steps; row
    j*B + b sweeps the machines of every stage in the j-th lexicographic permutation."""
    from math import factorial

    from rl4co.utils.ops import batchify

    from ..episode import run_episode
    from ..models.ffsp_ref import FFSPOrderModel, start_order
    cfg = case["cfg"]
    spec = SPECS["ffsp"]
    S, M, J = cfg["stages"], cfg["mas"], cfg["jobs"]
    k = min(int(case["k"]), factorial(M))
    env = ctx.guard(spec.env, cfg, what="build_env|ffsp")
    inst = ctx.guard(spec.instance, case, what="instance|ffsp")
    B = inst.batch_size[0]
    insts = [py_instance("ffsp", inst[b]) for b in range(B)]
    sl = f"multistart|k={'2' if k == 2 else '3+'}"
    ctx.event(f"env:ffsp|{sl}|M={M}")

    def prepare():
        td = env.reset(inst.clone())
        return env.pre_step(batchify(td, k))
    td0 = ctx.guard(prepare, what="ffsp_multistart|reset_batchify_pre_step")
    R = B * k
    rows = case["rows"]
    modes = [rows[r % len(rows)]["mode"] for r in range(R)]
    streams = [rows[r % len(rows)]["stream"] for r in range(R)]
    cap = max(spec.bound(cfg, insts[b]) for b in range(B)) + 3
    ep = ctx.guard(run_episode, env, td0, modes, streams, cap, False, False, what="episode|ffsp|multistart")
    if ep.dead_end is not None or ep.cap_hit or ep.T == 0:
        ctx.violation(f"ffsp|{sl}|episode_aborted", f"dead end {ep.dead_end} / cap hit {ep.cap_hit} under the machine-order augmentation",
                      {"instance": insts})
        return
    A = ep.actions_tensor()
    rew = ctx.guard(env.get_reward, ep.td.clone(), A.clone(), what="get_reward|ffsp|multistart").reshape(-1).double()
    for r in range(R):
        b, j = r % B, r // B
        acts = A[r].tolist()
        fin = ep.finish_step(r)
        det = {"row": r, "instance_row": b, "start": j, "machine_order": list(start_order(M, j)), "actions": acts,
               "finish": fin, "instance": insts[b]}
        model = FFSPOrderModel(insts[b], S, M, start_order(M, j))
        for t in range(fin):
            want, got = model.mask(), ep.masks[t][r].tolist()
            if want != got:
                ctx.violation(f"ffsp|{sl}|mask_vs_model", f"mask at step {t} differs from the reference sweep with start {j}'s machine order",
                              {**det, "step": t, "env_mask": got, "model_mask": want})
                break
            model.step(acts[t])
        else:
            ctx.check(model.done, f"ffsp|{sl}|done_vs_model", "env reports done but the reference sweep is not", det)
        final = {"schedule": ep.td["schedule"][r].tolist()}
        v = judge_ffsp(insts[b], final, S, M)
        if v.viol:
            ctx.violation(f"ffsp|{sl}|{v.viol[0][0]}", f"invalid flow-shop schedule: {v.viol}", {**det, "final": final})
        if [row[:J] for row in final["schedule"]] != [row[:J] for row in model.start]:
            ctx.violation(f"ffsp|{sl}|schedule_vs_model", "stored schedule differs from the one the actions describe",
                          {**det, "final": final, "model": model.start})
        if abs(float(rew[r]) - v.obj) > 1e-5 * (1 + v.terms):
            ctx.violation(f"ffsp|{sl}|makespan", f"reward {float(rew[r])} != -makespan {v.obj}", {**det, "final": final})
        if j >= 1 and J >= 2:
            ctx.nontriv({"c": case, "row": r})
    ctx.sample({"env": "ffsp", "cfg": cfg, "B": B, "k": k, "actions_row_last": A[-1].tolist(), "reward_row_last": float(rew[-1])})


def strat_ffsp_multistart(tier):
    import hypothesis.strategies as st
    from ..envs import row_strategy
    spec = SPECS["ffsp"]

    @st.composite
    def c(draw):
        cfg = draw(spec.cfg(tier))
        cfg["mas"] = draw(st.integers(2, 3))
        cfg["jobs"] = max(cfg["jobs"], 2)
        B = draw(st.integers(1, 4))
        src = draw(st.sampled_from(["gen", "lat"]))
        case = {"env": "ffsp", "cfg": cfg, "B": B, "src": src, "seed": draw(st.integers(0, 2 ** 31 - 1)),
                "k": draw(st.sampled_from([2, 2, 3, 6]))}
        if src == "lat":
            case["lat"] = draw(spec.lattice(cfg, B))
        case["rows"] = [draw(row_strategy()) for _ in range(draw(st.integers(1, 6)))]
        return case
    return c()


def strat(tier):
    import hypothesis.strategies as st
    from ..envs import row_strategy

    @st.composite
    def c(draw):
        case = draw(episode_cases(tier, ENVS))
        # bias towards waits: mode low_if takes action 0 (wait) whenever offered
        if draw(st.booleans()):
            for r in case["rows"]:
                if draw(st.booleans()):
                    r["mode"] = "low_if"
        return case
    return c()


SUBS = [
    Sub("episodes", execute, strategy=strat, budget={"quick": 8992, "thorough": 50000}, shards=16),
    Sub("ffsp_multistart", execute_ffsp_multistart, strategy=strat_ffsp_multistart, budget={"quick": 1280, "thorough": 8000}, shards=16),
]
TIME_CAP = {"quick": 400, "thorough": 3000}
