"""C07 — scheduling environments always yield valid schedules with the reported makespan."""
import torch

from ..envs import SPECS, episode_cases, py_instance
from ..oracles.scheduling import FFSPModel, JobShopModel, judge_ffsp, judge_jobshop, judge_smtwtp
from ..play import play
from ..runner import Sub

PROPERTY = "C07"
RULE = (
    "case = FJSP / JSSP (mask_no_ops on/off, variable ops per job => padded batches, eligibility 1..M, generator and "
    "hand-built integer instances) / FFSP / SMTWTP + batch + per-row choice streams biased to waits. Oracles: (1) "
    "independent validity predicate over the final schedule (every real op once, eligible machine, exact processing "
    "time, job precedence, machine exclusivity, padded ops untouched) and makespan == -reward; (2) reference "
    "event-driven simulator re-derives every step's mask and the final start/finish/assignment (FJSP/JSSP) resp. "
    "schedule (FFSP) from the action list alone; SMTWTP: permutation of 1..n. Non-trivial = episode with >=1 wait or "
    "forced time advance and (batches) differing op counts; distinct (case,row) hash."
)
ASSUMPTIONS = [
    "integer processing times >= 1 (0 encodes 'ineligible' in FJSP/JSSP)",
    "one FFSP env object per episode",
    "the reference simulators in vf/oracles/scheduling.py are the trusted model of the documented decision process",
]
ENVS = ["fjsp", "jssp", "ffsp", "smtwtp"]


def execute(case, ctx):
    spec, env, inst, insts, ep = play(case, ctx)
    name = case["env"]
    cfg = case["cfg"]
    sl = spec.slice_of(cfg)
    ctx.event(f"env:{name}|{sl}")
    if ep.dead_end is not None or ep.cap_hit or ep.T == 0:
        ctx.event("aborted_episode(C02 territory)")
        return
    B = len(insts)
    A = ep.actions_tensor()
    rew = ctx.guard(env.get_reward, ep.td.clone(), A.clone(), what=f"get_reward|{name}|{sl}").reshape(-1).double()
    opcounts = set()
    for b in range(B):
        acts = A[b].tolist()
        fin = ep.finish_step(b)
        det = {"row": b, "actions": acts, "finish": fin, "instance": insts[b]}
        if name == "smtwtp":
            v = judge_smtwtp(insts[b], acts)
            if v.viol:
                ctx.violation(f"smtwtp||{v.viol[0][0]}", f"episode is not a permutation of the jobs: {acts}", det)
            ctx.check(abs(float(rew[b]) - v.obj) <= 1e-5 * (1 + v.terms), "smtwtp||reward", f"reward {float(rew[b])} != {v.obj}", det)
            if len(acts) >= 3:
                ctx.nontriv({"c": case, "row": b})
            continue
        if name in ("fjsp", "jssp"):
            model = JobShopModel(insts[b], jssp=(name == "jssp"), mask_no_ops=cfg["mask_no_ops"])
            opcounts.add(sum(1 for p in insts[b]["pad_mask"] if not p))
        else:
            model = FFSPModel(insts[b], cfg["stages"], cfg["mas"])
        for t in range(fin):
            want = model.mask()
            got = ep.masks[t][b].tolist()
            if want != got:
                ctx.violation(f"{name}|{sl}|mask_vs_model", f"mask at step {t} differs from the reference simulator",
                              {**det, "step": t, "env_mask": got, "model_mask": want})
                break
            model.step(acts[t])
        else:
            ctx.check(model.done, f"{name}|{sl}|done_vs_model", "env reports done but the reference simulator is not", det)
        if name in ("fjsp", "jssp"):
            final = {"start_times": ep.td["start_times"][b].double().tolist(),
                     "finish_times": ep.td["finish_times"][b].double().tolist(),
                     "ma_assignment": ep.td["ma_assignment"][b].tolist()}
            v = judge_jobshop(insts[b], final)
            if v.viol:
                ctx.violation(f"{name}|{sl}|{v.viol[0][0]}", f"invalid schedule: {v.viol}", {**det, "final": final})
            for o, m in model.assign.items():
                if abs(final["start_times"][o] - model.start[o]) > 1e-6 or abs(final["finish_times"][o] - model.finish[o]) > 1e-6 \
                        or final["ma_assignment"][m][o] == 0:
                    ctx.violation(f"{name}|{sl}|schedule_vs_model", f"stored schedule of op {o} differs from the one the actions describe",
                                  {**det, "final": final, "model_start": model.start, "model_finish": model.finish})
                    break
            waits = model.waits + model.forced_transits
        else:
            final = {"schedule": ep.td["schedule"][b].tolist()}
            v = judge_ffsp(insts[b], final, cfg["stages"], cfg["mas"])
            if v.viol:
                ctx.violation(f"ffsp||{v.viol[0][0]}", f"invalid flow-shop schedule: {v.viol}", {**det, "final": final})
            J = cfg["jobs"]
            if [row[:J] for row in final["schedule"]] != [row[:J] for row in model.start]:
                ctx.violation("ffsp||schedule_vs_model", "stored schedule differs from the one the actions describe",
                              {**det, "final": final, "model": model.start})
            waits = model.waits
        if abs(float(rew[b]) - v.obj) > 1e-5 * (1 + v.terms):
            ctx.violation(f"{name}|{sl}|makespan", f"reward {float(rew[b])} != -makespan {v.obj}", {**det, "final": final})
        if waits >= 1:
            ctx.event("row_with_wait_or_time_advance")
            ctx.nontriv({"c": case, "row": b})
    if len(opcounts) >= 2:
        ctx.event("padded_batch(different op counts)")
    ctx.sample({"env": name, "cfg": cfg, "src": case["src"], "B": B, "actions_row0": A[0].tolist(), "reward_row0": float(rew[0])})


def strat(tier):
    import hypothesis.strategies as st
    from ..envs import row_strategy

    @st.composite
    def c(draw):
        case = draw(episode_cases(tier, ENVS))
        # bias towards waits: mode low_if takes action 0 (wait) whenever offered
        if draw(st.booleans()):
            for r in case["rows"]:
                if draw(st.booleans()):
                    r["mode"] = "low_if"
        return case
    return c()


SUBS = [Sub("episodes", execute, strategy=strat, budget={"quick": 4500, "thorough": 50000}, shards=16)]
TIME_CAP = {"quick": 400, "thorough": 3000}
