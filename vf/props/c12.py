"""C12 — replicated rollouts (multi-start, sampling, augmentation) keep their instance.

Part A  pure replication ops (rl4co.utils.ops.batchify / unbatchify / gather_by_index / unbatchify_and_gather /
        get_best_actions) against plain index arithmetic on element-tagged tensors and TensorDicts.
        Layout convention (docstrings "(r b) ... -> b r ..." and the callers POMO.shared_step /
        tasks.eval: "augment, then multi-start"):   flat row of multi-index (b, i1, .., im) under factors
        (f1, .., fm) is   b + B*(i1 + f1*(i2 + f2*(...)))   - instance fastest, LAST factor slowest.
Part B  forced start actions of every env with a start rule: in the reset mask of their own instance
        (row r <-> instance r mod B), pairwise distinct per instance whenever >= k feasible starts exist.
Part C  end to end through a tiny attention-model policy with a get_reward spy (DESIGN §2.5).
Part D  POMO.shared_step (augment x multi-start) metrics against the spied candidate rewards.
"""
import math
import sys

import hypothesis.strategies as st
import torch
from tensordict import TensorDict

from ..envs import ENV_SHAPE_FREE, SPECS, py_instance
from ..play import judge_row
from ..runner import Sub, repo_frame, SkipCase, Violation

PROPERTY = "C12"
RULE = (
    "A: (B 1-6, factor tuples len 1-3 entries 1-5 [0 = skipped, as POMO's training phase passes], trailing shapes, "
    "int/float dtypes, nested TensorDicts) with element-tagged content; exhaustive over all (B, factors) with "
    "B*prod(factors) <= 240; non-trivial = B>=2 and >=2 factors not all equal. "
    "B: env x config x generator/lattice/float instances (OP nodes beyond the budget, SVRP skills above technician 0, "
    "TSP/CVRP instances larger or smaller than env.generator.num_loc; for every other name of vf.envs.ENV_SHAPE_FREE - "
    "sdvrp/cvrptw/svrp/op/mtvrp/flp/fjsp/mcp - 1/3 of the cases an env object built for another size than its "
    "instances; hand-built CVRPTW rows in unscaled integer units) x k in 1..2n or default get_num_starts; "
    "non-trivial = B>=2, k>=2 and some row has an infeasible non-depot first move or k != #feasible. "
    "C: AM policy (embed 32, spread init) on tsp/cvrp/sdvrp (dynamic embedding branch)/pctsp/pdp/mtvrp/mtsp (reward read "
    "from the final state), n 4-8 (thorough 4-12), B 1-4 (thorough 1-6) distinct generator instances, "
    "multistart_greedy / multistart_sampling / sampling+num_samples, k explicit or default, select_best off and on "
    "under the same torch seed, summed or per-step log-likelihood; 1/4 of the cases another bundled policy (am_pomo, "
    "symnco, ham/pdp, matnet/atsp, mvmoe/mtvrp, polynet); 1/2 a request form (multistart_* name | multistart= / "
    "multisample= flag | plain greedy/sampling with num_starts; counts k / None / 0 / 1; num_samples=1; greedy with "
    "num_samples) whose layout follows the documented resolution rules (vf.props.c11.resolve_request; count <= 1 = "
    "plain decode of B rows, select_best then changes nothing); decode type through phase + <phase>_decode_type (1/4); "
    "caller-supplied select_start_nodes_fn (1/4 of the multistart cases: first actions == its answer, row r <-> "
    "instance r mod B); env configuration / hand-built rows / env built for another size / constructor switches "
    "(vf.policies.setup_dims); non-trivial = B>=2, k>=2, k != B. "
    "D: POMO.shared_step(val/test) with num_augment a in 2..4 (symmetric), num_starts s in 2..5, a != s mostly."
)
ASSUMPTIONS = [
    "feasible starts of a row = True entries of its reset action mask, not counting action 0 where action 0 is a "
    "depot / dummy / wait action (documented: 'depot cannot be a start node')",
    "exact reward ties between candidates of one instance: any tied maximiser is accepted, but actions and "
    "log-likelihood must come from the same candidate",
    "independent objective oracle (vf.oracles.routing) on the ORIGINAL instance, tolerance 1e-5*(1+sum|terms|)",
    "evaluate-mode comparison tolerance 1e-4*(1+|x|) per step (float32, different batch layouts) for the attention model "
    "in its default configuration, 1e-3*(1+|x|) for the other policies, drawn env options and constructor switches (deeper "
    "/ unclipped / saturated configurations amplify layout rounding, C11 measured 5e-4; layout defects are O(1)); "
    "PolyNet conditions on the start index: no per-instance evaluation to compare with",
    "op / svrp / smtwtp are excluded by construction from C and D (their start rules are known findings F17-F19); "
    "mtsp runs in C only with at most as many starts as cities (wrap-around finding of sub-check B)",
    "get_best_actions has no caller and no docstring; it is read as 'actions of candidate max_idxs[b] of instance b'",
]
TIME_CAP = {"quick": 300, "thorough": 2400}

DT = {"i64": torch.int64, "i32": torch.int32, "f32": torch.float32, "f64": torch.float64}


# =========================================================================== Part A
def _prod(xs):
    p = 1
    for x in xs:
        p *= int(x)
    return p


def tagged(N, trail, dtype="i64", offset=0):
    """Tensor [N, *trail] whose every element is unique (row r holds the range r*prod(trail)...)."""
    n = N * _prod(trail)
    return (torch.arange(n, dtype=torch.int64) + offset).view(N, *trail).to(DT[dtype])


def tagged_td(N, trail, dtype, nest):
    d = {"a": tagged(N, trail, dtype), "b": tagged(N, [], "i64", 7)}
    if nest >= 1:
        inner = {"c": tagged(N, [2], "f32", 11)}
        if nest >= 2:
            inner["m"] = TensorDict({"d": tagged(N, [1, 2], "i64", 13)}, batch_size=[N])
        d["n"] = TensorDict(inner, batch_size=[N])
    return TensorDict(d, batch_size=[N])


def leaves(td):
    return {k if isinstance(k, str) else "/".join(k): v
            for k, v in td.items(include_nested=True, leaves_only=True)}


def layout_index(B, f):
    """E[b, i1..im] = b + B*(i1 + f1*(i2 + f2*(...)))  (harness-own statement of the convention)."""
    m = len(f)
    E = torch.arange(B).view(B, *([1] * m))
    stride = B
    for t, ft in enumerate(f):
        shp = [1] * (m + 1)
        shp[t + 1] = ft
        E = E + stride * torch.arange(ft).view(shp)
        stride *= ft
    return E


def same(got, src, want_fn, nbatch):
    """got (tensor | TensorDict) equals want_fn(leaf) for every leaf of src; returns None or a message."""
    if isinstance(src, TensorDict):
        if not isinstance(got, TensorDict):
            return f"expected a TensorDict, got {type(got).__name__}"
        g, s = leaves(got), leaves(src)
        if sorted(g) != sorted(s):
            return f"keys {sorted(g)} != {sorted(s)}"
        want_bs = None
        for k in sorted(s):
            w = want_fn(s[k])
            want_bs = tuple(w.shape[:nbatch])
            msg = same(g[k], s[k], want_fn, nbatch)
            if msg:
                return f"leaf {k}: {msg}"
        if tuple(got.batch_size) != want_bs:
            return f"batch_size {tuple(got.batch_size)} != {want_bs}"
        return None
    w = want_fn(src)
    if not isinstance(got, torch.Tensor):
        return f"expected a tensor, got {type(got).__name__}"
    if tuple(got.shape) != tuple(w.shape):
        return f"shape {tuple(got.shape)} != {tuple(w.shape)}"
    if got.dtype != w.dtype:
        return f"dtype {got.dtype} != {w.dtype}"
    if not torch.equal(got.contiguous(), w.contiguous()):
        bad = (got != w).nonzero()
        return f"values differ at {bad[0].tolist()} ({int((got != w).sum())} elements)"
    return None


def enum_ops(tier):
    cases = []
    for B in range(1, 7):
        for m in (1, 2, 3):
            def rec(pref):
                if len(pref) == m:
                    if B * _prod(pref) <= 240:
                        cases.append({"B": B, "f": list(pref), "trail": [2], "dtype": "i64", "nest": 1,
                                      "iseed": B * 1000 + _prod(pref) * 7 + len(pref)})
                    return
                for v in range(1, 6):
                    rec(pref + [v])
            rec([])
    return cases


@st.composite
def ops_cases(draw, tier="quick"):
    B = draw(st.integers(1, 6))
    m = draw(st.integers(1, 3))
    f = draw(st.lists(st.integers(1, 5), min_size=m, max_size=m))
    if m >= 2 and draw(st.integers(0, 7)) == 0:
        f[draw(st.integers(0, m - 1))] = 0  # POMO's training phase passes (0, n_start)
        if not any(f):
            f[0] = 2
    trail = draw(st.lists(st.integers(1, 4), min_size=0, max_size=3))
    return {"B": B, "f": f, "trail": trail, "dtype": draw(st.sampled_from(sorted(DT))),
            "nest": draw(st.integers(0, 2)), "iseed": draw(st.integers(0, 2 ** 20))}


def exec_ops(case, ctx):
    from rl4co.utils.ops import batchify, gather_by_index, unbatchify, unbatchify_and_gather

    B, f_raw, trail, dtype, nest = case["B"], [int(v) for v in case["f"]], list(case["trail"]), case["dtype"], case["nest"]
    f = [v for v in f_raw if v > 0]  # zero entries are skipped by both functions (POMO train: n_aug = 0)
    K = _prod(f)
    m = len(f)
    gen = torch.Generator().manual_seed(int(case["iseed"]))
    if 0 in f_raw:
        ctx.event("zero_factor")
    ctx.event(f"factors={len(f_raw)}|{'equal' if len(set(f)) <= 1 else 'mixed'}|B{'=1' if B == 1 else '>1'}")
    if B >= 2 and m >= 2 and len(set(f)) > 1:
        ctx.nontriv()

    def check(got, src, want_fn, nbatch, sig, what):
        msg = same(got, src, want_fn, nbatch)
        if msg:
            ctx.violation(sig, f"{what}: {msg}", {"B": B, "factors": f_raw})

    for kind in ("tensor", "td"):
        def mk(N, off=0):
            if kind == "tensor":
                return tagged(N, trail, dtype, off)
            return tagged_td(N, trail, dtype, nest)

        x = mk(B)
        # -- single factors ---------------------------------------------------------------
        for k in sorted(set(f)):
            rows = torch.arange(k * B) % B
            y = ctx.guard(batchify, x, k, what="batchify")
            check(y, x, lambda t: t[rows], 1, f"ops|batchify|single|{kind}",
                  f"batchify(x,{k})[j*B+b] != x[b]")
            yk = mk(k * B)
            E1 = layout_index(B, [k])
            u = ctx.guard(unbatchify, yk, k, what="unbatchify")
            check(u, yk, lambda t: t[E1], 2, f"ops|unbatchify|single|{kind}",
                  f"unbatchify(y,{k})[b,j] != y[j*B+b]")
            u = ctx.guard(unbatchify, y, k, what="unbatchify")
            check(u, x, lambda t: t[:, None].expand(B, k, *t.shape[1:]), 2, f"ops|roundtrip|single|{kind}",
                  f"unbatchify(batchify(x,{k}),{k})[b,j] != x[b]")
            # best-selection primitive used by _select_best: candidate idx[b] of instance b
            idx = torch.randint(0, k, (B,), generator=gen)
            g = ctx.guard(unbatchify_and_gather, yk, idx, k, what="unbatchify_and_gather")
            pick = idx * B + torch.arange(B)
            check(g, yk, lambda t: t[pick], 1, f"ops|unbatchify_and_gather|{kind}",
                  f"unbatchify_and_gather(y,idx,{k})[b] != y[idx[b]*B+b]")
        # -- tuples -----------------------------------------------------------------------
        rowsK = torch.arange(K * B) % B
        E = layout_index(B, f)
        expand_x = lambda t: t.view(B, *([1] * m), *t.shape[1:]).expand(B, *f, *t.shape[1:])
        yt = ctx.guard(batchify, x, tuple(f_raw), what="batchify")
        check(yt, x, lambda t: t[rowsK], 1, f"ops|batchify|tuple|{kind}",
              f"batchify(x,{tuple(f_raw)})[r] != x[r mod B]")
        u = ctx.guard(unbatchify, yt, tuple(f_raw), what="unbatchify")
        check(u, x, expand_x, m + 1, f"ops|roundtrip|tuple|{kind}",
              f"unbatchify(batchify(x,F),F)[b,...] != x[b] for F={tuple(f_raw)}")
        z = x
        for k in f:  # successive expansion: "augment, then multi-start, then ..."
            z = ctx.guard(batchify, z, k, what="batchify")
        check(z, x, lambda t: t[rowsK], 1, f"ops|batchify|successive|{kind}",
              f"successive batchify by {f}: row r != x[r mod B]")
        u = ctx.guard(unbatchify, z, tuple(f_raw), what="unbatchify")
        check(u, x, expand_x, m + 1, f"ops|roundtrip|successive|{kind}",
              f"unbatchify(successive batchify by {f}, {tuple(f_raw)})[b,...] != x[b]")
        yK = mk(K * B)
        u = ctx.guard(unbatchify, yK, tuple(f_raw), what="unbatchify")
        check(u, yK, lambda t: t[E], m + 1, f"ops|unbatchify|tuple|{kind}",
              f"unbatchify(y,{tuple(f_raw)})[b,i1..im] != y[b + B*(i1 + f1*(i2 + ...))]")
        w = yK
        for k in reversed(f):  # inverse of the successive expansion, one factor at a time
            w = ctx.guard(unbatchify, w, k, what="unbatchify")
        check(w, yK, lambda t: t[E], m + 1, f"ops|unbatchify|successive|{kind}",
              f"successive unbatchify by reversed {f} != tuple layout")
        if isinstance(f_raw, list) and m >= 1:  # list argument (replayed cases, hydra configs)
            u2 = ctx.guard(unbatchify, yK, list(f_raw), what="unbatchify")
            check(u2, yK, lambda t: t[E], m + 1, f"ops|unbatchify|tuple|{kind}", "list-typed factors differ from tuple")
        # -- gather_by_index on the regrouped tensor (POMO: best start per augmentation) ------
        if kind == "tensor":
            U = yK[E]  # [B, f1..fm, *trail] built by the harness, not by unbatchify
            for d in range(1, m + 1):
                ishape = [B] + f[: d - 1]
                idx = torch.randint(0, f[d - 1], ishape, generator=gen)
                grids = torch.meshgrid(*[torch.arange(s) for s in ishape], indexing="ij")
                want = U[(*grids, idx)]
                got = ctx.guard(gather_by_index, U, idx, dim=d, what="gather_by_index")
                check(got, U, lambda t: want, 0, "ops|gather_by_index|squeeze",
                      f"gather_by_index(src{list(U.shape)}, idx{ishape}, dim={d})[b,..] != src[b,..,idx[b,..]]")
                got = ctx.guard(gather_by_index, U, idx, dim=d, squeeze=False, what="gather_by_index")
                check(got, U, lambda t: want.unsqueeze(d), 0, "ops|gather_by_index|keepdim",
                      f"gather_by_index(.., dim={d}, squeeze=False) != src[b,..,idx[b,..]] with the dim kept")
                # composition with unbatchify (what POMO.shared_step does with real outputs)
                uu = ctx.guard(unbatchify, yK, tuple(f), what="unbatchify")
                got = ctx.guard(gather_by_index, uu, idx, dim=d, what="gather_by_index")
                check(got, U, lambda t: want, 0, "ops|unbatchify+gather_by_index",
                      f"gather_by_index(unbatchify(y,{tuple(f)}), idx, dim={d}) != index arithmetic")
            # several indices per row (docstring example: src [64,20,2], idx [64,3] -> [64,3,2])
            q = int(torch.randint(1, 4, (1,), generator=gen))
            idx = torch.randint(0, f[0], (B, q), generator=gen)
            want = torch.stack([U[b][idx[b]] for b in range(B)], 0)
            if q == 1:
                want = want.squeeze(1)
            got = ctx.guard(gather_by_index, U, idx, what="gather_by_index")
            check(got, U, lambda t: want, 0, "ops|gather_by_index|multi",
                  f"gather_by_index(src{list(U.shape)}, idx[{B},{q}])[b,q] != src[b,idx[b,q]]")
    ctx.sample({"B": B, "f": f_raw, "trail": trail, "dtype": dtype, "nest": nest})


# ---- get_best_actions (no caller in the library; natural reading: best candidate's actions per instance)
def enum_best(tier):
    return [{"B": B, "k": k, "T": T, "iseed": 97 * B + 13 * k + T}
            for B in range(1, 5) for k in range(1, 5) for T in range(1, 5)]


def exec_best(case, ctx):
    from rl4co.utils.ops import get_best_actions

    B, k, T = case["B"], case["k"], case["T"]
    gen = torch.Generator().manual_seed(int(case["iseed"]))
    acts = tagged(k * B, [T])
    idx = torch.randint(0, k, (B,), generator=gen)
    want = acts[idx * B + torch.arange(B)]
    ctx.event(f"B{'=1' if B == 1 else '>1'}|k{'=1' if k == 1 else '>1'}|T{'=1' if T == 1 else '>1'}")
    if B >= 2 and k >= 2 and k != B:
        ctx.nontriv()
    got = ctx.guard(get_best_actions, acts, idx, what="get_best_actions")
    ok = isinstance(got, torch.Tensor) and got.numel() == want.numel() and torch.equal(got.reshape(B, T), want)
    ctx.check(ok, "get_best_actions|not_best_rows",
              f"get_best_actions(actions[{k}*{B},{T}], max_idxs[{B}]) is not actions[max_idxs[b]*B+b]: "
              f"shape {tuple(got.shape) if isinstance(got, torch.Tensor) else None}",
              {"got": got, "want": want, "max_idxs": idx})


# =========================================================================== Part B
START_ENVS = ["tsp", "atsp", "cvrp", "cvrptw", "sdvrp", "svrp", "op", "pctsp", "spctsp", "pdp", "mtsp", "mtvrp",
              "smtwtp", "flp", "mcp", "fjsp", "jssp", "ffsp", "mdcpdp"]
START_RULE = {"tsp": "ops_all_nodes", "atsp": "ops_all_nodes", "flp": "flp_own", "mcp": "mcp_own",
              "op": "ops_depot+op_resample", "pdp": "pdp_pickups", "mtvrp": "mtvrp_own", "fjsp": "random_sample",
              "jssp": "random_sample", "ffsp": "ffsp_tables"}
MISMATCH = ("tsp", "cvrp")  # reset takes the size from the instance ("We do not enforce loading from self for flexibility")


def size_guess(name, cfg):
    if "n" in cfg:
        return cfg["n"] + 1
    if name in ("fjsp", "jssp"):
        return cfg["jobs"] * cfg["max_ops"] + 1
    if name == "mcp":
        return cfg["sets"]
    if name == "ffsp":
        return cfg["jobs"] + 1
    if name == "mdcpdp":
        return cfg["n"] + cfg["depots"]
    return 8


@st.composite
def start_cases(draw, tier="quick"):
    name = draw(st.sampled_from(START_ENVS + ["op", "op", "tsp", "pdp", "fjsp"]))
    spec = SPECS[name]
    cfg = draw(spec.cfg(tier))
    B = draw(st.integers(1, 6))
    src = draw(st.sampled_from(spec.sources))
    if isinstance(cfg.get("n"), int) and cfg["n"] > 100:
        src, B = "gen", min(B, 3)
    if name == "cvrptw" and src != "gen" and cfg.get("scale"):
        # hand-built CVRPTW rows stay in UNSCALED integer units here (exact float32 arithmetic: "arrival == window end"
        # is decided exactly).  Divided by max_time (vf.envs.CVRPTW.instance under scale=True) the boundary cases of
        # the tight construction flip by rounding, and this sub-check takes the reset mask as ground truth
        cfg = dict(cfg, scale=False)
    case = {"env": name, "cfg": cfg, "B": B, "src": src, "seed": draw(st.integers(0, 2 ** 31 - 1))}
    inst_cfg = cfg
    if name in MISMATCH and draw(st.integers(0, 2)) == 0:
        mm = draw(st.integers(2, 12).filter(lambda v: v != cfg["n"]))
        inst_cfg = dict(cfg, n=mm)
        case["inst_n"] = mm
    elif name in ENV_SHAPE_FREE and name not in MISMATCH and draw(st.integers(0, 2)) == 0:
        # env object built for another size than the instances it is given, for every env whose reset takes the sizes
        # from the data (vf.envs.ENV_SHAPE_FREE; same override rule as vf.envs.episode_cases): the start rules of
        # MTVRP / FLP / MCP / FJSP / OP / SVRP / SDVRP / CVRPTW must read the instance, not env.generator
        ov = {}
        for k_ in ENV_SHAPE_FREE[name]:
            lo, hi = (1, 4) if k_ in ("jobs", "mas") else ((2, 9) if k_ == "sets" else ((3, 16) if k_ == "items" else (2, 12)))
            ov[k_] = draw(st.integers(lo, hi))
        if any(ov[k_] != cfg[k_] for k_ in ov):
            if name == "fjsp":
                ov["max_elig"] = min(cfg["max_elig"], ov["mas"])
            if name == "flp":
                ov["k"] = min(cfg["k"], ov["n"])
            if name == "mcp":
                ov["items"] = max(ov["items"], cfg["max_size"])
                ov["k"] = min(cfg["k"], ov["sets"])
            case["env_shape"] = ov
    if src in ("lat", "flt"):
        case["lat"] = draw(spec.lattice(inst_cfg, B, exact=(src == "lat")))
    elif src == "tgt":
        case["lat"] = draw(spec.tight(inst_cfg, B))
    g = size_guess(name, inst_cfg)
    case["k"] = draw(st.one_of(st.none(), st.integers(1, 2 * g + 1), st.integers(1, g)))
    return case


def _call(ctx, sig, fn, *a, **kw):
    """Like ctx.guard but with a caller-chosen signature prefix (so env slices keep their own family)."""
    try:
        return fn(*a, **kw)
    except (Violation, SkipCase):
        raise
    except Exception as e:  # noqa
        fr = repo_frame(sys.exc_info()[2])
        if fr is None:
            raise
        ctx.violation(f"{sig}|{type(e).__name__}", f"{type(e).__name__}: {str(e)[:300]}", {"frame": fr},
                      abort_known=True)


def harness_expand(td, k):
    """Row j*B+b is a copy of row b (harness-own, no rl4co code)."""
    return torch.cat([td.clone() for _ in range(k)], 0) if k > 1 else td.clone()


def _step_outcome(env, td, sel, k):
    """Message text only (the out-of-range start is already the violation): what the forced first step does."""
    td2 = harness_expand(td, k)
    td2.set("action", sel.clone())
    try:
        env.step(td2)
        return "no error"
    except Exception as e:  # noqa
        return f"{type(e).__name__}: {str(e)[:80]}"


# env names whose start rule is an open known finding registered as start_nodes|<name>|*: their size-mismatch cases keep
# the plain token (the same defect shows there; a separate family would re-report it)
OPEN_START_FINDINGS = ("op", "svrp", "fjsp", "jssp")


def env_token(name, cfg, mismatch):
    tok = name
    if name == "pdp" and cfg.get("force_start"):
        tok = "pdp_force_start"  # the reset mask admits only the depot there
    return f"size_mismatch|{tok}" if (mismatch and name not in OPEN_START_FINDINGS) else tok


def exec_starts(case, ctx):
    name, cfg, B = case["env"], case["cfg"], case["B"]
    spec = SPECS[name]
    mismatch = case.get("inst_n") is not None or bool(case.get("env_shape"))
    inst_cfg = dict(cfg, n=case["inst_n"]) if case.get("inst_n") is not None else cfg
    env = spec.env(dict(cfg, **case["env_shape"]) if case.get("env_shape") else cfg)
    if case.get("env_shape"):
        ctx.event(f"env_built_for_another_size|{name}")
    inst = ctx.guard(spec.instance, {**case, "cfg": inst_cfg}, what=f"instance|{name}")
    B = inst.batch_size[0]
    td = ctx.guard(env.reset, inst.clone(), what=f"reset|{name}")
    mask = td["action_mask"].reshape(B, -1).bool()
    A = mask.shape[1]
    tok = env_token(name, cfg, mismatch)
    pre = f"start_nodes|{tok}"
    first = 1 if spec.has_depot_action else 0
    feas = mask[:, first:].sum(-1)  # feasible starts per instance

    if case.get("k") is None:
        k = _call(ctx, f"{pre}|get_num_starts_crash", env.get_num_starts, td)
        kmode = "k=default"
        ctx.check(isinstance(k, int) and k >= 1, f"{pre}|num_starts_type", f"get_num_starts returned {k!r}")
    else:
        k = int(case["k"])
        kmode = "k=1" if k == 1 else "k=explicit"
    torch.manual_seed(case["seed"] % (2 ** 31))  # fjsp/jssp/op draw from the global RNG
    sel = _call(ctx, f"{pre}|crash|{kmode}", env.select_start_nodes, td.clone(), k)
    rule = START_RULE.get(name, "ops_depot")
    reg_all = "k<=feas" if int(feas.min()) >= k else ("k>feas" if int(feas.max()) < k else "k_mixed")
    ctx.event(f"{tok}|{rule}|{kmode}|{reg_all}")
    ok = isinstance(sel, torch.Tensor) and sel.dim() == 1 and sel.shape[0] == k * B and not sel.dtype.is_floating_point
    if not ctx.check(ok, f"{pre}|shape|{kmode}",
                     f"select_start_nodes(td[B={B}], {k}) returned {tuple(sel.shape) if hasattr(sel, 'shape') else sel}"):
        return
    S = sel.view(k, B)  # row r = j*B + b  <->  start j of instance b
    blocked = bool((~mask[:, first:]).any())
    if B >= 2 and k >= 2 and (blocked or bool((feas != k).any())):
        ctx.nontriv()
    if blocked:
        ctx.event(f"{tok}|some_first_moves_infeasible")
    detail = {"k": k, "mask": mask.int(), "starts_per_instance": S.t()}
    in_range = True
    for b in range(B):
        s = S[:, b].tolist()
        reg = kmode if kmode == "k=default" else ("k<=feas" if int(feas[b]) >= k else "k>feas")
        oor = [v for v in s if v < 0 or v >= A]
        if oor:
            in_range = False
            ctx.violation(f"{pre}|out_of_range|{reg}",
                          f"instance {b}: forced start {oor[0]} outside the {A} actions of the instance "
                          f"(env.step on it: {_step_outcome(env, td, sel, k)})", detail)
            continue
        bad = [v for v in s if not bool(mask[b, v])]
        if bad:
            ctx.violation(f"{pre}|infeasible|{reg}",
                          f"instance {b}: forced start {bad[0]} is masked out at reset (mask {mask[b].int().tolist()})",
                          detail)
        if int(feas[b]) >= k and len(set(s)) < k:
            # batch regime: whether some OTHER row of the batch has fewer than k feasible starts (the random start rule
            # of FJSP/JSSP takes its with/without-replacement decision for the whole batch: known finding F37) or not
            breg = "batch_min<k" if int(feas.min()) < k else "batch_min>=k"
            ctx.violation(f"{pre}|duplicate|{reg}|{breg}",
                          f"instance {b}: starts {s} repeat although {int(feas[b])} >= k={k} feasible starts exist "
                          f"(fewest feasible starts in the batch: {int(feas.min())})", detail)
    # the forced first step itself (pre_decoder_hook: batchify, set action, env.step)
    if name != "ffsp" and in_range:
        td2 = harness_expand(td, k)
        td2.set("action", sel.clone())
        nxt = _call(ctx, f"{pre}|step_crash|{kmode}", lambda: env.step(td2)["next"])
        ctx.check(nxt.batch_size[0] == k * B, f"{pre}|step_shape", "forced first step changed the batch size")
    ctx.sample({"env": name, "cfg": cfg, "k": k, "B": B, "starts": S.t().tolist()[:3], "feasible": feas.tolist()})


# =========================================================================== Part C
class SpyEnv:
    """Delegating wrapper recording every get_reward(td, actions) -> rewards call (DESIGN §2.5)."""

    def __init__(self, env):
        object.__setattr__(self, "_env", env)
        object.__setattr__(self, "calls", [])

    def __getattr__(self, item):
        return getattr(object.__getattribute__(self, "_env"), item)

    def get_reward(self, td, actions):
        r = self._env.get_reward(td, actions)
        self.calls.append((actions.detach().clone(), r.detach().clone()))
        return r


C_ENVS = ["tsp", "cvrp", "sdvrp", "pctsp", "pdp", "mtvrp", "mtsp"]
EXCLUDED_C = ["op", "svrp", "smtwtp"]
MODES = ["multistart_greedy", "multistart_sampling", "sampling"]
# other bundled policies under the get_reward spy (1/4 of the cases): their decoder caches / embeddings are regrouped per
# (instance, start) by their own code paths (POMO config without graph context, SymNCO, HAM's heterogeneous encoder,
# MatNet's tuple embeddings, the MoE decoder, PolyNet's per-start strategy vectors)
C_ZOO = [("am_pomo", "tsp"), ("am_pomo", "cvrp"), ("am_pomo", "sdvrp"), ("symnco", "tsp"), ("symnco", "cvrp"),
         ("ham", "pdp"), ("matnet", "atsp"), ("mvmoe", "mtvrp"), ("polynet", "tsp"), ("polynet", "cvrp")]
# request forms of a replicated decode (see vf.props.c11.request_kwargs / resolve_request: the documented resolution
# rules of DecodingStrategy): explicit count forms need k, default-count forms run with k = None
MS_FORMS_K = ["name+k"] * 3 + ["plain+k", "flag+k"]
MS_FORMS_DEFAULT = ["name", "name+none", "flag"]
MS_FORMS_PLAIN = ["name+0", "name+1", "flag+1"]
SA_FORMS_K = ["samples=k"] * 3 + ["flag+k", "greedy+samples=k"]
SA_FORMS_PLAIN = ["samples=1", "flag+1"]


@st.composite
def rollout_cases(draw, tier="quick"):
    from ..policies import setup_dims, small_cfg
    big = tier != "quick"
    zoo = None
    if draw(st.integers(0, 3)) == 0:
        zoo = list(draw(st.sampled_from(C_ZOO)))
        name = zoo[1]
    else:
        name = draw(st.sampled_from(C_ENVS + EXCLUDED_C[:1]))
    n = draw(st.integers(4, 12 if big else 8))
    B = draw(st.sampled_from([2, 2, 3, 3, 4, 1] + ([5, 6] if big else [])))
    mode = draw(st.sampled_from(MODES))
    k = draw(st.one_of(st.integers(2, n + 2), st.integers(2, 5), st.none() if mode != "sampling" else st.integers(2, 4)))
    case = {"env": name, "n": n, "B": B, "mode": mode, "k": k, "seed": draw(st.integers(0, 2 ** 31 - 1)),
            "pseed": draw(st.integers(0, 3)), "spread": draw(st.sampled_from([1.5, 2.0])),
            "tseed": draw(st.integers(0, 2 ** 20)), "sum_ll": draw(st.booleans())}
    if zoo is not None:
        case["zoo"] = zoo
    key = zoo[0] if zoo else "am"
    # ---- how the replicated decode is requested (flag resolution, degenerate counts), decode type through the phase
    # attribute, a caller-supplied start rule
    if draw(st.booleans()):
        if mode == "sampling":
            forms = SA_FORMS_K + (SA_FORMS_PLAIN if key != "polynet" else [])
        elif k is None:
            forms = MS_FORMS_DEFAULT
        else:
            forms = MS_FORMS_K + MS_FORMS_PLAIN
        case["form"] = draw(st.sampled_from(forms))
    if draw(st.integers(0, 3)) == 0:
        case["dt_via"] = "phase"
        case["phase"] = draw(st.sampled_from(["train", "val", "test"]))
    if mode != "sampling" and draw(st.integers(0, 3)) == 0:
        case["ssn"] = draw(st.integers(0, 7))
    # ---- env configuration / instance source / env built for another size / constructor switches
    if name not in EXCLUDED_C:
        case.update(draw(setup_dims(key, name, n, small_cfg(name, n), B, tier, by_name=False)))
    return case


def rollout_minimizer(case):
    for key in ("lat", "ecfg", "env_shape", "opts", "ssn", "dt_via", "form", "zoo"):
        if key in case and not (key == "zoo" and case["env"] == "atsp") and not (key == "ecfg" and "lat" in case):
            d = {kk: vv for kk, vv in case.items() if kk != key}
            if key == "lat":
                d.pop("src", None)
            if key == "dt_via":
                d.pop("phase", None)
            yield d
    for key, lo in (("B", 2), ("n", 4)):
        if case[key] > lo:
            yield {**case, key: case[key] - 1}
    if case["k"] is not None and case["k"] > 2:
        yield {**case, "k": case["k"] - 1}
    if case["k"] is None and case.get("form") is None:
        yield {**case, "k": 2}
    if case["mode"] != "multistart_greedy" and case.get("form") is None:
        yield {**case, "mode": "multistart_greedy"}
    if not case["sum_ll"]:
        yield {**case, "sum_ll": True}


def _close(a, b, terms):
    return abs(a - b) <= 1e-5 * (1.0 + abs(terms))


def _request(case):
    """Decoding kwargs of the drawn request form (vf.props.c11.request_kwargs; C12's `sampling` mode = multisample)."""
    from .c11 import request_kwargs
    mode = "multisample" if case["mode"] == "sampling" else case["mode"]
    form = case.get("form")
    if form is None:
        form = ("samples=k" if mode == "multisample" else ("name+none" if case["k"] is None else "name+k"))
    return request_kwargs(mode, case["k"], form)


def _run_policy(ctx, policy, td, env, case, k, what, **extra):
    kw = dict(phase="test", return_actions=True, return_sum_log_likelihood=bool(case["sum_ll"]))
    kw.update(_request(case))
    saved = None
    if case.get("dt_via") == "phase":
        # decode type from the `<phase>_decode_type` attribute of the requested phase (the others carry another type)
        dt = kw.pop("decode_type")
        other = "greedy" if "sampling" in dt else "sampling"
        saved = {p_: getattr(policy, f"{p_}_decode_type") for p_ in ("train", "val", "test")}
        for p_ in saved:
            setattr(policy, f"{p_}_decode_type", dt if p_ == case["phase"] else other)
        kw["phase"] = case["phase"]
    kw.update(extra)
    torch.manual_seed(int(case["tseed"]))
    try:
        with torch.no_grad():
            return ctx.guard(policy, td.clone(), env, what=what, **kw)
    finally:
        if saved is not None:
            for p_, v in saved.items():
                setattr(policy, f"{p_}_decode_type", v)


def _judge_rows(ctx, name, cfg, insts, B, actions, rewards, sig, what):
    spec = SPECS[name]
    pc = {"env": name, "cfg": cfg, "src": "gen"}
    R = actions.shape[0]
    ctx.check(rewards.reshape(-1).shape[0] == R, f"{sig}|reward_shape",
              f"{what}: {tuple(rewards.shape)} rewards for {R} action rows")
    rew = rewards.reshape(-1).double()
    for r in range(R):
        v = judge_row(pc, spec, insts[r % B], actions[r].tolist())
        if not _close(float(rew[r]), v.obj, v.terms):
            others = [b for b in range(B) if b != r % B and
                      _close(float(rew[r]), judge_row(pc, spec, insts[b], actions[r].tolist()).obj, v.terms)]
            ctx.violation(f"{sig}|row_not_own_instance",
                          f"{what}: row {r} has reward {float(rew[r]):.6f} but its actions are worth {v.obj:.6f} on "
                          f"instance r mod B = {r % B}" + (f" (they match instance {others[0]})" if others else ""),
                          {"row": r, "actions": actions[r], "B": B})


def exec_rollouts(case, ctx):
    from ..policies import StartFn, build_policy, make_batch, resolve_setup, setup_events, small_cfg
    from .c11 import resolve_request

    name, B, mode = case["env"], case["B"], case["mode"]
    key = case["zoo"][0] if case.get("zoo") else "am"
    if "mvmoe" in key:
        from ..policies import moe_watch
        moe_watch(ctx)  # expert choices within float32 rounding are don't-care (vf.policies, MoE gates)
    if name in EXCLUDED_C:
        ctx.exclude(f"{name}: start rule is a known finding (F17-F19), excluded from end-to-end runs")
        return
    cfg, mkw = resolve_setup(case, small_cfg(name, case["n"]))
    env, inst, td0 = make_batch(name, cfg, B, case["seed"], **mkw)
    insts = [py_instance(name, inst[b]) for b in range(B)]
    policy = build_policy(key, name, seed=case["pseed"], spread=case["spread"], embed_dim=32, opts=case.get("opts"))
    mask0 = td0["action_mask"].reshape(B, -1).bool()
    # what the request resolves to under the documented rules of DecodingStrategy (k_eff rollouts per instance; 0 = a
    # plain decode of the B instances: no expansion, no forced first move, nothing to select)
    req = _request(case)
    multistart, multisample, k_eff = resolve_request(req, env.get_num_starts(td0))
    k = case["k"]
    if name == "pdp" and cfg.get("force_start") and multistart:
        ctx.exclude("pdp force_start: the reset mask admits the depot only (F36, sub-check start_nodes)")
        return
    if name == "mtsp" and multistart and k_eff > mask0.shape[1] - 1:
        # the wrap-around of the default rule is off by one for mTSP (start_nodes|mtsp|out_of_range|k>feas, sub-check B)
        ctx.exclude("mtsp with more starts than cities: start wrap-around finding of sub-check start_nodes")
        return
    if k_eff * B > 96:
        ctx.exclude("default count too large for the toy budget")
        return
    sl = f"{name}|{mode}|{'k=default' if k is None else 'k'}"
    tagn = name if key == "am" else f"{key}/{name}"
    ctx.event(sl)
    ctx.event(f"policy:{key}")
    setup_events(ctx, case, name, cfg)
    if case.get("form"):
        ctx.event(f"request:{case['form']}")
    if case.get("dt_via") == "phase":
        ctx.event(f"decode_type_via_phase:{case['phase']}")
    plain = k_eff == 0
    if plain:
        ctx.event("request_resolves_to_plain_decode")
    if B >= 2 and k_eff >= 2 and k_eff != B:
        ctx.nontriv()
    first = 1 if SPECS[name].has_depot_action else 0
    extra = {}
    ssn = None
    if case.get("ssn") is not None and multistart:
        if not bool(mask0[:, first:].any(-1).all()):
            ctx.exclude("no feasible first move but the depot")
            return
        ssn = StartFn(case["ssn"], first)
        extra["select_start_nodes_fn"] = ssn
        ctx.event("select_start_nodes_fn")

    # ---- run 1: all candidates -----------------------------------------------------------
    spy = SpyEnv(env)
    out = _run_policy(ctx, policy, td0, spy, case, k, f"policy|{sl}", select_best=False, **extra)
    acts, rew, ll = out["actions"], out["reward"], out["log_likelihood"]
    R = B if plain else k_eff * B
    if not ctx.check(acts.shape[0] == R and rew.reshape(-1).shape[0] == R and ll.shape[0] == R,
                     f"rollout|{tagn}|{mode}|output_rows",
                     f"expected {R} rows (request {req} resolves to "
                     f"{'a plain decode' if plain else f'{k_eff} rollouts per instance'}, B={B}), got actions "
                     f"{tuple(acts.shape)} reward {tuple(rew.shape)} ll {tuple(ll.shape)}"):
        return
    ctx.check(len(spy.calls) == 1 and torch.equal(spy.calls[0][1].reshape(-1), rew.reshape(-1)),
              f"rollout|{tagn}|{mode}|spy", "returned rewards are not the ones get_reward produced")
    _judge_rows(ctx, name, cfg, insts, B, acts, rew, f"rollout|{tagn}|{mode}", "all candidates")
    if ssn is not None:
        ctx.check(len(ssn.calls) == 1 and ssn.calls[0][0] == B and ssn.calls[0][1] is spy and ssn.calls[0][2] == k_eff,
                  f"rollout|{tagn}|{mode}|start_fn_call",
                  f"select_start_nodes_fn calls (batch, env, num_starts): {[(c[0], type(c[1]).__name__, c[2]) for c in ssn.calls]}, "
                  f"expected one call (B={B}, the env, {k_eff})")
        if ssn.out is not None:
            ctx.check(torch.equal(acts[:, 0].long(), ssn.out), f"rollout|{tagn}|{mode}|start_fn_not_used",
                      f"first actions {acts[:, 0].tolist()} are not the starts the caller's select_start_nodes_fn handed out "
                      f"({ssn.out.tolist()}; row j*B+b = start j of instance b)")
    if multistart and not plain:
        feas = mask0[:, first:].sum(-1)
        S = acts[:, 0].view(k_eff, B)
        for b in range(B):
            s = S[:, b].tolist()
            bad = [v for v in s if not (0 <= v < mask0.shape[1] and bool(mask0[b, v]))]
            ctx.check(not bad, f"rollout|{tagn}|{mode}|start_infeasible",
                      f"instance {b}: first action {bad[:1]} of its rollouts is not in its reset mask", {"starts": S.t()})
            if int(feas[b]) >= k_eff:
                ctx.check(len(set(s)) == k_eff, f"rollout|{tagn}|{mode}|start_duplicate",
                          f"instance {b}: first actions {s} repeat although {int(feas[b])} feasible starts exist")
    if plain:
        # nothing is replicated: with select_best the same B rows come back (there is nothing to select from)
        spy2 = SpyEnv(env)
        outb = _run_policy(ctx, policy, td0, spy2, case, k, f"policy_select_best|{sl}", select_best=True, **extra)
        ctx.check(outb["actions"].shape[0] == B and torch.equal(outb["actions"], acts)
                  and torch.equal(outb["reward"].reshape(-1), rew.reshape(-1)), f"select_best|{tagn}|{mode}|plain_decode_changed",
                  "select_best changed the output of a request that resolves to a plain decode under the same torch seed")
        ctx.sample({"env": name, "n": case["n"], "B": B, "mode": mode, "request": req, "resolved": "plain"})
        return

    # ---- run 2: select_best under the same seed -------------------------------------------
    spy2 = SpyEnv(env)
    if ssn is not None:
        extra["select_start_nodes_fn"] = ssn = StartFn(case["ssn"], first)
    outb = _run_policy(ctx, policy, td0, spy2, case, k, f"policy_select_best|{sl}", select_best=True, **extra)
    ab, rb, lb = outb["actions"], outb["reward"].reshape(-1), outb["log_likelihood"]
    sb = f"select_best|{tagn}|{mode}"
    if not ctx.check(ab.shape[0] == B and rb.shape[0] == B and lb.shape[0] == B, f"{sb}|output_rows",
                     f"select_best must return one row per instance: actions {tuple(ab.shape)} reward {tuple(rb.shape)}"):
        return
    if not ctx.check(len(spy2.calls) >= 1 and spy2.calls[0][0].shape[0] == R, f"{sb}|no_candidate_evaluation",
                     f"select_best evaluated {[tuple(c[0].shape) for c in spy2.calls]} instead of all {R} candidates"):
        return
    cand_a, cand_r = spy2.calls[0]
    same_cands = cand_a.shape == acts.shape and torch.equal(cand_a, acts) and torch.equal(cand_r.reshape(-1), rew.reshape(-1))
    ctx.check(same_cands, f"{sb}|candidates_changed",
              "with the same torch seed the candidates compared by select_best differ from the select_best=False run")
    _judge_rows(ctx, name, cfg, insts, B, ab, rb, sb, "selected rollouts")
    cr = cand_r.reshape(-1).view(k_eff, B)
    for b in range(B):
        best = cr[:, b].max()
        if not ctx.check(_close(float(rb[b]), float(best), float(best)), f"{sb}|not_max",
                         f"instance {b}: returned reward {float(rb[b]):.6f} but its {k_eff} candidates have rewards "
                         f"{[round(float(v), 6) for v in cr[:, b]]}", {"instance": b}):
            continue
        tied = [j for j in range(k_eff) if float(cr[j, b]) == float(best)]
        if len(tied) > 1:
            ctx.event("reward_tie_between_candidates")
        hit = False
        for j in tied:
            r = j * B + b
            if ab.shape[1] == acts.shape[1] and torch.equal(ab[b], acts[r]):
                if torch.allclose(lb[b], ll[r], rtol=0, atol=1e-6):
                    hit = True
        ctx.check(hit, f"{sb}|not_that_rollout",
                  f"instance {b}: returned actions / log-likelihood are not those of a best candidate "
                  f"(candidates {[j * B + b for j in tied]})",
                  {"returned_actions": ab[b], "returned_ll": lb[b], "candidate_actions": [acts[j * B + b] for j in tied],
                   "candidate_ll": [ll[j * B + b] for j in tied]})

    # ---- evaluate mode on a harness-expanded batch: same per-step log-probs -------------------
    # (PolyNet conditions every rollout on its start / sample index by design: no per-instance evaluation to compare with)
    if not case["sum_ll"] and key != "polynet":
        inst_rep = torch.cat([inst.clone() for _ in range(k_eff)], 0)
        td_rep = env.reset(inst_rep.clone())
        with torch.no_grad():
            ev = ctx.guard(policy, td_rep, env, phase="test", actions=acts.clone(), return_sum_log_likelihood=False,
                           what=f"policy_evaluate|{tagn}")
        le = ev["log_likelihood"]
        lo = 1 if multistart else 0
        # different batch layouts ([B,S,..] vs [S*B,..]): float32 rounding, amplified by deep / unclipped / saturated
        # configurations (C11 measured up to 5e-4 on the 6-layer POMO config): 1e-4 in the attention-model default
        # domain, 1e-3 for the other policies, drawn env options and constructor switches (layout defects are O(1))
        etol = 1e-4 if (key == "am" and not case.get("ecfg") and not case.get("opts")) else 1e-3
        if multistart:
            ctx.check(bool((ll[:, 0] == 0).all()), f"rollout|{tagn}|{mode}|forced_step_logprob",
                      "forced start actions must carry log-prob 0")
        if ctx.check(le.shape == ll.shape, f"rollout|{tagn}|{mode}|evaluate_shape",
                     f"evaluate-mode log-probs {tuple(le.shape)} vs rollout {tuple(ll.shape)}"):
            d = (le[:, lo:] - ll[:, lo:]).abs()
            ctx.check(bool((d <= etol * (1 + ll[:, lo:].abs())).all()), f"rollout|{tagn}|{mode}|logprob_not_own_instance",
                      f"per-step log-probs of the replicated rollout differ from evaluating the same actions on "
                      f"instance r mod B alone (max diff {float(d.max()):.3e}, row {int(d.max(1).values.argmax())})",
                      {"B": B, "k": k_eff})
            ctx.check(bool(((ev["reward"].reshape(-1) - rew.reshape(-1)).abs() <= 1e-5 * (1 + rew.reshape(-1).abs())).all()),
                      f"rollout|{tagn}|{mode}|evaluate_reward", "evaluate-mode reward differs from the rollout reward")
        ctx.event("evaluate_compared")
    ctx.sample({"env": name, "n": case["n"], "B": B, "mode": mode, "k": k_eff, "best_reward": rb.tolist(),
                "actions_row0": acts[0].tolist()})


# =========================================================================== Part D
D_ENVS = ["tsp", "cvrp"]


@st.composite
def pomo_cases(draw, tier="quick"):
    name = draw(st.sampled_from(D_ENVS))
    a = draw(st.integers(2, 4))
    s = draw(st.integers(2, 5))
    return {"env": name, "n": draw(st.integers(5, 8)), "B": draw(st.sampled_from([2, 3, 3, 4])), "a": a, "s": s,
            "phase": draw(st.sampled_from(["val", "test"])), "seed": draw(st.integers(0, 2 ** 31 - 1)),
            "pseed": draw(st.integers(0, 3)), "tseed": draw(st.integers(0, 2 ** 20))}


def exec_pomo(case, ctx):
    from rl4co.models.zoo.pomo import POMO

    from ..policies import build_policy, make_batch, small_cfg

    name, B, a, s = case["env"], case["B"], case["a"], case["s"]
    cfg = small_cfg(name, case["n"])
    env, inst, _ = make_batch(name, cfg, B, case["seed"])
    policy = build_policy("am", name, seed=case["pseed"], spread=1.5, embed_dim=32)
    spy = SpyEnv(env)
    torch.manual_seed(int(case["tseed"]))
    model = ctx.guard(POMO, env, policy, num_augment=a, augment_fn="symmetric", num_starts=s,
                      metrics={"val": ["reward", "max_reward", "max_aug_reward"],
                               "test": ["reward", "max_reward", "max_aug_reward"]}, what="POMO")
    model._modules.pop("env", None)  # the env is registered as a child module; the spy is a plain object
    model.__dict__["env"] = spy
    model.eval()
    ctx.event(f"{name}|{case['phase']}|{'a=s' if a == s else 'a!=s'}")
    if B >= 2 and a != s:
        ctx.nontriv()
    torch.manual_seed(int(case["tseed"]) + 1)
    with torch.no_grad():
        res = ctx.guard(model.shared_step, inst.clone(), 0, case["phase"], what=f"POMO.shared_step|{name}")
    if not ctx.check(len(spy.calls) == 1 and spy.calls[0][1].reshape(-1).shape[0] == a * s * B, "pomo|candidates",
                     f"expected one get_reward call over {a}*{s}*{B} rollouts, saw {[tuple(c[1].shape) for c in spy.calls]}"):
        return
    r = spy.calls[0][1].reshape(-1).double()
    # augment, then multi-start: row (j*a + i)*B + b  is  start j of augmentation i of instance b
    G = torch.zeros(B, a, s, dtype=torch.float64)
    for b in range(B):
        for i in range(a):
            for j in range(s):
                G[b, i, j] = r[(j * a + i) * B + b]
    want = {"reward": G.mean(), "max_reward": G.max(-1).values.mean(), "max_aug_reward": G.max(-1).values.max(-1).values.mean()}
    ph = case["phase"]
    for key, w in want.items():
        got = res.get(f"{ph}/{key}")
        if not ctx.check(got is not None, f"pomo|metric_missing|{key}", f"{ph}/{key} not in {sorted(res)}"):
            continue
        ctx.check(abs(float(got) - float(w)) <= 1e-5 * (1 + abs(float(w))), f"pomo|{key}",
                  f"{ph}/{key} = {float(got):.6f} but the spied rewards regrouped per instance/augmentation give "
                  f"{float(w):.6f} (B={B}, num_augment={a}, num_starts={s})")
    ctx.sample({"env": name, "B": B, "a": a, "s": s, "metrics": {k_: float(v) for k_, v in res.items() if v is not None}})


def pomo_minimizer(case):
    for key, lo in (("B", 2), ("n", 5), ("a", 2), ("s", 2)):
        if case[key] > lo:
            c = {**case, key: case[key] - 1}
            if c["a"] != c["s"]:
                yield c


def preimport():
    import rl4co.models  # noqa
    import rl4co.models.zoo.pomo  # noqa


SUBS = [
    Sub("ops_exhaustive", exec_ops, enumerate=enum_ops, shards=16, weight=1.0),
    Sub("ops_random", exec_ops, strategy=lambda tier: ops_cases(tier),
        budget={"quick": 7200, "thorough": 24000}, shards=8),
    # get_best_actions is an unused, undocumented helper whose output layout nothing relies on: it is outside the
    # asserted domain (recorded as an observation in DESIGN.md), the sub-check exec_best is kept for reference only.
    Sub("start_nodes", exec_starts, strategy=lambda tier: start_cases(tier),
        budget={"quick": 14400, "thorough": 48000}, shards=16, weight=2.0),
    Sub("rollouts", exec_rollouts, strategy=lambda tier: rollout_cases(tier),
        budget={"quick": 1920, "thorough": 6400}, shards=16, shrink=False, minimize=rollout_minimizer, weight=3.0),
    Sub("pomo", exec_pomo, strategy=lambda tier: pomo_cases(tier),
        budget={"quick": 384, "thorough": 1280}, shards=8, shrink=False, minimize=pomo_minimizer, weight=2.5),
]


def evidence_extra(tier):
    return {"exhaustive_slice": {"sub": "ops_exhaustive", "cases": len(enum_ops(tier)),
                                 "domain": "B 1-6 x factor tuples len 1-3 entries 1-5 with B*prod <= 240"}}
