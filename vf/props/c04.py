"""C04 — an instance's outcome is independent of its batch-mates and of padding steps."""
import torch

from ..envs import ALL_ENVS, SPECS, episode_cases, py_instance
from ..episode import flat_mask, row_done, run_episode
from ..play import play
from ..runner import Sub

PROPERTY = "C04"
RULE = (
    "case = env + config + batch of B unrelated instances (or copies of one) each with its own (mode, choice stream); "
    "the batch is driven to completion (finished rows keep being stepped with feasible padding actions), then every "
    "row is re-run alone (batch of 1) with the same stream. Oracle (differential): per step identical mask, same "
    "finishing step, same per-row state tensors up to the finishing step, same reward. Non-trivial row = it "
    "finished >=1 step before the batch did (padding happened) or B>=3 with distinct mates; distinct (case,row) hash."
)
ASSUMPTIONS = [
    "one quota per batch for FLP/MCP (their steps finish all rows on a shared counter)",
    "one FFSP env object serves one episode at a time (per-object index tables), as every caller uses it",
    "float state/reward equality up to 1e-6 relative (same float32 ops on the same data), exact for integer/bool state",
]
SKIP_KEYS = {"action", "done", "terminated", "reward"}


def same(a, b):
    if a.shape != b.shape:
        return False
    if a.dtype.is_floating_point:
        fa, fb = a.double(), b.double()
        both_inf = torch.isinf(fa) & torch.isinf(fb) & (fa.sign() == fb.sign())
        d = (fa - fb).abs()
        ok = (d <= 1e-6 * (1 + fa.abs())) | both_inf | (torch.isnan(fa) & torch.isnan(fb))
        return bool(ok.all())
    return bool((a == b).all())


def execute(case, ctx):
    name = case["env"]
    spec = SPECS[name]
    if case.get("copies"):
        case = dict(case)
    solo_first = bool(case["seed"] % 2)
    pre_solo = {}
    if solo_first:
        # run the solo episodes BEFORE the batched one on the same (cached, sequentially reused) env object, so that
        # state an env object keeps across resets (index tables, cached sizes) is exercised in both orders
        inst0 = ctx.guard(spec.instance, case, what=f"instance|{name}")
        env0 = spec.env(case["cfg"])
        from ..envs import py_instance as _pyi
        cap0 = max(spec.bound(case["cfg"], _pyi(name, inst0[b])) for b in range(inst0.batch_size[0])) + 6
        for x in range(inst0.batch_size[0]):
            r = case["rows"][x % len(case["rows"])]
            pre_solo[x] = ctx.guard(run_episode, env0, inst0[x:x + 1], [r["mode"]], [r["stream"]], cap0, True,
                                    what=f"solo_episode|{name}")
        ctx.event("order:solo_first")
    spec, env, inst, insts, ep = play(case, ctx, keep_states=True)
    sl = spec.slice_of(case["cfg"])
    ctx.event(f"env:{name}")
    if name == "mtvrp":
        ctx.event(f"env:mtvrp|{'mixed_variants' if sl in ('all', 'single_feat') else 'one_variant'}")
    if ep.dead_end is not None or ep.cap_hit or ep.T == 0:
        ctx.event("aborted_episode(C02 territory)")
        return
    B = len(insts)
    A = ep.actions_tensor()
    rew = ctx.guard(env.get_reward, ep.td.clone(), A.clone(), what=f"get_reward|{name}|{sl}")
    rew = rew.reshape(-1) if rew.numel() == B else rew
    rows = case["rows"]
    cap = ep.T + 3
    for x in range(B):
        fin = ep.finish_step(x)
        env1 = spec.env(case["cfg"])
        if x in pre_solo:
            solo = pre_solo[x]
        else:
            solo = ctx.guard(run_episode, env1, inst[x:x + 1], [rows[x % len(rows)]["mode"]],
                             [rows[x % len(rows)]["stream"]], cap, True, what=f"solo_episode|{name}|{sl}")
        det = {"row": x, "B": B, "batched_actions": A[x].tolist(), "solo_actions": solo.actions_tensor()[0].tolist()
               if solo.T else [], "finish_batched": fin, "instance": insts[x]}
        padded = fin is not None and fin < ep.T
        tag = "padded" if padded else "unpadded"
        if solo.dead_end is not None or solo.cap_hit:
            ctx.violation(f"{name}|{sl}|solo_aborted", "episode completes in a batch but not alone", det)
            continue
        fs = solo.finish_step(0)
        if fs != fin:
            ctx.violation(f"{name}|{sl}|finish_step|{tag}", f"finishing step differs: batched {fin} vs solo {fs}", det)
            continue
        for t in range(fin):
            if not torch.equal(ep.masks[t][x], solo.masks[t][0]):
                ctx.violation(f"{name}|{sl}|mask|{tag}", f"mask at step {t} differs between batched and solo run",
                              {**det, "step": t, "batched": ep.masks[t][x].tolist(), "solo": solo.masks[t][0].tolist()})
                break
            if int(A[x, t]) != int(solo.actions[t][0]):
                ctx.violation(f"{name}|{sl}|action_choice|{tag}", "same stream picked different actions (mask differs)", det)
                break
            if t == fin - 1:
                break  # the state *after* the finishing step is not consumed by anyone (solo runs stop updating it)
            sb, ss = ep.states[t], solo.states[t]
            for k in ss.keys():
                if k in SKIP_KEYS or k not in sb.keys():
                    continue
                vb, vs = sb[k], ss[k]
                if not isinstance(vs, torch.Tensor) or vb.shape[:1] != (B,) or vs.shape[:1] != (1,):
                    continue
                if name == "mcp" and k == "membership" and vb.shape[-1] != vs.shape[-1]:
                    continue
                if not same(vb[x], vs[0]):
                    ctx.violation(f"{name}|{sl}|state:{k}|{tag}", f"state '{k}' after step {t} differs batched vs solo",
                                  {**det, "step": t, "batched": vb[x].tolist(), "solo": vs[0].tolist()})
                    break
        r1 = ctx.guard(env1.get_reward, solo.td.clone(), solo.actions_tensor().clone(), what=f"get_reward|{name}|{sl}")
        rb, rs = rew.reshape(B, -1)[x].double(), r1.reshape(1, -1)[0].double()
        if rb.shape != rs.shape or not bool(((rb - rs).abs() <= 1e-6 * (1 + rs.abs())).all()):
            ctx.violation(f"{name}|{sl}|reward|{tag}", f"reward differs: batched {rb.tolist()} vs solo {rs.tolist()}", det)
        if padded or B >= 3:
            ctx.nontriv({"c": case, "row": x})
        if padded:
            ctx.event("row_padded")
            if ep.T - fin >= 2:
                ctx.event("row_padded>=2")
    ctx.sample({"env": name, "cfg": case["cfg"], "B": B, "T": ep.T,
                "finish_steps": [ep.finish_step(b) for b in range(B)]})


def execute_copies(case, ctx):
    """k copies of one instance with the same stream must stay bit-identical."""
    spec, env, inst, insts, ep = play(case, ctx, keep_states=True)
    name = case["env"]
    sl = spec.slice_of(case["cfg"])
    if ep.dead_end is not None or ep.cap_hit or ep.T == 0:
        return
    A = ep.actions_tensor()
    ctx.check(bool((A == A[0:1]).all()), f"{name}|{sl}|copies_actions", "copies of one instance took different actions",
              {"actions": A.tolist()})
    rew = ctx.guard(env.get_reward, ep.td.clone(), A.clone(), what=f"get_reward|{name}|{sl}")
    rew = rew.reshape(len(insts), -1)
    ctx.check(bool((rew == rew[0:1]).all() or torch.isnan(rew).all()), f"{name}|{sl}|copies_reward",
              f"copies of one instance got different rewards {rew.tolist()}")
    for t, m in enumerate(ep.masks):
        if not bool((m == m[0:1]).all()):
            ctx.violation(f"{name}|{sl}|copies_mask", f"copies of one instance see different masks at step {t}")
    ctx.event(f"env:{name}")
    if len(insts) >= 2:
        ctx.nontriv()


def copies_cases(tier):
    import hypothesis.strategies as st

    @st.composite
    def c(draw):
        case = draw(episode_cases(tier, ALL_ENVS, max_b=1))
        k = draw(st.integers(2, 5))
        case["B"] = k
        if case["src"] != "gen":
            case["lat"] = {kk: (v * k if isinstance(v, list) else v) for kk, v in case["lat"].items()}
        else:
            case["copies_of_seed"] = True
        case["rows"] = case["rows"] * k
        return case
    return c()


def execute_copies_wrap(case, ctx):
    if case.get("copies_of_seed"):
        # generator instances: draw one instance and replicate it
        spec = SPECS[case["env"]]
        one = spec.gen(case["cfg"], 1, case["seed"])
        k = case["B"]
        rep = torch.cat([one] * k, 0) if hasattr(torch, "cat") else one
        orig = spec.instance
        try:
            spec.instance = lambda c: rep.clone()
            return execute_copies(case, ctx)
        finally:
            spec.instance = orig
    return execute_copies(case, ctx)


def preimport():
    from ..eda import data_dir
    data_dir()


SUBS = [
    Sub("solo_vs_batched", execute, strategy=lambda tier: episode_cases(tier, ALL_ENVS),
        budget={"quick": 3500, "thorough": 40000}, shards=16),
    Sub("copies", execute_copies_wrap, strategy=copies_cases, budget={"quick": 800, "thorough": 10000}, shards=16),
]
TIME_CAP = {"quick": 400, "thorough": 3000}
