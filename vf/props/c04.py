"""C04 — an instance's outcome is independent of its batch-mates and of padding steps."""
import torch

from ..envs import ALL_ENVS, SPECS, episode_cases, py_instance
from ..episode import flat_mask, row_done, run_episode
from ..play import play
from ..runner import Sub

PROPERTY = "C04"
RULE = (
    "case = env + config + batch of B unrelated instances (or copies of one) each with its own (mode, choice stream); "
    "the batch is driven to completion (finished rows keep being stepped with feasible padding actions), then every "
    "row is re-run alone (batch of 1) with the same stream. Oracle (differential): per step identical mask, same "
    "finishing step, same per-row state tensors up to the finishing step, same reward. Non-trivial row = it "
    "finished >=1 step before the batch did (padding happened) or B>=3 with distinct mates; distinct (case,row) hash."
)
ASSUMPTIONS = [
    "one quota per batch for FLP/MCP (their steps finish all rows on a shared counter)",
    "one FFSP env object serves one episode at a time (per-object index tables), as every caller uses it; every other "
    "environment is stateless as documented (docs/content/intro/environments.md: instance data and state are passed "
    "in a stateless fashion in the tensordict), so sub `interleaved` drives two unrelated batches through one env "
    "object with interleaved steps and compares each with its run on a private env object",
    "float state/reward equality up to 1e-6 relative (same float32 ops on the same data), exact for integer/bool state",
]
SKIP_KEYS = {"action", "done", "terminated", "reward"}


def same(a, b):
    if a.shape != b.shape:
        return False
    if a.dtype.is_floating_point:
        fa, fb = a.double(), b.double()
        both_inf = torch.isinf(fa) & torch.isinf(fb) & (fa.sign() == fb.sign())
        d = (fa - fb).abs()
        ok = (d <= 1e-6 * (1 + fa.abs())) | both_inf | (torch.isnan(fa) & torch.isnan(fb))
        return bool(ok.all())
    return bool((a == b).all())


def execute(case, ctx):
    name = case["env"]
    spec = SPECS[name]
    if case.get("copies"):
        case = dict(case)
    solo_first = bool(case["seed"] % 2)
    pre_solo = {}
    if solo_first:
        # run the solo episodes BEFORE the batched one on the same (cached, sequentially reused) env object, so that
        # state an env object keeps across resets (index tables, cached sizes) is exercised in both orders
        inst0 = ctx.guard(spec.instance, case, what=f"instance|{name}")
        env0 = spec.env(case["cfg"])
        from ..envs import py_instance as _pyi
        cap0 = max(spec.bound(case["cfg"], _pyi(name, inst0[b])) for b in range(inst0.batch_size[0])) + 6
        for x in range(inst0.batch_size[0]):
            r = case["rows"][x % len(case["rows"])]
            pre_solo[x] = ctx.guard(run_episode, env0, inst0[x:x + 1], [r["mode"]], [r["stream"]], cap0, True,
                                    what=f"solo_episode|{name}")
        ctx.event("order:solo_first")
    spec, env, inst, insts, ep = play(case, ctx, keep_states=True)
    sl = spec.slice_of(case["cfg"])
    ctx.event(f"env:{name}")
    if name == "mtvrp":
        ctx.event(f"env:mtvrp|{'mixed_variants' if sl in ('all', 'single_feat') else 'one_variant'}")
    if ep.dead_end is not None or ep.cap_hit or ep.T == 0:
        ctx.event("aborted_episode(C02 territory)")
        return
    B = len(insts)
    A = ep.actions_tensor()
    rew = ctx.guard(env.get_reward, ep.td.clone(), A.clone(), what=f"get_reward|{name}|{sl}")
    rew = rew.reshape(-1) if rew.numel() == B else rew
    rows = case["rows"]
    cap = ep.T + 3
    for x in range(B):
        fin = ep.finish_step(x)
        env1 = spec.env(case["cfg"])
        if x in pre_solo:
            solo = pre_solo[x]
        else:
            solo = ctx.guard(run_episode, env1, inst[x:x + 1], [rows[x % len(rows)]["mode"]],
                             [rows[x % len(rows)]["stream"]], cap, True, what=f"solo_episode|{name}|{sl}")
        det = {"row": x, "B": B, "batched_actions": A[x].tolist(), "solo_actions": solo.actions_tensor()[0].tolist()
               if solo.T else [], "finish_batched": fin, "instance": insts[x]}
        padded = fin is not None and fin < ep.T
        tag = "padded" if padded else "unpadded"
        if solo.dead_end is not None or solo.cap_hit:
            ctx.violation(f"{name}|{sl}|solo_aborted", "episode completes in a batch but not alone", det)
            continue
        fs = solo.finish_step(0)
        if fs != fin:
            ctx.violation(f"{name}|{sl}|finish_step|{tag}", f"finishing step differs: batched {fin} vs solo {fs}", det)
            continue
        for t in range(fin):
            if not torch.equal(ep.masks[t][x], solo.masks[t][0]):
                ctx.violation(f"{name}|{sl}|mask|{tag}", f"mask at step {t} differs between batched and solo run",
                              {**det, "step": t, "batched": ep.masks[t][x].tolist(), "solo": solo.masks[t][0].tolist()})
                break
            if int(A[x, t]) != int(solo.actions[t][0]):
                ctx.violation(f"{name}|{sl}|action_choice|{tag}", "same stream picked different actions (mask differs)", det)
                break
            if t == fin - 1:
                break  # the state *after* the finishing step is not consumed by anyone (solo runs stop updating it)
            sb, ss = ep.states[t], solo.states[t]
            for k in ss.keys():
                if k in SKIP_KEYS or k not in sb.keys():
                    continue
                vb, vs = sb[k], ss[k]
                if not isinstance(vs, torch.Tensor) or vb.shape[:1] != (B,) or vs.shape[:1] != (1,):
                    continue
                if name == "mcp" and k == "membership" and vb.shape[-1] != vs.shape[-1]:
                    continue
                if not same(vb[x], vs[0]):
                    ctx.violation(f"{name}|{sl}|state:{k}|{tag}", f"state '{k}' after step {t} differs batched vs solo",
                                  {**det, "step": t, "batched": vb[x].tolist(), "solo": vs[0].tolist()})
                    break
        r1 = ctx.guard(env1.get_reward, solo.td.clone(), solo.actions_tensor().clone(), what=f"get_reward|{name}|{sl}")
        rb, rs = rew.reshape(B, -1)[x].double(), r1.reshape(1, -1)[0].double()
        if rb.shape != rs.shape or not bool(((rb - rs).abs() <= 1e-6 * (1 + rs.abs())).all()):
            ctx.violation(f"{name}|{sl}|reward|{tag}", f"reward differs: batched {rb.tolist()} vs solo {rs.tolist()}", det)
        if padded or B >= 3:
            ctx.nontriv({"c": case, "row": x})
        if padded:
            ctx.event("row_padded")
            if ep.T - fin >= 2:
                ctx.event("row_padded>=2")
    ctx.sample({"env": name, "cfg": case["cfg"], "B": B, "T": ep.T,
                "finish_steps": [ep.finish_step(b) for b in range(B)]})


def execute_copies(case, ctx):
    """k copies of one instance with the same stream must stay bit-identical."""
    spec, env, inst, insts, ep = play(case, ctx, keep_states=True)
    name = case["env"]
    sl = spec.slice_of(case["cfg"])
    if ep.dead_end is not None or ep.cap_hit or ep.T == 0:
        return
    A = ep.actions_tensor()
    ctx.check(bool((A == A[0:1]).all()), f"{name}|{sl}|copies_actions", "copies of one instance took different actions",
              {"actions": A.tolist()})
    rew = ctx.guard(env.get_reward, ep.td.clone(), A.clone(), what=f"get_reward|{name}|{sl}")
    rew = rew.reshape(len(insts), -1)
    ctx.check(bool((rew == rew[0:1]).all() or torch.isnan(rew).all()), f"{name}|{sl}|copies_reward",
              f"copies of one instance got different rewards {rew.tolist()}")
    for t, m in enumerate(ep.masks):
        if not bool((m == m[0:1]).all()):
            ctx.violation(f"{name}|{sl}|copies_mask", f"copies of one instance see different masks at step {t}")
    ctx.event(f"env:{name}")
    if len(insts) >= 2:
        ctx.nontriv()


def copies_cases(tier):
    import hypothesis.strategies as st

    @st.composite
    def c(draw):
        case = draw(episode_cases(tier, ALL_ENVS, max_b=1))
        k = draw(st.integers(2, 5))
        case["B"] = k
        if case["src"] != "gen":
            case["lat"] = {kk: (v * k if isinstance(v, list) else v) for kk, v in case["lat"].items()}
        else:
            case["copies_of_seed"] = True
        case["rows"] = case["rows"] * k
        return case
    return c()


def execute_copies_wrap(case, ctx):
    if case.get("copies_of_seed"):
        # generator instances: draw one instance and replicate it
        spec = SPECS[case["env"]]
        one = spec.gen(case["cfg"], 1, case["seed"])
        k = case["B"]
        rep = torch.cat([one] * k, 0) if hasattr(torch, "cat") else one
        orig = spec.instance
        try:
            spec.instance = lambda c: rep.clone()
            return execute_copies(case, ctx)
        finally:
            spec.instance = orig
    return execute_copies(case, ctx)


# --------------------------------------------------------------------------- interleaved episodes on one env object
INTERLEAVE_ENVS = [e for e in ALL_ENVS if e != "ffsp"]  # FFSP keeps per-object index tables / step counter (assumption)


def interleave_cases(tier):
    import hypothesis.strategies as st

    from ..envs import ENV_SHAPE_FREE

    @st.composite
    def c(draw):
        a = draw(episode_cases(tier, INTERLEAVE_ENVS, max_b=4))
        name = a["env"]
        b = draw(episode_cases(tier, [name], max_b=4))
        # batch B uses batch A's configuration; only what the instances themselves carry may differ: the quota of
        # flp / mcp and, for the envs that take every size from the data, the size (not for fjsp, whose env object
        # keeps the shape of the last reset by design: set_instance_params)
        keep = {}
        if name in ("flp", "mcp") and draw(st.booleans()):
            keep["k"] = b["cfg"]["k"]
        if name in ENV_SHAPE_FREE and name != "fjsp" and draw(st.booleans()):
            keep.update({k: b["cfg"][k] for k in ENV_SHAPE_FREE[name]})
        cfg_b = dict(a["cfg"], **keep)
        if name == "flp":
            cfg_b["k"] = min(cfg_b["k"], cfg_b["n"])
        if name == "mcp":
            cfg_b["k"] = min(cfg_b["k"], cfg_b["sets"])
            cfg_b["items"] = max(cfg_b["items"], cfg_b["max_size"])
        if b["src"] != "gen" or cfg_b != b["cfg"]:
            b = dict(b, src="gen")
            b.pop("lat", None)
        b["cfg"] = cfg_b
        for x in (a, b):
            x.pop("env_shape", None)
            x["stepping"] = "default"
        return {"env": name, "a": a, "b": b, "order": draw(st.lists(st.booleans(), min_size=1, max_size=12))}
    return c()


def execute_interleaved(case, ctx):
    """Two unrelated batches are driven through ONE env object with their steps interleaved (reset A, reset B, step A,
    step B, ... in a drawn order); each must behave exactly as when it is run alone on a private env object: the docs
    state that instance data and state travel in the tensordict ("passed in a stateless fashion")."""
    name = case["env"]
    spec = SPECS[name]
    A, Bc = case["a"], case["b"]
    sl = spec.slice_of(A["cfg"])
    ctx.event(f"env:{name}")
    shared = ctx.guard(spec.env, A["cfg"], what=f"build_env|{name}")
    runs = []
    for x in (A, Bc):
        inst = ctx.guard(spec.instance, x, what=f"instance|{name}")
        nB = inst.batch_size[0]
        rows = x["rows"]
        modes = [rows[i % len(rows)]["mode"] for i in range(nB)]
        streams = [rows[i % len(rows)]["stream"] for i in range(nB)]
        cap = max(spec.bound(x["cfg"], py_instance(name, inst[i])) for i in range(nB)) + 3
        private = ctx.guard(spec.build, x["cfg"], what=f"build_env|{name}")
        ref = ctx.guard(run_episode, private, inst, modes, streams, cap, False, what=f"solo_episode|{name}|{sl}")
        runs.append(dict(inst=inst, modes=modes, streams=streams, cap=cap, ref=ref, private=private, n=nB))
    if any(r["ref"].dead_end is not None or r["ref"].cap_hit or r["ref"].T == 0 for r in runs):
        ctx.event("aborted_episode(C02 territory)")
        return
    from ..episode import pick_actions

    def start(r):
        r["td"] = shared.reset(r["inst"].clone())
        r["t"], r["masks"], r["acts"] = 0, [], []
        r["done"] = row_done(r["td"]["done"], r["n"])
    ctx.guard(start, runs[0], what=f"reset|{name}")
    ctx.guard(start, runs[1], what=f"reset|{name}")

    def step(r):
        mask = flat_mask(r["td"]["action_mask"], r["n"])
        acts = pick_actions(mask, r["modes"], r["streams"], r["t"])
        r["masks"].append(mask.clone())
        if bool((acts < 0).any()):
            r["dead"] = True
            return
        r["acts"].append(acts.clone())
        td = r["td"].clone()
        td.set("action", acts)
        r["td"] = shared.step(td)["next"]
        r["done"] = row_done(r["td"]["done"], r["n"])
        r["t"] += 1
    order = case["order"]
    i = 0
    while not all(bool(r["done"].all()) or r.get("dead") for r in runs):
        pick = 1 if order[i % len(order)] else 0
        i += 1
        r = runs[pick]
        if bool(r["done"].all()) or r.get("dead") or r["t"] >= r["cap"]:
            r = runs[1 - pick]
            if bool(r["done"].all()) or r.get("dead") or r["t"] >= r["cap"]:
                break
        ctx.guard(step, r, what=f"interleaved_step|{name}|{sl}")
    switches = sum(1 for x, y in zip(order, order[1:]) if x != y)
    for tag, r in zip("AB", runs):
        ref = r["ref"]
        det = {"batch": tag, "interleaved_actions": [a.tolist() for a in r["acts"]], "solo_actions": ref.actions_tensor().t().tolist(),
               "order": order}
        if r.get("dead") or not bool(r["done"].all()) or r["t"] != ref.T:
            ctx.violation(f"{name}|{sl}|interleaved|episode_length", f"batch {tag}: {r['t']} steps (dead end {bool(r.get('dead'))}) when "
                          f"interleaved with another batch on the same env object, {ref.T} steps alone", det)
            continue
        for t in range(ref.T):
            if not torch.equal(r["masks"][t], ref.masks[t]):
                ctx.violation(f"{name}|{sl}|interleaved|mask", f"batch {tag}: mask at step {t} differs from the run on a private env object", det)
                break
        else:
            Ai = torch.stack(r["acts"], 1)
            r1 = ctx.guard(shared.get_reward, r["td"].clone(), Ai.clone(), what=f"get_reward|{name}|{sl}").reshape(r["n"], -1).double()
            r0 = ctx.guard(r["private"].get_reward, ref.td.clone(), ref.actions_tensor().clone(), what=f"get_reward|{name}|{sl}").reshape(r["n"], -1).double()
            if r1.shape != r0.shape or not bool(((r1 - r0).abs() <= 1e-6 * (1 + r0.abs())).all()):
                ctx.violation(f"{name}|{sl}|interleaved|reward", f"batch {tag}: reward {r1.tolist()} when interleaved vs {r0.tolist()} alone", det)
    if switches >= 1 and runs[0]["ref"].T >= 2 and runs[1]["ref"].T >= 2:
        ctx.nontriv()
    if A["cfg"] != Bc["cfg"]:
        ctx.event("interleaved:different_configs")
    ctx.sample({"env": name, "cfg_a": A["cfg"], "cfg_b": Bc["cfg"], "order": order, "steps": [r["t"] for r in runs]})


# --------------------------------------------------------------------------- instance storage is never written
def execute_no_alias(case, ctx):
    """Slices of one big instance batch (views that share its storage - what indexing a dataset td gives) are handed to
    reset WITHOUT cloning and stepped WITHOUT cloning (as the decoding loops do), twice over overlapping ranges: no
    episode may write into the instance tensors it was given, and the later episodes must equal runs on private copies."""
    name = case["env"]
    spec = SPECS[name]
    sl = spec.slice_of(case["cfg"])
    env = ctx.guard(spec.env, case["cfg"], what=f"build_env|{name}")
    big = ctx.guard(spec.instance, case, what=f"instance|{name}")
    Bn = big.batch_size[0]
    ctx.event(f"env:{name}")
    ref = big.clone()
    held = {k: big[k] for k in big.keys()}  # the very tensors of the instance batch
    insts = [py_instance(name, ref[b]) for b in range(Bn)]
    cap = max(spec.bound(case["cfg"], insts[b]) for b in range(Bn)) + 3
    rows = case["rows"]
    cut = max(1, Bn // 2)
    ranges = [(0, cut), (cut, Bn), (0, Bn), (0, cut)] if Bn >= 2 else [(0, 1), (0, 1)]
    from ..episode import pick_actions
    for ri, (lo, hi) in enumerate(ranges):
        if hi <= lo:
            continue
        n = hi - lo
        modes = [rows[(lo + i) % len(rows)]["mode"] for i in range(n)]
        streams = [rows[(lo + i) % len(rows)]["stream"] for i in range(n)]
        want = ctx.guard(run_episode, spec.build(case["cfg"]) if name == "ffsp" else env, ref[lo:hi], modes, streams, cap, False,
                         what=f"solo_episode|{name}|{sl}")
        if want.dead_end is not None or want.cap_hit or want.T == 0:
            ctx.event("aborted_episode(C02 territory)")
            return

        def run_view():
            td = env.reset(big[lo:hi])  # a view of the big batch, no clone
            masks, acts = [], []
            done = row_done(td["done"], n)
            t = 0
            while not bool(done.all()) and t < cap:
                mask = flat_mask(td["action_mask"], n)
                a = pick_actions(mask, modes, streams, t)
                masks.append(mask.clone())
                if bool((a < 0).any()):
                    break
                acts.append(a.clone())
                td.set("action", a)
                td = env.step(td)["next"]  # no clone either
                done = row_done(td["done"], n)
                t += 1
            return masks, acts, bool(done.all())
        masks, acts, fin = ctx.guard(run_view, what=f"episode_on_view|{name}|{sl}")
        det = {"range": [lo, hi], "pass": ri, "instances": insts[lo:hi]}
        for k, v in held.items():
            same_ = (v.shape == ref[k].shape) and bool(torch.equal(v, ref[k]) or (v.dtype.is_floating_point and torch.equal(
                torch.nan_to_num(v), torch.nan_to_num(ref[k]))))
            if not same_:
                ctx.violation(f"{name}|{sl}|instance_storage_modified|{k}",
                              f"after an episode on rows {lo}:{hi} of the instance batch (given to reset as a view) the instance tensor "
                              f"'{k}' has changed: episodes must not write into the data they are given", det)
                return
        ok = fin and len(acts) == want.T and all(torch.equal(a, b) for a, b in zip(acts, want.actions)) \
            and all(torch.equal(a, b) for a, b in zip(masks, want.masks))
        if not ok:
            ctx.violation(f"{name}|{sl}|episode_on_view_differs|pass{min(ri, 2)}",
                          f"episode on rows {lo}:{hi} given as a view (pass {ri}) differs from the run on a private copy", det)
            return
    if Bn >= 2:
        ctx.nontriv()
    ctx.sample({"env": name, "cfg": case["cfg"], "B": Bn, "ranges": ranges})


def preimport():
    from ..eda import data_dir
    data_dir()


SUBS = [
    Sub("solo_vs_batched", execute, strategy=lambda tier: episode_cases(tier, ALL_ENVS),
        budget={"quick": 3500, "thorough": 40000}, shards=16),
    Sub("copies", execute_copies_wrap, strategy=copies_cases, budget={"quick": 800, "thorough": 10000}, shards=16),
    Sub("interleaved", execute_interleaved, strategy=interleave_cases, budget={"quick": 960, "thorough": 12000}, shards=16),
    Sub("no_alias", execute_no_alias, strategy=lambda tier: episode_cases(tier, ALL_ENVS).map(
        lambda c: {k: v for k, v in c.items() if k not in ("stepping", "env_shape")}),
        budget={"quick": 960, "thorough": 12000}, shards=16),
]
TIME_CAP = {"quick": 400, "thorough": 3000}
