"""C09 — improvement environments keep tours valid and best-so-far bookkeeping exact.

Targets rl4co.envs.routing.tsp.env.TSPkoptEnv (k = 2..5), rl4co.envs.routing.pdp.env.PDPRuinRepairEnv,
ImprovementEnvBase.step_to_solution and the bundled improvement policies DACT (2-opt), NeuOpt (k-opt, k>2)
and N2S (PDP ruin-repair).

A history is a replayable list of operations on ONE live TensorDict that is stepped in place, exactly as the
bundled trainer does (`policy(td, env); env.step(td)`); before every operation the harness keeps a cloned
snapshot, and after every operation it re-derives everything from the instance coordinates in float64:

  rec_current / rec_best are single cycles through all nodes (linked-list successor format), PDP pickups
  precede their deliveries when walking from the depot, cost_current == len(rec_current),
  cost_bsf == len(rec_best) == min of all cost_current seen (exact float compare: the code stores those very
  values), cost_bsf never increases, reward == bsf_prev - bsf_new >= 0, sum(rewards) == initial - bsf,
  visited_time is the visiting order of rec_current (mod n, as every consumer reads it), and a 2-opt move
  (k=2) yields the reference "reverse the segment first..second" tour as an undirected cyclic sequence.
"""
import fnmatch
import os
import sys

import hypothesis.strategies as st
import torch

from ..runner import SkipCase, Sub, Violation, ops_minimizer, repo_frame
from ..stateful import make_machine, run_history

PROPERTY = "C09"
RULE = (
    "machine: init = (env tsp_kopt k in 2..5 | pdp_ruin_repair, n 4..12 (30 thorough; PDP even), B 1..4, "
    "uniform-seeded or k/16-lattice coordinates incl. coincident nodes, random|greedy initial tour, tiny "
    "seeded policy with drawn constructor options pos_type CPE|APE, normalization layer|batch|instance, temperature "
    "0.5|1|2, tanh_clipping 0|2|6|10, env stepping default | _torchrl_mode=True | _torchrl_mode=True with a discarded "
    "look-ahead move before every committed one); ops = mask_move (move admitted by env.get_mask picked by choice indices; k=2 and PDP), "
    "random (env._random_action under a drawn torch seed), policy (DACT/NeuOpt/N2S forward, greedy|sampling, "
    "then env.step), stub (same policy with a stub decoder whose logits prefer Hypothesis-chosen targets, "
    "greedy: reaches every move the policy-internal masks admit), to_solution (step_to_solution with a "
    "generated valid tour | rec_best | rec_current | reversed tour). Non-trivial history = some row had an "
    "improving move (reward>0) later followed by a worsening one (cost_current up), and for k>2 at least one "
    "move with k distinct exchange points; distinct = distinct history hash. "
    "two_opt_all: k=2, n<=7, all n(n-1) moves applied from one generated state (one batch row per move); "
    "non-trivial = state reached through step_to_solution with both improving and worsening moves present."
)
ASSUMPTIONS = [
    "float32 env arithmetic vs float64 oracle on the same float32 coordinates: costs compared at 1e-5*(1+len)",
    "cost_bsf vs running min of cost_current compared exactly (the env stores either new_obj or the old value)",
    "visited_time compared modulo the number of nodes (the env writes n for node 0, every consumer reads it mod n)",
    "td is stepped in place as in n_step_PPO.shared_step; snapshots are clones taken before each operation",
    "policies: embed_dim 16, 1 layer, 2 heads, parameters scaled by a drawn spread factor, eval mode, no grad; policy "
    "options change the move distribution only - the oracle (tour validity, best-so-far bookkeeping) is unchanged",
    "_torchrl_mode=True: env.step(td) must leave rec_current/rec_best/cost_current/cost_bsf/visited_time/locs held by td "
    "as they were (documented: the successor is written to td['next']); the history continues from td['next'] as "
    "torchrl's step_mdp does; the reward is accepted in the spec's shape [B,1]",
    "for k>2 env.get_mask is not implemented by design (masks live in the policy / _random_action): the "
    "mask_move rule is disabled there and the stub-decoder rule enumerates the policy-internal mask instead",
    "crashes inside rl4co count as violations crash|<label>[|B=1]|<Type>|<frame>; B=1 only tagged when B==1",
]
TIME_CAP = {"quick": 300, "thorough": 3000}

CRASH = object()


# --------------------------------------------------------------------------- small pure helpers
def _acked(sig):
    """Development-only switch (default off): VF_C09_ACK='pat1,pat2' treats matching crash signatures like
    open known findings (counted, operation skipped).  Shipping path: variable unset -> nothing suppressed."""
    pats = os.environ.get("VF_C09_ACK", "")
    if not pats:
        return False
    return any(fnmatch.fnmatchcase(sig, p) for p in pats.split(",") if p)


def cycle_from(r, start=0):
    """r: successor list.  Returns the visiting order [start, r[start], ...] if r is one cycle through all
    nodes, else None."""
    n = len(r)
    if sorted(r) != list(range(n)):
        return None
    seq, cur = [start], start
    for _ in range(n - 1):
        cur = r[cur]
        seq.append(cur)
    if len(set(seq)) != n or r[cur] != start:
        return None
    return seq


def canon(seq):
    """Undirected cyclic sequence -> canonical tuple (rotation to node 0, smaller of the two directions)."""
    i = seq.index(0)
    f = seq[i:] + seq[:i]
    b = [f[0]] + f[1:][::-1]
    return tuple(min(f, b))


def two_opt_reference(r, first, second):
    """Tour obtained from successor list r by reversing the stretch first -> ... -> second."""
    s = cycle_from(r, first)
    j = s.index(second)
    return s[: j + 1][::-1] + s[j + 1:]


def tour_len64(c64, rec):
    """c64 [B,N,2] float64, rec [B,N] long (valid indices) -> [B] float64 lengths sum_i |c[i]-c[rec[i]]|."""
    nxt = c64.gather(1, rec.unsqueeze(-1).expand(-1, -1, 2))
    return (nxt - c64).norm(p=2, dim=-1).sum(-1)


def perm_to_rec(seq):
    n = len(seq)
    r = [0] * n
    for i, v in enumerate(seq):
        r[v] = seq[(i + 1) % n]
    return r


def pdp_fix(seq, half):
    """Make a depot-first sequence precedence feasible by swapping out-of-order pickup/delivery positions."""
    pos = {v: i for i, v in enumerate(seq)}
    seq = list(seq)
    for p in range(1, half + 1):
        d = p + half
        if pos[p] > pos[d]:
            i, j = pos[p], pos[d]
            seq[i], seq[j] = seq[j], seq[i]
            pos[p], pos[d] = j, i
    return seq


# --------------------------------------------------------------------------- tracker = model + invariants
class Tracker:
    """Reference model of one batched improvement episode plus all C09 predicates."""

    def __init__(self, ctx, kind, k, c64):
        self.ctx, self.kind, self.k, self.c64 = ctx, kind, k, c64
        self.B, self.N = c64.shape[0], c64.shape[1]
        self.half = (self.N - 1) // 2
        self.name = f"tsp_k{k}" if kind == "tsp" else "pdp"
        self.prev = None
        self.min_seen = None
        self.init_cost = None
        self.reward_sum = torch.zeros(self.B, dtype=torch.float64)
        self.improved = [False] * self.B       # row had reward > 0 at some point
        self.imp_then_worse = [False] * self.B
        self.any_improve = self.any_worsen = False
        self.steps = 0

    # -- structural validity of one linked list
    def _valid(self, rec, which, sl):
        ctx = self.ctx
        if rec.dtype != torch.long or tuple(rec.shape) != (self.B, self.N):
            ctx.violation(f"{which}_shape|{sl}", f"{which} has dtype/shape {rec.dtype}/{tuple(rec.shape)}")
            return None
        seqs = []
        for b, r in enumerate(rec.tolist()):
            seq = cycle_from(r)
            if seq is None:
                ctx.violation(f"{which}_not_single_cycle|{sl}",
                              f"{which} row {b} is not one cycle through all {self.N} nodes: {r}",
                              {"row": b, "rec": r, "prev": self._prev_row(b)})
                return None
            if self.kind == "pdp":
                pos = {v: i for i, v in enumerate(seq)}
                bad = [p for p in range(1, self.half + 1) if pos[p] > pos[p + self.half]]
                if bad:
                    ctx.violation(f"{which}_precedence|{sl}",
                                  f"{which} row {b}: delivery before pickup for pairs {bad}; order from depot {seq}",
                                  {"row": b, "order": seq, "prev": self._prev_row(b)})
                    return None
            seqs.append(seq)
        return seqs

    def _prev_row(self, b):
        if self.prev is None:
            return None
        out = {"rec_current": self.prev["rec_current"][b].tolist()}
        if "action" in self.prev.keys() and self.last_action is not None:
            out["action"] = self.last_action[b].tolist()
        return out

    last_action = None
    torchrl = False

    def _lens(self, td, sl):
        ctx = self.ctx
        cur_seq = self._valid(td["rec_current"], "rec_current", sl)
        best_seq = self._valid(td["rec_best"], "rec_best", sl)
        if cur_seq is None or best_seq is None:
            raise SkipCase()  # only reachable for known findings
        cc, cb = td["cost_current"], td["cost_bsf"]
        ctx.check(tuple(cc.shape) == (self.B,) and tuple(cb.shape) == (self.B,), f"cost_shape|{sl}",
                  f"cost shapes {tuple(cc.shape)} {tuple(cb.shape)}")
        lc = tour_len64(self.c64, td["rec_current"])
        lb = tour_len64(self.c64, td["rec_best"])
        tol_c = 1e-5 * (1 + lc)
        tol_b = 1e-5 * (1 + lb)
        ctx.check(bool(((cc.double() - lc).abs() <= tol_c).all()), f"cost_current_ne_length|{sl}",
                  f"cost_current {cc.tolist()} != length of rec_current {lc.tolist()}",
                  {"cost_current": cc, "length": lc, "rec_current": td["rec_current"]})
        ctx.check(bool(((cb.double() - lb).abs() <= tol_b).all()), f"cost_bsf_ne_best_length|{sl}",
                  f"cost_bsf {cb.tolist()} != length of rec_best {lb.tolist()}",
                  {"cost_bsf": cb, "length": lb, "rec_best": td["rec_best"], "rec_current": td["rec_current"]})
        return cur_seq, best_seq

    def _visited_time(self, td, cur_seq, sl):
        vt = td["visited_time"]
        if tuple(vt.shape) != (self.B, self.N):
            self.ctx.violation(f"visited_time_shape|{sl}", f"visited_time shape {tuple(vt.shape)}")
            return
        for b, row in enumerate(vt.tolist()):
            want = [0] * self.N
            for i, v in enumerate(cur_seq[b]):
                want[v] = i
            got = [int(x) % self.N for x in row]
            if got != want or any(float(x) != int(x) for x in row):
                self.ctx.violation(f"visited_time|{sl}",
                                   f"visited_time row {b} = {row} is not the visiting order of rec_current "
                                   f"(mod n expected {want})", {"row": b, "order": cur_seq[b]})
                return

    # -- after reset
    def start(self, td):
        sl = f"{self.name}|op=reset"
        cur_seq, _ = self._lens(td, sl)
        self.ctx.check(torch.equal(td["cost_bsf"], td["cost_current"]), f"bsf_ne_min_seen|{sl}",
                       "after reset cost_bsf differs from cost_current",
                       {"bsf": td["cost_bsf"], "cur": td["cost_current"]})
        self.ctx.check(torch.equal(td["rec_best"], td["rec_current"]), f"reset_best_ne_current|{sl}",
                       "after reset rec_best differs from rec_current although only one tour was seen")
        self._visited_time(td, cur_seq, sl)
        self.min_seen = td["cost_current"].clone()
        self.init_cost = td["cost_current"].clone()
        self.prev = td.clone()

    # -- after one operation
    def after(self, td, op, action=None):
        ctx = self.ctx
        sl = f"{self.name}|op={op}"
        self.last_action = action
        prev = self.prev
        cur_seq, _ = self._lens(td, sl)
        cc, cb = td["cost_current"], td["cost_bsf"]
        # running minimum, exact
        self.min_seen = torch.minimum(self.min_seen, cc)
        ctx.check(torch.equal(cb, self.min_seen), f"bsf_ne_min_seen|{sl}",
                  f"cost_bsf {cb.tolist()} != min of all cost_current seen {self.min_seen.tolist()}",
                  {"bsf": cb, "min_seen": self.min_seen, "cost_current": cc, "bsf_prev": prev["cost_bsf"]})
        ctx.check(bool((cb <= prev["cost_bsf"]).all()), f"bsf_increased|{sl}",
                  f"cost_bsf went up: {prev['cost_bsf'].tolist()} -> {cb.tolist()}")
        # reward
        if "reward" not in td.keys():
            ctx.violation(f"reward_missing|{sl}", "no reward after the step")
            return
        rw = td["reward"]
        if self.torchrl and tuple(rw.shape) == (self.B, 1):
            rw = rw.squeeze(-1)  # TorchRL stepping (_step_proc_data) reports the reward in the spec's shape [B, 1]
        ctx.check(tuple(rw.shape) == (self.B,), f"reward_shape|{sl}", f"reward shape {tuple(rw.shape)}")
        want = prev["cost_bsf"].double() - cb.double()
        tol = 1e-6 * (1 + prev["cost_bsf"].double().abs())
        ctx.check(bool(((rw.double() - want).abs() <= tol).all()), f"reward_ne_bsf_decrease|{sl}",
                  f"reward {rw.tolist()} != bsf_prev - bsf_new {want.tolist()}",
                  {"reward": rw, "bsf_prev": prev["cost_bsf"], "bsf_new": cb, "cur_prev": prev["cost_current"],
                   "cur_new": cc})
        ctx.check(bool((rw >= 0).all()), f"reward_negative|{sl}", f"negative reward {rw.tolist()}")
        self.reward_sum += rw.double()
        tot = self.init_cost.double() - cb.double()
        ctx.check(bool(((self.reward_sum - tot).abs() <= 1e-5 * (1 + self.init_cost.double())).all()),
                  f"reward_sum|{sl}", f"sum of rewards {self.reward_sum.tolist()} != initial - bsf {tot.tolist()}")
        self._visited_time(td, cur_seq, sl)
        # 2-opt reference
        if action is not None and self.kind == "tsp" and self.k == 2:
            for b in range(self.B):
                f, s = int(action[b, 0]), int(action[b, 1])
                if f == s:
                    continue
                ref = two_opt_reference(prev["rec_current"][b].tolist(), f, s)
                if canon(ref) != canon(cur_seq[b]):
                    ctx.violation(f"two_opt_ne_reference|{sl}",
                                  f"row {b}: 2-opt({f},{s}) on {cycle_from(prev['rec_current'][b].tolist())} gave "
                                  f"{cur_seq[b]}, reference (reverse {f}..{s}) {ref}",
                                  {"row": b, "action": [f, s], "prev": prev["rec_current"][b], "got": cur_seq[b],
                                   "ref": ref})
                    break
        # classes
        imp = (rw > 0).tolist()
        wor = (cc > prev["cost_current"]).tolist()
        for b in range(self.B):
            if wor[b]:
                self.any_worsen = True
                if self.improved[b]:
                    self.imp_then_worse[b] = True
            if imp[b]:
                self.improved[b] = True
                self.any_improve = True
        if any(imp):
            ctx.event("move:improving_bsf")
        if any(wor):
            ctx.event("move:worsening")
        if any(c == p for c, p in zip(cc.tolist(), prev["cost_current"].tolist())):
            ctx.event("move:equal_cost")
        self.steps += 1
        self.prev = td.clone()


# --------------------------------------------------------------------------- instances / envs / policies
def build_instance(init):
    from tensordict import TensorDict

    B, n, kind = init["B"], init["n"], init["env"]
    N = n + 1 if kind == "pdp" else n
    if init["coords"] == "lattice":
        locs = torch.tensor(init["pts"], dtype=torch.float32).reshape(B, N, 2) / 16.0
    else:
        g = torch.Generator().manual_seed(int(init["iseed"]))
        locs = torch.rand(B, N, 2, generator=g)
    if init.get("offset"):
        locs = locs + float(init["offset"])  # rounded to float32 here: the oracle works on the very same coordinates
    if kind == "pdp":
        inst = TensorDict({"depot": locs[:, 0].clone(), "locs": locs[:, 1:].clone()}, batch_size=[B])
    else:
        inst = TensorDict({"locs": locs.clone()}, batch_size=[B])
    return inst, locs.double().clone(), N


def build_env(init):
    from rl4co.envs.routing.pdp.env import PDPRuinRepairEnv
    from rl4co.envs.routing.tsp.env import TSPkoptEnv

    gp = dict(num_loc=init["n"], init_sol_type=init["init_sol"])
    # documented constructor option of RL4COEnvBase: step() leaves the state in td and writes the successor to td["next"]
    kw = dict(_torchrl_mode=True) if init.get("stepping", "default") != "default" else {}
    if init["env"] == "pdp":
        return PDPRuinRepairEnv(generator_params=gp, **kw)
    return TSPkoptEnv(generator_params=gp, k_max=init["k"], **kw)


_POL = {}


POL_DEFAULT = {"pos_type": "CPE", "normalization": "layer", "temperature": 1.0, "tanh_clipping": 6.0}


def get_policy(name, wseed, spread, opts=None):
    opts = {**POL_DEFAULT, **(opts or {})}
    key = (name, int(wseed), float(spread), tuple(sorted(opts.items())))
    if key in _POL:
        return _POL[key]
    if len(_POL) > 48:
        _POL.clear()
    from rl4co.models.zoo.dact.policy import DACTPolicy
    from rl4co.models.zoo.n2s.policy import N2SPolicy
    from rl4co.models.zoo.neuopt.policy import NeuOptPolicy

    cls = {"dact": DACTPolicy, "n2s": N2SPolicy, "neuopt": NeuOptPolicy}[name]
    state = torch.get_rng_state()
    torch.manual_seed(1000 + int(wseed))
    pol = cls(embed_dim=16, num_encoder_layers=1, num_heads=2, feedforward_hidden=16, pos_type=opts["pos_type"],
              normalization=opts["normalization"], temperature=float(opts["temperature"]),
              tanh_clipping=float(opts["tanh_clipping"]))
    torch.set_rng_state(state)
    with torch.no_grad():
        for p in pol.parameters():
            p.mul_(float(spread))
    pol.eval()
    _POL[key] = pol
    return pol


class _PrefLogits(torch.nn.Module):
    """Logits over M flat choices preferring target t, then t+1, ... (strictly decreasing, in (-2, 0])."""

    @staticmethod
    def make(targets, M):
        idx = torch.arange(M).unsqueeze(0)
        t = torch.tensor(targets, dtype=torch.long).unsqueeze(1) % M
        return -2.0 * ((idx - t) % M).float() / M


class StubTD(torch.nn.Module):
    """Stands in for DACTDecoder / N2S removal / N2S reinsertion decoders: forward(td, h, p) -> logits."""

    def __init__(self, targets, shape_fn):
        super().__init__()
        self.targets, self.shape_fn = targets, shape_fn

    def forward(self, td, h, p):
        shape = self.shape_fn(td)
        M = 1
        for s in shape[1:]:
            M *= s
        return _PrefLogits.make(self.targets, M).view(*shape)


class StubRDS(torch.nn.Module):
    """Stands in for neuopt.RDSDecoder: forward(h, q1, q2, iq1, iq2) -> (logits [B,N], q1, q2)."""

    def __init__(self, logits_per_step):
        super().__init__()
        self.l, self.i = logits_per_step, 0

    def forward(self, h, q1, q2, iq1, iq2):
        lg = self.l[self.i % len(self.l)]
        self.i += 1
        return lg.clone(), q1, q2


# --------------------------------------------------------------------------- harness
class C09Harness:
    def __init__(self, ctx, init):
        self.ctx, self.init = ctx, init
        self.kind, self.k, self.B = init["env"], init.get("k", 0), init["B"]
        inst, c64, self.N = build_instance(init)
        self.env = build_env(init)
        self.pname = "n2s" if self.kind == "pdp" else ("dact" if self.k == 2 else "neuopt")
        self.tr = Tracker(ctx, self.kind, self.k, c64)
        self.stepping = init.get("stepping", "default")
        self.tr.torchrl = self.stepping != "default"
        self.popts = init.get("pol") or {}
        ctx.event(f"stepping:{self.stepping}")
        ctx.event(f"coords:offset={init.get('offset', 0)}|{'N>25' if self.N > 25 else 'N<=25'}")
        for k_, v_ in self.popts.items():
            if POL_DEFAULT.get(k_) != v_:
                ctx.event(f"policy_option:{k_}={v_}")
        self.ops_used = set()
        self.k_distinct = False
        torch.manual_seed(int(init["rseed"]))
        td = self._guard(self.env.reset, inst.clone(), what="reset")
        if td is CRASH:
            raise SkipCase()
        self.td = td
        self.pending = ("reset", None)
        ctx.event(f"env:{self.tr.name}")
        ctx.event(f"init:{init['init_sol']}|{init['coords']}")
        ctx.event(f"B={self.B}")
        if any(len({tuple(p) for p in row}) < self.N for row in c64.tolist()):
            ctx.event("coords:coincident_nodes")
        ctx.sample({k: v for k, v in init.items() if k != "pts"})

    # -- calls into rl4co
    def _guard(self, fn, *a, what, **kw):
        try:
            return fn(*a, **kw)
        except (Violation, SkipCase):
            raise
        except Exception as e:  # noqa
            fr = repo_frame(sys.exc_info()[2])
            if fr is None:
                raise
            label = what + ("|B=1" if self.B == 1 else "")
            sig = f"crash|{label}|{type(e).__name__}|{fr}"
            if _acked(sig):
                self.ctx.event("dev_ack:" + sig)
                return CRASH
            self.ctx.violation(sig, f"{type(e).__name__}: {str(e)[:300]}", detail={"frame": fr})
            return CRASH  # open known finding: operation is skipped

    def _crashed(self):
        """A crash inside _step may leave the live td half-updated: continue from the last good snapshot."""
        self.td = self.tr.prev.clone()
        self.pending = None
        self.ctx.event("op_skipped_after_known_crash")

    STATE_KEYS = ("rec_current", "rec_best", "cost_current", "cost_bsf", "visited_time", "locs")

    def _state_untouched(self, before, what):
        for k_, v_ in before.items():
            if k_ in self.td.keys() and not torch.equal(self.td[k_], v_):
                self.ctx.violation(f"torchrl_step_modified_state|{self.tr.name}|{k_}",
                                   f"_torchrl_mode=True: env.step(td) changed td[{k_!r}] in place ({what}); the successor "
                                   "belongs under td['next'] and the state held by td must stay as it was")
                return False
        return True

    def _env_step(self, op, action):
        if self.stepping == "default":
            out = self._guard(self.env.step, self.td, what=f"{self.kind}_step")
            if out is CRASH:
                return self._crashed()
            self.td = out["next"]
        else:
            # TorchRL stepping: the state stays in td, the successor is written to td["next"]; with `torchrl_probe` another
            # move of the env's own sampler is evaluated from the same td first and discarded (look-ahead), then the
            # committed action is stepped from the untouched state
            before = {k_: self.td[k_].clone() for k_ in self.STATE_KEYS if k_ in self.td.keys()}
            committed = self.td["action"].clone()
            if self.stepping == "torchrl_probe":
                torch.manual_seed(7919 + self.tr.steps)
                if self._guard(self.env._random_action, self.td, what="random_action") is CRASH:
                    return self._crashed()
                out = self._guard(self.env.step, self.td, what=f"{self.kind}_step")
                if out is CRASH:
                    return self._crashed()
                if not self._state_untouched(before, "probed move"):
                    return self._crashed()
                self.td = self.td.exclude("next")
                self.td.set("action", committed)
                self.ctx.event("torchrl:probe_discarded")
            out = self._guard(self.env.step, self.td, what=f"{self.kind}_step")
            if out is CRASH:
                return self._crashed()
            if not self._state_untouched(before, "committed move"):
                return self._crashed()
            nxt = out["next"]
            self.td = nxt.exclude("next") if "next" in nxt.keys() else nxt
            if "action" not in self.td.keys():
                self.td.set("action", committed)
        self.pending = (op, action)
        self.ops_used.add(op)
        self.ctx.event(f"op:{op}")
        if self.kind == "tsp" and self.k > 2:
            idx = action[:, : self.k].tolist()
            nd = max(len(set(r)) for r in idx)
            self.ctx.event(f"kopt:k={self.k}|distinct_points={nd}|{op}")
            if nd == self.k:
                self.k_distinct = True

    # -- (a) move admitted by the env's own mask
    def pre_mask_move(self):
        return self.kind == "pdp" or self.k == 2

    def do_mask_move(self, c1, c2):
        B, N = self.B, self.N
        if self.kind == "pdp":
            pair = torch.tensor([[c1[b] % (N // 2)] for b in range(B)], dtype=torch.long)
            mask = self._guard(self.env.get_mask, pair + 1, self.td, what="get_mask")
        else:
            pair = None
            mask = self._guard(self.env.get_mask, self.td, what="get_mask")
        if mask is CRASH:
            return self._crashed()
        self.ctx.check(tuple(mask.shape) == (B, N, N) and mask.dtype == torch.bool, f"mask_shape|{self.tr.name}",
                       f"mask shape/dtype {tuple(mask.shape)} {mask.dtype}")
        rows = []
        for b in range(B):
            adm = torch.nonzero(mask[b], as_tuple=False).tolist()
            if not adm:
                self.ctx.violation(f"mask_empty|{self.tr.name}", f"row {b}: env mask admits no move")
                return self._crashed()
            f, s = adm[c2[b] % len(adm)]
            rows.append([f, s] if pair is None else [int(pair[b, 0]), f, s])
            if pair is not None:
                self.ctx.event("pdp:first==second" if f == s else "pdp:first<second")
        action = torch.tensor(rows, dtype=torch.long)
        self.td.set("action", action)
        self._env_step("mask_move", action)

    # -- (b) env's own sampler
    def do_random(self, tseed):
        torch.manual_seed(int(tseed))
        a = self._guard(self.env._random_action, self.td, what="random_action")
        if a is CRASH:
            return self._crashed()
        self._env_step("random", self.td["action"].clone())

    # -- (c) bundled policy
    def _policy_forward(self, decode, phase, label):
        pol = get_policy(self.pname, self.init["wseed"], self.init["spread"], self.popts)
        with torch.no_grad():
            out = self._guard(pol, self.td, self.env, phase=phase, decode_type=decode, what=label)
        return out

    def do_policy(self, decode, phase, tseed):
        torch.manual_seed(int(tseed))
        out = self._policy_forward(decode, phase, f"policy_{self.pname}")
        if out is CRASH:
            return self._crashed()
        self.ctx.event(f"policy:{self.pname}|{decode}")
        self._env_step("policy", self.td["action"].clone())

    # -- (d) bundled policy, stub decoder
    def do_stub(self, tgts, rowmul, mode):
        B, N = self.B, self.N
        pol = get_policy(self.pname, self.init["wseed"], self.init["spread"], self.popts)
        tg = [[tgts[i] + b * rowmul for b in range(B)] for i in range(len(tgts))]
        if self.pname == "dact":
            swaps = {"decoder": StubTD(tg[0], lambda td: (B, N, N))}
        elif self.pname == "n2s":
            swaps = {"removal_decoder": StubTD(tg[0], lambda td: (B, N // 2)),
                     "reinsertion_decoder": StubTD(tg[1], lambda td: (B, N, N))}
        elif mode == "tour":
            # preferences expressed in tour positions: step i prefers the node 2..4 places further along the
            # current tour than step i-1 (what the NeuOpt mask admits), so k distinct exchange points are common
            vt = self.td["visited_time"].long() % N
            pos = torch.tensor(tg[0], dtype=torch.long).unsqueeze(1)
            lgs = []
            for i in range(len(tgts)):
                if i > 0:
                    pos = pos + 2 + tgts[i] % 3
                lgs.append(-2.0 * ((vt - pos) % N).float() / N)
            swaps = {"decoder": StubRDS(lgs)}
        else:
            swaps = {"decoder": StubRDS([_PrefLogits.make(t, N) for t in tg])}
        saved = {k: getattr(pol, k) for k in swaps}
        try:
            for k, v in swaps.items():
                setattr(pol, k, v)
            out = self._policy_forward("greedy", "test", f"policy_{self.pname}")
        finally:
            for k, v in saved.items():
                setattr(pol, k, v)
        if out is CRASH:
            return self._crashed()
        self._env_step("stub", self.td["action"].clone())

    # -- (e) step_to_solution
    def do_to_solution(self, how, pseed):
        B, N = self.B, self.N
        if how == "reversed" and self.kind == "pdp":
            how = "perm"
        if how == "best":
            sol = self.td["rec_best"]  # passed un-cloned, as n_step_PPO does with CL_best
        elif how == "current":
            sol = self.td["rec_current"].clone()
        elif how == "reversed":
            sol = torch.tensor([perm_to_rec(cycle_from(r)[::-1]) for r in self.td["rec_current"].tolist()],
                               dtype=torch.long)
        else:
            g = torch.Generator().manual_seed(int(pseed))
            rows = []
            for b in range(B):
                seq = [0] + (torch.randperm(N - 1, generator=g) + 1).tolist()
                if self.kind == "pdp":
                    seq = pdp_fix(seq, N // 2)
                rows.append(perm_to_rec(seq))
            sol = torch.tensor(rows, dtype=torch.long)
        out = self._guard(self.env.step_to_solution, self.td, sol, what="step_to_solution")
        if out is CRASH:
            return self._crashed()
        self.td = out
        self.pending = ("to_solution", None)
        self.ops_used.add("to_solution")
        self.ctx.event(f"op:to_solution|{how}")
        if how != "best":
            self.ctx.check(torch.equal(self.td["rec_current"], sol), f"to_solution_not_adopted|{self.tr.name}",
                           "step_to_solution did not make the given tour the current one")

    # -- invariant
    def check(self):
        if self.pending is None:
            return
        op, action = self.pending
        self.pending = None
        if op == "reset":
            self.tr.start(self.td)
        else:
            self.tr.after(self.td, op, action)

    def finish(self):
        tr = self.tr
        if tr.steps == 0:
            return
        aliasing = any(tr.imp_then_worse)
        if aliasing:
            self.ctx.event("history:improve_then_worsen")
        if self.kind == "tsp" and self.k > 2 and self.k_distinct:
            self.ctx.event("history:k_distinct_points")
        self.ctx.event("history:rules_used=" + str(len(self.ops_used)))
        if aliasing and (self.kind == "pdp" or self.k == 2 or self.k_distinct):
            self.ctx.nontriv()


# --------------------------------------------------------------------------- strategies
U16 = st.integers(0, 2 ** 16 - 1)


@st.composite
def inits(draw, tier="quick"):
    nmax = 12 if tier == "quick" else 30
    kind = draw(st.sampled_from(["tsp", "tsp", "tsp", "pdp", "pdp"]))
    init = {"env": kind}
    if kind == "tsp":
        init["k"] = draw(st.sampled_from([2, 2, 3, 4, 5]))
        # (26-32 nodes: above the size from which torch's pairwise-distance kernels switch to the matmul formulation)
        init["n"] = draw(st.one_of(st.integers(4, 8), st.integers(4, nmax),
                                   st.integers(min(2 * init["k"] + 1, nmax), nmax), st.integers(26, 32)))
        N = init["n"]
    else:
        init["k"] = 0
        init["n"] = 2 * draw(st.one_of(st.integers(2, 4), st.integers(2, nmax // 2), st.integers(2, nmax // 2),
                                       st.integers(13, 16)))
        N = init["n"] + 1
    init["B"] = draw(st.sampled_from([1, 2, 2, 3, 4, 4]))
    init["init_sol"] = draw(st.sampled_from(["random", "greedy"]))
    init["coords"] = draw(st.sampled_from(["seed", "lattice"]))
    if init["coords"] == "lattice":
        init["pts"] = draw(st.lists(st.integers(0, 16), min_size=init["B"] * N * 2, max_size=init["B"] * N * 2))
    else:
        init["iseed"] = draw(st.integers(0, 2 ** 20))
    # map-style coordinates: the unit square translated far from the origin (generator options min_loc / max_loc, real
    # data sets); float32 still resolves the differences, so every length keeps its value up to ~1e-4 relative
    init["offset"] = draw(st.sampled_from([0, 0, 0, 100, 1000, -500]))
    init["rseed"] = draw(st.integers(0, 2 ** 20))
    init["wseed"] = draw(st.integers(0, 2))
    init["spread"] = draw(st.sampled_from([1.0, 2.0]))
    # constructor options of the bundled improvement policies (DACT / NeuOpt / N2S share them) and the env's stepping mode
    if draw(st.booleans()):
        init["pol"] = {"pos_type": draw(st.sampled_from(["CPE", "APE", "APE"])),
                       "normalization": draw(st.sampled_from(["layer", "batch", "instance"])),
                       "temperature": draw(st.sampled_from([1.0, 0.5, 2.0])),
                       "tanh_clipping": draw(st.sampled_from([6.0, 0.0, 2.0, 10.0]))}
    init["stepping"] = draw(st.sampled_from(["default", "default", "default", "torchrl", "torchrl_probe"]))
    return init


RULES = {
    "mask_move": {"c1": st.lists(U16, min_size=4, max_size=4), "c2": st.lists(U16, min_size=4, max_size=4)},
    "random": {"tseed": st.integers(0, 2 ** 20)},
    "policy": {"decode": st.sampled_from(["greedy", "sampling"]), "phase": st.sampled_from(["test", "train"]),
               "tseed": st.integers(0, 2 ** 20)},
    "stub": {"tgts": st.lists(U16, min_size=5, max_size=5), "rowmul": st.integers(0, 64),
             "mode": st.sampled_from(["node", "tour"])},
    "to_solution": {"how": st.sampled_from(["perm", "perm", "best", "current", "reversed"]),
                    "pseed": st.integers(0, 2 ** 20)},
}


# --------------------------------------------------------------------------- exhaustive 2-opt sub-check
@st.composite
def all_moves_cases(draw, tier="quick"):
    n = draw(st.integers(4, 7))
    case = {"n": n, "init_sol": draw(st.sampled_from(["random", "greedy"])),
            "coords": draw(st.sampled_from(["seed", "lattice"]))}
    if case["coords"] == "lattice":
        case["pts"] = draw(st.lists(st.integers(0, 16), min_size=2 * n, max_size=2 * n))
    else:
        case["iseed"] = draw(st.integers(0, 2 ** 20))
    case["rseed"] = draw(st.integers(0, 2 ** 20))
    case["state"] = draw(st.sampled_from(["reset", "tour", "tour+moves"]))
    case["tour"] = draw(st.permutations(list(range(1, n))))
    case["pre"] = draw(st.lists(st.tuples(st.integers(0, n - 1), st.integers(0, n - 1)).filter(lambda t: t[0] != t[1]),
                                min_size=0, max_size=3))
    return case


def execute_all_moves(case, ctx):
    """k=2, n<=7: every one of the n(n-1) admitted moves applied from one generated state.  Row r of the
    batch carries move r, all rows share instance and state."""
    from tensordict import TensorDict

    n = case["n"]
    moves = [(i, j) for i in range(n) for j in range(n) if i != j]
    B = len(moves)
    if case["coords"] == "lattice":
        one = torch.tensor(case["pts"], dtype=torch.float32).reshape(1, n, 2) / 16.0
    else:
        one = torch.rand(1, n, 2, generator=torch.Generator().manual_seed(int(case["iseed"])))
    locs = one.expand(B, n, 2).clone()
    h = C09Harness.__new__(C09Harness)  # only for _guard
    h.ctx, h.B = ctx, B
    env = build_env({"env": "tsp", "k": 2, "n": n, "init_sol": case["init_sol"]})
    tr = Tracker(ctx, "tsp", 2, locs.double().clone())
    torch.manual_seed(int(case["rseed"]))
    td = h._guard(env.reset, TensorDict({"locs": locs.clone()}, batch_size=[B]), what="reset")
    if td is CRASH:
        return
    if case["state"] == "reset":
        # rows may hold different random tours: make them share row 0's tour through the public entry point
        sol = td["rec_current"][:1].expand(B, n).clone()
        tr.start(td)
        td = h._guard(env.step_to_solution, td, sol, what="step_to_solution")
        tr.after(td, "to_solution")
    else:
        tr.start(td)
        sol = torch.tensor([perm_to_rec([0] + list(case["tour"]))], dtype=torch.long).expand(B, n).clone()
        td = h._guard(env.step_to_solution, td, sol, what="step_to_solution")
        tr.after(td, "to_solution")
        if case["state"] == "tour+moves":
            for f, s in case["pre"]:
                a = torch.tensor([[f, s]], dtype=torch.long).expand(B, 2).clone()
                td.set("action", a)
                td = h._guard(env.step, td, what="tsp_step")["next"]
                tr.after(td, "mask_move", a)
    mask = h._guard(env.get_mask, td, what="get_mask")
    adm = sorted(tuple(x) for x in torch.nonzero(mask[0], as_tuple=False).tolist())
    ctx.check(adm == moves and bool((mask == mask[:1]).all()), "mask_not_all_offdiagonal|tsp_k2",
              f"env mask admits {adm}, expected all i != j")
    a = torch.tensor(moves, dtype=torch.long)
    td.set("action", a)
    td = h._guard(env.step, td, what="tsp_step")["next"]
    tr.after(td, "all_moves", a)
    ctx.event(f"n={n}")
    ctx.event(f"state:{case['state']}")
    if tr.any_improve and tr.any_worsen:
        ctx.event("improving_and_worsening_moves_present")
        if case["state"] != "reset":
            ctx.nontriv()
    ctx.sample({k: v for k, v in case.items() if k != "pts"})


def all_moves_min(case):
    if case["state"] != "reset":
        yield {**case, "state": "reset"}
    if case["state"] == "tour+moves":
        yield {**case, "state": "tour"}
        for i in range(len(case["pre"])):
            yield {**case, "pre": case["pre"][:i] + case["pre"][i + 1:]}


def machine_min(case):
    """History minimiser: fewer operations first, then a smaller / plainer initial configuration."""
    yield from ops_minimizer(case)
    init = case["init"]

    def plain(**kw):
        i2 = {k: v for k, v in init.items() if k != "pts"}
        i2.update(coords="seed", iseed=init.get("iseed", 0))
        i2.update(kw)
        return {**case, "init": i2}

    lo = 4
    step = 2 if init["env"] == "pdp" else 1
    for n in (lo, init["n"] - step):
        if lo <= n < init["n"]:
            yield plain(n=n)
    for B in (2, init["B"] - 1):
        if 1 <= B < init["B"]:
            yield plain(B=B)
    if init["env"] == "tsp" and init["k"] > 3:
        yield plain(k=init["k"] - 1)
    if init["coords"] == "lattice":
        yield plain()
    if init.get("pol"):
        yield {**case, "init": {k_: v_ for k_, v_ in init.items() if k_ != "pol"}}
    if init.get("stepping", "default") != "default":
        yield {**case, "init": {**init, "stepping": "default"}}
    for key, val in (("iseed", 0), ("rseed", 0), ("wseed", 0), ("spread", 1.0), ("init_sol", "random")):
        if init.get(key, val) != val:
            yield {**case, "init": {**init, key: val}}


def preimport():
    import rl4co.envs.routing.pdp.env  # noqa
    import rl4co.envs.routing.tsp.env  # noqa
    import rl4co.models.zoo.dact.policy  # noqa
    import rl4co.models.zoo.n2s.policy  # noqa
    import rl4co.models.zoo.neuopt.policy  # noqa


SUBS = [
    Sub("machine", lambda case, ctx: run_history(C09Harness, case, ctx),
        machine=lambda ctx, tier, deadline: make_machine(C09Harness, inits(tier), RULES, ctx, deadline),
        budget={"quick": 6400, "thorough": 10000}, steps={"quick": 20, "thorough": 50},
        shrink=False, minimize=machine_min, weight=3.0),
    Sub("two_opt_all", execute_all_moves, strategy=lambda tier: all_moves_cases(tier),
        budget={"quick": 9600, "thorough": 20000}, shards=16, shrink=True, minimize=None),
]
