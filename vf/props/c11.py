"""C11 — returned log-likelihoods are those of the returned actions (evaluate round trip).

Code under test: ConstructivePolicy.forward, rl4co.utils.decoding (DecodingStrategy hooks / step, Evaluate,
get_log_likelihood), rl4co.utils.ops.calculate_entropy, the bundled decoders, PointerNetworkPolicy (eval_tours).

Oracle 1  reference decode loop (vf/models/decode.py): encoder once, decoder per step, float64 log-softmax over the
          mask with the documented tanh clipping / temperature, env.step with the *returned* actions.
          Decoding filters: top_k / top_p are part of the drawn decoding configuration (kwargs of the policy call and of
          the evaluate call).  The reference applies the documented order  tanh clipping -> mask -> /temperature ->
          top-k -> top-p -> log-softmax,  i.e. the step distribution is RENORMALISED over the kept entries
          (vf.models.decode.ref_filter); returned log-likelihoods / entropies are compared with that reference, the
          taken action must lie in the reference kept set, greedy decodes must still take the argmax, and the
          [R,N] log-prob tables that DecodingStrategy.step (evaluate strategy, documented `store_all_logp`) produces
          from the decoder's own logits must exponentiate to 1 and be -inf exactly outside the kept set.  Steps whose
          kept set hinges on float rounding (near-tie at the k-th value / nucleus cut, ref.ambig) are don't-care.
Oracle 2  evaluate round trip the way PPO does it: policy(td, env, actions=A, return_entropy=True,
          return_sum_log_likelihood=False) reproduces per-step log-probs, reward and entropy (ratio exp(ll'-ll) == 1).
Irrelevant-step flag: get_log_likelihood as a pure function, and end to end by injecting a [B,T] `mask` key into the
          reset td of fixed-length envs (every _step carries unknown keys through; verified here per case).

Policies with their own decoding loop (no DecodingStrategy, no evaluate path) have dedicated sub-checks:
`matnet_ffsp`  MultiStageFFSPPolicy.forward(td, env, phase, num_starts) on FFSPEnv(flatten_stages=False): the returned
          (summed) log_likelihood == sum over the steps of the reference log-prob of the returned action
          (vf/models/ffsp_ref.py: stage encoders once, the parent-class forward of the stage decoders per step, float64
          log-softmax of the tanh-clipped scores over td["action_mask"], env.step with the returned actions); forward
          hooks on the stage decoders show the per-step values the loop summed: each equals the reference, steps taken
          after a row has finished (only the wait action is offered) contribute exactly 0, the returned action is the
          choice of the decoder of the row's current stage; greedy == reference argmax at decisive steps; multi-start
          decodes additionally against a reference on the start-major expanded batch (no regrouping; float64 slice);
          reward == -makespan of the schedule the actions describe (FFSPOrderModel with the start's machine order +
          vf.oracles.scheduling.judge_ffsp) == reward of the independently replayed final state.
`mdam`    MDAMPolicy: the actions of every decoder path (get_reward spy) are inside the mask at every step, feasible for
          the independent oracle, reward column j == objective of path j's actions == env.get_reward on the replayed
          final state, returned actions == last path's, greedy == reference argmax at decisive steps, and per path
          log_likelihood == summed reference log-probs (vf/models/mdam_ref.py).  The last assertion hits the root cause
          of F40 (un-normalised scores are summed) on every path: see GATED_DEFECTS; behind it the value is still
          asserted to be the sum of the scores of the taken actions (gather alignment).
"""
import contextlib
import fnmatch
import math
import os
import signal

import hypothesis.strategies as st
import torch

from ..envs import SPECS, py_instance
from ..models.decode import reference_logprobs, reference_ptrnet
from ..play import judge_row, violated
from ..policies import (INFO, MDAM_PATHS, NO_FORCED_START, ZOO, DeterministicMatNetInit, StartFn, build_policy,
                        expand_starts, family, has_batchnorm, make_batch, resolve_setup, setup_dims, setup_events,
                        small_cfg)
from ..runner import Sub

PROPERTY = "C11"
RULE = (
    "case = (zoo entry policy x env, n 4-8, B 1-4, instance seed, policy seed, spread in {1.25,1.5,2,2.5}, decode mode in "
    "greedy / sampling(torch seed) / multistart_greedy / multistart_sampling (k <= n; optionally select_best) / "
    "multisample sampling (k), temperature in {1,0.5,2}, tanh clipping in {policy default,0,5,10} given as policy "
    "attribute or decoding kwarg, eval or train mode (dropout 0; train only without batch norm / noisy gating), "
    "return_sum on/off, return_entropy on/off, optional injected [B,T] step-relevance mask (tsp/atsp/pdp/smtwtp), "
    "float64 slice, decoding filters top_k in {0 x9,1,2,3} and top_p in {0 x9,0.5,0.8,0.95} for every mode (given as "
    "decoding kwargs to the generating call and to the evaluate call; not for ptrnet)). Filtered cases (top_k>0 or "
    "top_p>0) are counted (`filtered_case`); their non-trivial class is `filter_removed_feasible`: at some decoded step "
    "of some row the reference kept set is strictly smaller than the mask (the ratio of the two counters is the "
    "fraction to read); steps with a rounding-dependent kept set are counted as `steps_filter_ambiguous`. Non-trivial = some row has >= 2 decoded steps with >= 2 feasible actions and, for "
    "variable-length envs with >= 2 rows, rows finish at different steps; distinct = case hash. "
    "Decisive fraction (top-2 gap > 1e-4 among multi-choice steps) is reported as event counters. "
    "Zoo entries am/mdcpdp (fixed length n+2*depots-1; depots 1-3, reward/problem/distance modes by variant; no forced-start "
    "modes: its reset admits depot 0 only), am/dpp, am/mdpp (synthetic PDN data, chips 4x4/5x5/8x8, quota n-2). "
    "Round-3b dimensions of `policies` (optional case keys; class counters cfg:* / src:* / env:* / ctor:* / request:* / "
    "decode_type_via_phase / select_start_nodes_fn): env configuration = the frozen variant config or (1/2) small sizes + the "
    "size-neutral options of vf.envs.SPECS[env].cfg (vf.policies.env_cfgs: capacities, vehicle_capacity != 1, CVRPTW "
    "scale/max_time, SVRP tech_costs, OP prize_type/max_length, PDP force_start, mTSP agents/cost type, MTVRP "
    "preset/speed/scale_demand/backhaul_ratio/distance_limit, job-shop machines 1-3 / operations / processing times / "
    "mask_no_ops / stepwise_reward / check_mask, MDCPDP depots and modes); instance source generator or (1/4 of the wide "
    "configs) the spec's hand-built lattice / float / tight rows; env object built for another size than its instances (1/6, "
    "vf.envs.ENV_SHAPE_FREE); env handed to the policy as None or by name (1/8 where the default-built env is equivalent: "
    "tsp/cvrp/sdvrp/cvrptw/svrp/op); constructor switches of AttentionModelPolicy for am/am_pomo/symnco (1/2: mask_inner, "
    "linear_bias_decoder, out_bias_pointer_attn, check_nan, feedforward_hidden, torch vs the library's own simple "
    "scaled-dot-product attention given as sdpa_fn / sdpa_fn_encoder / sdpa_fn_decoder callable or string, constructor "
    "temperature / tanh_clipping - then mostly left untouched by the call: via=ctor); request form of a replicated decode "
    "(MS_FORMS / SAMPLE_FORMS: multistart_* name or multistart=/multisample= flags or plain greedy|sampling with "
    "num_starts, counts k / None=env default / 0 / 1, num_samples=1, greedy with num_samples) with the expected layout "
    "derived from the documented resolution rules (resolve_request); decode type through phase + <phase>_decode_type (1/4; "
    "other phases carry another type); caller-supplied select_start_nodes_fn (1/4 of the multistart cases: known feasible "
    "starts, rotated per case); L2D under multistart / multisample (k 2-4, forced starts random: read from the returned "
    "actions); zoo variants polynet_matnet/atsp, matnet_ctx/atsp (use_graph_context, bias), l2d_stepwise/jssp|fjsp, mvmoe_k1 | mvmoe_kall | "
    "mvmoe_enc/mtvrp, nar/tsp (NonAutoregressivePolicy on a stub heat-map encoder; no multisample), PointerNetworkPolicy "
    "constructor tanh_clipping 0|5|10 / mask_inner (1/2), MDAM with 2 or 3 paths. "
    "matnet_ffsp: case = (jobs 2-5, stages 1-3, machines per stage 2-3, run times < 3/5/10, B 1-4, seeds, spread, greedy | "
    "sampling taken from the <phase>_decode_type attribute of a drawn phase (the other phases carry the other type), "
    "num_starts 1 | 2 | 3 | 6 (<= machines!), eval/train mode, temperature kwarg, float64 slice 1/4); non-trivial = some row "
    "with >= 2 multi-choice steps and, with >= 2 rows, rows finishing at different steps (post-finish wait steps). "
    "mdam: case = (tsp|cvrp|op|pctsp, n 4-8, B 1-4, seeds, spread 1-1.5, greedy | sampling given as kwarg or through the "
    "phase attribute, capacity variant); non-trivial = some path with >= 2 multi-choice steps and (tsp or B=1 or rows "
    "finishing at different steps)."
)
ASSUMPTIONS = [
    "policies are the bundled classes at toy size (embed 32, 2 encoder layers; POMO config 6), spread-initialised, dropout 0",
    "reference loop trusts the bundled encoder/decoder modules and env.step, not DecodingStrategy / process_logits / "
    "get_log_likelihood / calculate_entropy",
    "float32 tolerance 1e-5*(1+|x|) per step (x steps for sums) plus K*eps*max|scaled logit| (K=8 same logits, 32 across "
    "layouts; only material without tanh clipping); multistart run vs re-evaluation on the expanded batch (and a "
    "select_best output vs its reference on the un-expanded batch) are different "
    "batch layouts: 1e-3 in float32 (rounding amplified by the spread-initialised encoders, measured 5e-4), 1e-9 in the "
    "float64 slice; float64 slice 1e-9 everywhere",
    "top-k / top-p: reference semantics are the documented ones of process_logits (top-k keeps every entry >= the k-th "
    "largest, ties included; top-p keeps the smallest high-probability prefix whose mass, under the distribution left by "
    "masking / temperature / top-k, reaches top_p; log-softmax over the kept entries). The kept set is ambiguous when a "
    "feasible entry lies within 1e-5*(1+max|z|) below the k-th value or the optimistic and pessimistic nuclei (band 1e-5 "
    "on values and on the cut; tied blocks straddling the cut) differ: per-step comparisons skip such steps, summed ones "
    "skip the row (counted). Comparisons between runs in different batch layouts (select_best, multistart re-evaluation) "
    "use the band 2e-3; a multistart re-evaluation is skipped (counted) when the returned action may fall outside the kept "
    "set of the other layout (evaluate mode asserts finite log-probs)",
    "the full step tables are not part of the policy output: the normalisation check drives DecodingStrategy.step "
    "(get_decoding_strategy('evaluate', store_all_logp=True, same temperature / clipping / top_k / top_p) the way "
    "ConstructivePolicy.forward does, on the logits and masks the bundled decoder produced along the returned actions",
    "MatNet's random one-hot init embedding replaced by a deterministic functionally identical module (DESIGN 2.5)",
    "multistart cases whose forced start node is infeasible at reset are C12's business (excluded, counted)",
    "evaluate mode has no forced-start notion: multistart outputs are re-evaluated on the start-major expanded batch "
    "(steps >= 1 against the multistart run, step 0 against the plain reference loop)",
    "PolyNet conditions on the start index: its multistart outputs are only checked against the reference loop, its "
    "multisample outputs are re-evaluated with the same num_starts / multisample kwargs",
    "AM/mtsp at B=1 (F7) and AM/mtsp multistart (F34) crashed; both are fixed and part of the asserted domain again",
    "genuine-defect candidates not yet in known_findings.json are counted as excluded (GATED_DEFECTS) until an entry for "
    "C11 matches their signature or VF_C11_DEFECT_SLICES=1: AM on dpp/mdpp in any [batch, starts] layout with "
    "B != starts (crash|policy|am/dpp|multi*, crash|policy|am/mdpp|multi*: DPPContext ignores the layout of td); "
    "MDAM's log-likelihood (ll_vs_reference|mdam/*: root cause of F40)",
    "am/dpp, am/mdpp run on synthetic PDN matrices (vf/eda.py); their reward has no independent oracle here (C08 / C03): "
    "only reward == env.get_reward on the replayed final state is asserted",
    "matnet_ffsp: MatNetInitEmbedding(RandomOneHot) of every stage encoder replaced by DeterministicMatNetInit (DESIGN "
    "2.5, asserted per case); the reference trusts the stage encoders, MatNetFFSPDecoder._precompute_cache, "
    "AttentionModelDecoder.forward, env.reset / pre_step / step - not the policy loop, MultiStageFFSPDecoder.forward, "
    "process_logits, decode_logprobs; start s of a multi-start decode sweeps the machines of every stage in the s-th "
    "lexicographic permutation (IndexTables; documented POMO-style augmentation); >= 2 machines per stage and >= 2 "
    "jobs (instance normalisation is undefined over a single element: torch raises ValueError)",
    "matnet_ffsp tolerances: float32 1e-5*(1+|x|) per step, x steps for sums; float64 slice 1e-9 per step (hooks), "
    "1e-6 x steps for the returned sum (the policy collects step values in a float32 buffer); the cross-layout "
    "reference is only asserted in the float64 slice (instance norm over 2-3 elements amplifies float32 layout "
    "rounding to 4e-3)",
    "request forms: the expected number of rollouts per instance and the forced first step follow the documented rules of "
    "DecodingStrategy (docstring + constructor comments: a `multistart` decode type or flag, num_starts / num_samples given "
    "-> flag := count > 1, count = num_starts under multistart else num_samples, default env.get_num_starts(td)); requests "
    "resolving to a count <= 1 are plain decodes (R = B, no forced move); default counts above 64 rows are excluded (counted); "
    "the job shops' default count is 100 (explicit counts only)",
    "select_start_nodes_fn is a harness function (vf.policies.StartFn) returning mask-feasible non-depot first moves in "
    "start-major order; asserted: called once as fn(td[B], env, k) and actions[:, 0] equal its answer (row r <-> instance r mod B)",
    "env=None / env name: the policy builds rl4co.envs.get_env(name) itself; the harness resets and replays with its own "
    "default-constructed env of that name; only configs whose env-side options are the constructor defaults (vehicle "
    "capacity 1, SVRP tech costs [1,2,3]); MTVRPEnv() / default FJSP, PCTSP, PDP, mTSP objects cannot take other shapes "
    "(probed) and are not drawn",
    "hand-built CVRPTW rows under a policy are unscaled (integer units; they saturate toy networks: ties, counted as "
    "non-decisive); FJSP/JSSP start rule is random (sample_n_random_actions): always mask-feasible, k=1 is F37 (not drawn)",
    "not drawn because unsupported on the pinned tree (probed): sdpa_fn='simple' as a STRING for the encoder (TypeError, "
    "the string form exists for the decoder only), MDAM(num_paths=1) (UnboundLocalError), NonAutoregressiveDecoder with "
    "multisample (IndexError), PolyNet under beam search (strategy vector tied to the row, C13)",
    "mdam: eval mode only (batch norm in the encoder); the reference trusts init embedding, encoder, "
    "MDAMDecoder._precompute / _get_logprobs and env.step - not MDAMDecoder.forward, decode_logprobs, get_log_likelihood",
]
TIME_CAP = {"quick": 400, "thorough": 3000}

DEFECT_SLICES = os.environ.get("VF_C11_DEFECT_SLICES", "0") == "1"
FIXED_LEN = ("tsp", "atsp", "pdp", "smtwtp", "mdcpdp", "dpp", "mdpp")
# genuine-defect candidates awaiting registration in known_findings.json (signature pattern -> exclusion label): the
# slice is counted as excluded until an entry of known_findings.json (any status) matches the signature for C11 or
# VF_C11_DEFECT_SLICES=1; from then on the assertion is live (open entry: counted as known finding; fixed: asserted)
GATED_DEFECTS = {
    "crash|policy|am/dpp|multi*": "am_dpp_multi_layout_crash(defect candidate)",
    "crash|policy|am/mdpp|multi*": "am_dpp_multi_layout_crash(defect candidate)",
    "ll_vs_reference|mdam/*": "mdam_ll_unnormalised(F40 root cause, pattern not registered for C11)",
}
VARLEN = ("cvrp", "cvrptw", "sdvrp", "svrp", "op", "pctsp", "spctsp", "mtvrp", "jssp", "fjsp")
NO_F64 = ("l2d", "mvmoe", "ptrnet")  # hard-coded float32 tensors inside (float64 inputs are not a documented use)
NORM_KEYS = ("am", "symnco", "ham")
MODES = ["greedy", "sampling", "multistart_greedy", "multistart_sampling", "multisample"]
TOP_K = [0] * 9 + [1, 2, 3]
TOP_P = [0.0] * 9 + [0.5, 0.8, 0.95]
# start rules that draw from the global RNG (FJSPEnv / JSSPEnv.select_start_nodes = sample_n_random_actions): the forced
# first moves of a multistart decode are read from out["actions"][:, 0] (always mask-feasible by construction)
RANDOM_STARTS = ("jssp", "fjsp")
# how a replicated decode is REQUESTED (audit item 15).  DecodingStrategy documents: `multistart` / `multisample` flags,
# "multistart" in the decode type sets the flag, num_starts / num_samples given -> the flag becomes (count > 1), the
# count of rollouts per instance is num_starts under multistart, else num_samples, default env.get_num_starts(td).
# Forms whose resolved count is <= 1 are plain decodes of the B instances (no expansion, no forced first move).
MS_FORMS = ["name+k"] * 4 + ["plain+k", "flag+k", "name", "flag", "name+none", "name+0", "name+1", "flag+1"]
SAMPLE_FORMS = ["samples=k"] * 3 + ["flag+k", "flag", "samples=1", "flag+1", "greedy+samples=k"]


def request_kwargs(mode, k, form):
    """Decoding kwargs (decode_type, num_starts, num_samples, multistart, multisample) of a drawn request form."""
    base = "greedy" if "greedy" in mode else "sampling"
    if mode.startswith("multistart"):
        return {"name+k": dict(decode_type=mode, num_starts=k), "plain+k": dict(decode_type=base, num_starts=k),
                "flag+k": dict(decode_type=base, multistart=True, num_starts=k), "name": dict(decode_type=mode),
                "flag": dict(decode_type=base, multistart=True), "name+none": dict(decode_type=mode, num_starts=None),
                "name+0": dict(decode_type=mode, num_starts=0), "name+1": dict(decode_type=mode, num_starts=1),
                "flag+1": dict(decode_type=base, multistart=True, num_starts=1)}[form or "name+k"]
    if mode == "multisample":
        return {"samples=k": dict(decode_type="sampling", num_samples=k),
                "flag+k": dict(decode_type="sampling", multisample=True, num_samples=k),
                "flag": dict(decode_type="sampling", multisample=True),
                "samples=1": dict(decode_type="sampling", num_samples=1),
                "flag+1": dict(decode_type="sampling", multisample=True, num_samples=1),
                "greedy+samples=k": dict(decode_type="greedy", num_samples=k)}[form or "samples=k"]
    return dict(decode_type=mode)


def resolve_request(kw, default_k):
    """The documented resolution rules of DecodingStrategy (harness-side statement) -> (multistart, multisample, k):
    k rollouts per instance, 0 = plain decode of the batch."""
    dt = kw["decode_type"]
    ms = ("multistart" in dt) or bool(kw.get("multistart", False))
    msa = bool(kw.get("multisample", False))
    ns, nsa = kw.get("num_starts"), kw.get("num_samples")
    if nsa is not None:
        msa = nsa > 1
    if ns is not None:
        ms = ns > 1
    k = ns if ms else nsa
    if ms or msa:
        k = int(default_k) if k is None else int(k)
    else:
        k = 0
    return bool(ms), bool(msa and not ms), k


# --------------------------------------------------------------------------- strategy
@st.composite
def cases(draw, tier="quick"):
    key, envn = draw(st.sampled_from(ZOO))
    n = draw(st.integers(4, 8))
    B = draw(st.integers(1, 4))
    info = INFO[key]
    modes = ["greedy", "sampling", "sampling"]
    fam = family(key)  # (variants share the special rules of their family: float64 support, start-index conditioning)
    if info["multistart"] or envn in RANDOM_STARTS:
        modes += ["multistart_greedy", "multistart_sampling", "multistart_sampling", "multisample"]
        if fam == "polynet":
            modes += ["multisample"]
    if info.get("no_multisample"):
        modes = [m for m in modes if m != "multisample"]
    if envn in NO_FORCED_START:
        modes = [m for m in modes if not m.startswith("multistart")]
    mode = draw(st.sampled_from(modes))
    kmax = n // 2 if envn == "pdp" else n
    k = draw(st.integers(2, max(2, min(kmax, 4)))) if mode.startswith("multi") else 0
    case = dict(
        zoo=[key, envn], n=n, B=B, iseed=draw(st.integers(0, 2 ** 20)), pseed=draw(st.integers(0, 3)),
        mode=mode, k=k, tseed=draw(st.integers(0, 2 ** 20)),
        temperature=draw(st.sampled_from([1.0, 1.0, 0.5, 2.0])),
        tanh=draw(st.sampled_from([None, None, 0.0, 5.0, 10.0])),
        via=draw(st.sampled_from(["attr", "attr", "kwargs"])),
        train=draw(st.booleans()), ret_sum=draw(st.booleans()), ret_entropy=draw(st.booleans()),
        select_best=(draw(st.integers(0, 3)) == 0) if mode.startswith("multistart") and fam != "polynet" else False,
        norm=draw(st.sampled_from([None, None, "instance", "layer"])) if key in NORM_KEYS else None,
        variant=draw(st.integers(0, 3)),
        f64=(draw(st.integers(0, 7 if tier == "quick" else 3)) == 0) and fam not in NO_F64,
    )
    # without clipping large spreads saturate the softmax (p ~ 1 everywhere): keep the spread moderate there
    unclipped = case["tanh"] == 0.0 or (case["tanh"] is None and fam not in ("am", "am_pomo", "symnco", "ham", "polynet",
                                                                           "l2d", "mvmoe", "ptrnet"))
    case["spread"] = draw(st.sampled_from([1.25, 1.5] if unclipped else [1.25, 1.5, 1.5, 2.0, 2.5]))
    if key != "ptrnet":  # decoding filters (DecodingStrategy kwargs); PointerNetworkPolicy has its own loop without them
        case["top_k"] = draw(st.sampled_from(TOP_K))
        case["top_p"] = draw(st.sampled_from(TOP_P))
    if envn in FIXED_LEN and key != "ptrnet" and draw(st.integers(0, 2)) == 0:
        case["stepmask"] = draw(st.lists(st.booleans(), min_size=4, max_size=24))
    if key != "ptrnet" and mode.startswith("multistart") and draw(st.integers(0, 2)) == 0:
        case["warm_split"] = True
    # (not for the non-autoregressive decoder: it reads td["action"] as "the previous action" by design, so a td that
    #  carries a stored rollout is not an input it supports - no bundled model pairs it with PPO)
    if key not in ("ptrnet", "nar", "nar_coarse") and not mode.startswith("multi") and draw(st.integers(0, 2)) == 0:
        case["td_ppo"] = True
    if key != "ptrnet" and draw(st.integers(0, 2)) == 0:
        # the evaluate call of the round trip also carries a decode_type (a caller forwarding one set of decoding kwargs
        # to rollout and re-evaluation): given actions are evaluated whatever decode type is named
        case["eval_dt"] = draw(st.sampled_from(["sampling", "greedy", "multistart_sampling"]))
    if key == "ptrnet":
        if draw(st.booleans()):  # constructor options of PointerNetworkPolicy (its call ignores temperature / tanh kwargs)
            case["opts"] = {"ptr_tanh": draw(st.sampled_from([0.0, 5.0, 10.0])), "ptr_mask_inner": draw(st.booleans())}
        return case
    # ---- how the decode is requested: request form of replicated decodes (flag resolution, degenerate counts, default
    # counts; the default count of the job shops is 100 rollouts per instance: explicit counts only there), decode
    # type through `phase` + `<phase>_decode_type` instead of the decode_type kwarg, a caller-supplied start rule
    if mode.startswith("multistart"):
        forms = [f for f in MS_FORMS if not (envn in RANDOM_STARTS and f in ("name", "flag", "name+none"))]
        case["form"] = draw(st.sampled_from(forms))
        if case["form"] in ("name+0", "name+1", "flag+1"):
            case["select_best"] = False
        if draw(st.integers(0, 3)) == 0:
            case["ssn"] = draw(st.integers(0, 7))
    elif mode == "multisample":
        forms = [f for f in SAMPLE_FORMS if not (envn in RANDOM_STARTS and f == "flag")
                 and not (fam == "polynet" and f not in ("samples=k", "flag+k"))]
        case["form"] = draw(st.sampled_from(forms))
    if draw(st.integers(0, 3)) == 0:
        case["dt_via"] = "phase"
        case["phase"] = draw(st.sampled_from(["train", "val", "test"]))
    # ---- env configuration / instance source / env built for another size / env given by name / constructor switches
    if envn not in ("dpp", "mdpp"):
        base = env_cfg(envn, n, case["variant"])
        case.update(draw(setup_dims(key, envn, n, base, B, tier)))
        if case.get("opts") and ("ctor_temperature" in case["opts"] or "ctor_tanh" in case["opts"]) \
                and draw(st.integers(0, 2)) != 0:
            case["via"] = "ctor"  # temperature / tanh clipping are what the policy was constructed with
    return case


def env_cfg(envn, n, variant):
    cfg = small_cfg(envn, n)
    v = int(variant)
    if envn == "pdp":
        cfg["force_start"] = v == 1
    elif envn == "mtsp":
        cfg["cost_type"] = "sum" if v == 1 else "minmax"
    elif envn == "mtvrp":
        cfg["variant"] = ["all", "cvrp", "ovrptw", "vrpbl"][v]
    elif envn in ("cvrp", "sdvrp"):
        cfg["capacity"] = [None, None, 10.0, 20.0][v]
    elif envn == "atsp":
        cfg["tmat"] = v != 1
    elif envn == "mdcpdp":
        cfg.update([dict(), dict(reward_mode="lateness", problem_mode="open"), dict(depots=3, reward_mode="minsum", dist_mode="L1"),
                    dict(depots=1, reward_mode="lateness", lw=1.0, max_cap=3)][v])
    elif envn == "mdpp":
        cfg["reward_type"] = "meansum" if v == 1 else "minmax"
    elif envn == "ffsp":
        cfg.update([dict(), dict(stages=1, mas=2), dict(stages=3, mas=2), dict(stages=2, mas=3)][v])
    return cfg


def fixed_len(envn, cfg):
    """Episode length of the fixed-length envs (every row of every batch takes exactly this many steps)."""
    if envn == "mdcpdp":
        return cfg["n"] + 2 * cfg["depots"] - 1
    if envn in ("dpp", "mdpp"):
        return cfg["k"]
    return cfg["n"] + (1 if (envn == "pdp" and cfg["force_start"]) else 0)


def gated(ctx, sig):
    """-> exclusion label if `sig` belongs to a defect candidate that is not registered (see GATED_DEFECTS), else None."""
    for pat, label in GATED_DEFECTS.items():
        if fnmatch.fnmatchcase(sig, pat):
            if DEFECT_SLICES:
                return None
            for e in ctx.known.entries:
                props = e["property"] if isinstance(e["property"], list) else [e["property"]]
                pats = e["signature"] if isinstance(e["signature"], list) else [e["signature"]]
                if PROPERTY in props and any(fnmatch.fnmatchcase(sig, q) for q in pats):
                    return None
            return label
    return None


def minimize(case):
    c = dict(case)
    if c["B"] > 1:
        yield {**c, "B": c["B"] - 1}
        yield {**c, "B": 1}
    if c["n"] > 4:
        yield {**c, "n": c["n"] - 1, "k": min(c["k"], max(2, (c["n"] - 1) // 2 if c["zoo"][1] == "pdp" else c["n"] - 1)) if c["k"] else 0}
    if c["k"] > 2:
        yield {**c, "k": 2}
    for key, val in (("stepmask", None), ("f64", False), ("train", False), ("ret_entropy", False), ("ret_sum", False),
                     ("select_best", False), ("via", "attr"), ("temperature", 1.0), ("tanh", None), ("norm", None),
                     ("variant", 0), ("spread", 1.5), ("pseed", 0), ("top_k", 0), ("top_p", 0.0)):
        if key == "stepmask":
            if "stepmask" in c:
                yield {kk: vv for kk, vv in c.items() if kk != "stepmask"}
        elif key in ("top_k", "top_p"):
            if c.get(key):
                yield {**c, key: val}
        elif c.get(key) != val:
            yield {**c, key: val}
    if c["mode"] == "sampling":
        yield {**c, "mode": "greedy"}
    if c["mode"] == "multistart_sampling":
        yield {**c, "mode": "multistart_greedy"}


# --------------------------------------------------------------------------- helpers
class Hang(BaseException):
    """Raised by the watchdog (BaseException so that ctx.guard does not turn it into a crash signature)."""


HANG_S = 300  # a toy-size policy call takes ~10-50 ms: three to four orders of magnitude of head room, so that machine load
# can never turn into a verdict; decoding loops that never reach `done` would otherwise stall a shard


def watchdog(seconds=None):
    """Wall-clock guard around policy calls (nest-safe, shared implementation in vf.runner)."""
    from ..runner import time_limit
    return time_limit(HANG_S if seconds is None else seconds, Hang)


def _close(a, b, tol, scale=1.0, slack=0.0):
    """|a-b| <= tol*scale*(1+|b|) + slack;  slack = K*eps*max|scaled logit| accounts for the float rounding of
    log-softmax / of the logits themselves, which grows with the logit magnitude (material only without clipping)."""
    a, b = a.double(), b.double()
    return bool(((a - b).abs() <= tol * scale * (1 + b.abs()) + slack).all())


def _maxdiff(a, b):
    d = (a.double() - b.double()).abs()
    return float(d.max()) if d.numel() else 0.0


def _defaults(policy):
    if not hasattr(policy, "_vf_defaults"):
        policy._vf_defaults = (getattr(policy, "temperature", 1.0), getattr(policy, "tanh_clipping", 0.0))
    return policy._vf_defaults


def _strategy_tables(ctx, policy, ref, A, Tm, C, top_k, top_p, slice_, tol, eps):
    """Whole step distributions: drive DecodingStrategy.step the way ConstructivePolicy.forward does (evaluate strategy,
    documented `store_all_logp=True`, same temperature / clipping / filters) on the logits and masks the bundled decoder
    produced along the returned actions (ref.tables).  Every [R,N] table must be a probability distribution supported
    exactly on the reference kept set and equal the reference log-probs there (rows with a rounding-dependent kept set
    are skipped)."""
    from rl4co.utils.decoding import get_decoding_strategy
    from tensordict import TensorDict

    R = A.shape[0]
    strat = get_decoding_strategy("evaluate", temperature=Tm, tanh_clipping=C, mask_logits=policy.mask_logits, top_k=top_k,
                                  top_p=top_p, store_all_logp=True)
    td_ = TensorDict({}, batch_size=[R])
    ninf = -math.inf
    for t, tab in enumerate(ref.tables):
        if tab is None:
            continue
        n_before = len(strat.logprobs)
        ctx.guard(strat.step, tab["logits"].clone(), tab["mask"].clone(), td_, action=A[:, t].clone(),
                  what=f"strategy_step|{slice_}")
        if len(strat.logprobs) != n_before + 1 or tuple(strat.logprobs[-1].shape) != tuple(tab["lp"].shape):
            raise RuntimeError("store_all_logp channel broken: no [R,N] table recorded for the step")
        got = strat.logprobs[-1].detach()
        rows = ~ref.ambig[:, t]
        if not bool(rows.any()):
            continue
        g, w = got[rows].double(), tab["lp"][rows]
        kept = w > ninf
        ctx.check(not bool(torch.isnan(g).any()) and bool(((g > ninf) == kept).all()), f"kept_set|{slice_}",
                  f"step {t}: the support of the step distribution is not the reference kept set of top_k={top_k} / "
                  f"top_p={top_p}", {"step": t, "got": g, "reference": w})
        total = g.exp().sum(-1)
        ctx.check(bool(((total - 1).abs() <= (1e-9 if tol < 1e-8 else 1e-5)).all()), f"not_normalised|{slice_}",
                  f"step {t}: probabilities of the step distribution sum to {total.tolist()} (top_k={top_k}, top_p={top_p})",
                  {"step": t, "got": g, "reference": w})
        sl = (8 * eps * ref.scale[rows, t]).view(-1, 1).expand_as(w)
        ctx.check(_close(g[kept], w[kept], tol, 1.0, sl[kept]), f"table_vs_reference|{slice_}",
                  f"step {t}: log-probs of the kept entries differ from the renormalised reference by "
                  f"{_maxdiff(g[kept], w[kept]):.3e}", {"step": t, "got": g, "reference": w})
    ctx.event("strategy_tables_checked")


# --------------------------------------------------------------------------- main check
def execute(case, ctx):
    key, envn = case["zoo"]
    if "mvmoe" in key:
        from ..policies import moe_watch
        moe_watch(ctx)  # expert choices within float32 rounding are don't-care (vf.policies, MoE gates)
    mode, B = case["mode"], int(case["B"])
    f64 = bool(case["f64"])
    slice_ = f"{key}/{envn}|{mode}" + ("|B=1" if (envn == "mtsp" and B == 1) else "")
    ctx.event(f"zoo:{key}/{envn}|{mode}")
    ctx.event(f"mode:{mode}")

    # am/mtsp at B=1 (F7) is repaired in the repository and therefore part of the asserted domain again;
    # am/mtsp with multistart / multisample crashes in MTSPContext (known finding F34): those cases are run,
    # matched by signature against known_findings.json and counted, so the search continues behind them.

    cfg, mkw = resolve_setup(case, env_cfg(envn, case["n"], case["variant"]))
    if envn == "pdp" and mode.startswith("multistart") and not case.get("ecfg"):
        cfg["force_start"] = False  # pickups can only be forced first moves with a free start
    env, inst, td0 = make_batch(envn, cfg, B, case["iseed"], double=f64, **mkw)
    policy = build_policy(key, envn, env, seed=case["pseed"], spread=case["spread"], double=f64, norm=case["norm"],
                          opts=case.get("opts"))
    if key == "ptrnet":
        try:
            with watchdog():
                return execute_ptrnet(case, ctx, env, inst, td0, policy, cfg)
        except Hang:
            ctx.violation("hang|ptrnet/tsp", f"policy call did not return within {HANG_S}s at toy size")
            return
    setup_events(ctx, case, envn, cfg)

    # ---- the request and what it resolves to under the documented rules
    req = request_kwargs(mode, int(case["k"]), case.get("form"))
    multistart, multisample, k = resolve_request(req, env.get_num_starts(td0) if envn not in RANDOM_STARTS else 0)
    if case.get("form"):
        ctx.event(f"request:{case['form']}")
        ctx.event("request_resolves_to:" + ("multistart" if multistart else "multisample" if multisample else "plain"))
    if (multistart or multisample) and k < 2:
        ctx.exclude("default_count<2")
        return
    if k * B > 64:
        ctx.exclude("default_count_too_large_for_the_toy_budget")
        return

    dT, dC = _defaults(policy)
    via = case["via"]
    if via == "ctor":
        Tm, C = float(dT), float(dC)
    else:
        Tm = float(case["temperature"])
        C = float(dC if case["tanh"] is None else case["tanh"])
    tkw = {}
    if via == "attr":
        policy.temperature, policy.tanh_clipping = Tm, C
    else:
        policy.temperature, policy.tanh_clipping = dT, dC
        if via == "kwargs":
            tkw = dict(temperature=Tm, tanh_clipping=C)
    # decoding filters: always decoding kwargs (there is no policy attribute for them), for the generating call AND the
    # evaluate call; cases recorded before the filters were drawn carry no such keys
    top_k, top_p = int(case.get("top_k", 0) or 0), float(case.get("top_p", 0.0) or 0.0)
    if top_k > 0:
        tkw["top_k"] = top_k
    if top_p > 0:
        tkw["top_p"] = top_p
    if top_k > 0 or top_p > 0:
        ctx.event("filtered_case")
        ctx.event(f"filter:top_k={top_k}|top_p={top_p}")
        ctx.event(f"filtered_mode:{mode}")
    train = bool(case["train"]) and not has_batchnorm(policy) and not INFO[key].get("eval_only", False)
    tol = 1e-9 if f64 else 1e-5
    ctx.event("train_mode" if train else "eval_mode")
    if f64:
        ctx.event("float64")

    # step-relevance mask injected into the reset td (fixed-length envs)
    stepmask = None
    if case.get("stepmask") is not None and envn in FIXED_LEN:
        Tfix = fixed_len(envn, cfg)
        bits = case["stepmask"]
        stepmask = torch.tensor([[bits[(b * Tfix + t) % len(bits)] for t in range(Tfix)] for b in range(B)],
                                dtype=torch.bool)
        td0 = td0.clone()
        td0.set("mask", stepmask)
        ctx.event("stepmask_injected")

    # multistart: forced start nodes must be feasible at reset (otherwise C12's business)
    ssn = None
    if multistart:
        first = 1 if SPECS[envn].has_depot_action else 0
        if case.get("ssn") is not None:
            # a caller-supplied start rule (select_start_nodes_fn): feasible non-depot first moves of every instance
            if not bool(td0["action_mask"][:, first:].any(-1).all()):
                ctx.exclude("no_feasible_first_move_but_the_depot(C12)")
                return
            ssn = StartFn(case["ssn"], first)
            ctx.event("select_start_nodes_fn")
        elif envn not in RANDOM_STARTS:
            if not bool(td0["action_mask"][:, first:].any(-1).all()):
                ctx.exclude("no_feasible_first_move_but_the_depot(C12)")
                return
            torch.manual_seed(case["tseed"])
            a0 = ctx.guard(env.select_start_nodes, td0.clone(), num_starts=k, what=f"select_start_nodes|{envn}")
            m0 = expand_starts(td0, k)["action_mask"]
            if a0.shape[0] != m0.shape[0] or int(a0.max()) >= m0.shape[1] or int(a0.min()) < 0 \
                    or not bool(m0.gather(1, a0.view(-1, 1)).all()):
                ctx.exclude("forced_start_infeasible(C12)")
                return
        else:
            ctx.event("random_start_rule(starts read from the returned actions)")

    kw = dict(return_actions=True, return_sum_log_likelihood=bool(case["ret_sum"]),
              return_entropy=bool(case["ret_entropy"]), **tkw)
    rkw = dict(req)
    saved_types = None
    if case.get("dt_via") == "phase":
        # decode type from the `<phase>_decode_type` attribute of the requested phase; the other phases carry another type
        ph = case["phase"]
        dt = rkw.pop("decode_type")
        other = "greedy" if "sampling" in dt else "sampling"
        saved_types = {p_: getattr(policy, f"{p_}_decode_type") for p_ in ("train", "val", "test")}
        for p_ in saved_types:
            setattr(policy, f"{p_}_decode_type", dt if p_ == ph else other)
        kw["phase"] = ph
        ctx.event("decode_type_via_phase")
        ctx.event(f"decode_type_via_phase:{ph}")
    kw.update(rkw)
    if multistart and case["select_best"]:
        kw.update(select_best=True)
    if ssn is not None:
        kw["select_start_nodes_fn"] = ssn
    select_best = multistart and bool(case["select_best"])

    if envn in ("dpp", "mdpp") and (multistart or multisample) and B != k:
        # AM on DPP/MDPP: DPPContext returns a [B, embed] context whatever the layout of td, so every decode in the
        # [B, starts] layout (multistart / multisample / beam search) raises a broadcast error unless B == starts
        lab = gated(ctx, f"crash|policy|{slice_}|RuntimeError|*")
        if lab is not None:
            ctx.exclude(lab)
            return

    kw["max_steps"] = 6 * case["n"] + 24  # documented safety valve of forward(); far above any episode length here
    # the env as the policy gets it: the env object, or None / its name (the policy then builds get_env(name) itself;
    # `env` is the harness' own default-constructed env of that name, used by the reference and the oracles)
    env_arg = {"object": env, "none": None, "name": envn}[case.get("env_via", "object")]
    policy.train(train)
    try:
        with watchdog():
            _run(case, ctx, env, inst, td0, policy, cfg, kw, tkw, slice_, tol, Tm, C, stepmask, select_best,
                 (multistart, multisample, k), ssn, env_arg, rkw)
    except Hang:
        ctx.violation(f"hang|{slice_}", f"policy call / re-evaluation did not return within {HANG_S}s at toy size")
    finally:
        policy.eval()
        policy.temperature, policy.tanh_clipping = dT, dC
        if saved_types is not None:
            for p_, v in saved_types.items():
                setattr(policy, f"{p_}_decode_type", v)


def _run(case, ctx, env, inst, td0, policy, cfg, kw, tkw, slice_, tol, Tm, C, stepmask, select_best, resolved=None,
         ssn=None, env_arg=None, rkw=None):
    key, envn = case["zoo"]
    mode, B = case["mode"], int(case["B"])
    if resolved is None:
        resolved = (mode.startswith("multistart"), mode == "multisample", int(case["k"]))
    multistart, multisample, k = resolved
    if env_arg is None and case.get("env_via", "object") == "object":
        env_arg = env
    ksteps = k if (multistart or multisample) else 0
    top_k, top_p = int(case.get("top_k", 0) or 0), float(case.get("top_p", 0.0) or 0.0)
    filtered = top_k > 0 or top_p > 0
    fkw = dict(top_k=top_k, top_p=top_p)
    ninf = -math.inf

    if case.get("warm_split") and multistart and k >= 2 and B * k <= 64:
        # history: the same policy object first decodes ANOTHER batch with the same number of rows in another layout
        # (k instances x B starts, or B*k instances decoded plainly) - nothing of that call may leak into the next one
        with torch.no_grad():
            swapped = 2 <= B < k and ssn is None
            if swapped:
                # (forced starts of the warm-up must be feasible, as for the main call: start-rule findings are C12's)
                tdw = td0[torch.arange(k) % B].clone()
                state = torch.get_rng_state()
                try:
                    a0 = env.select_start_nodes(tdw.clone(), num_starts=B)
                    m0 = expand_starts(tdw, B)["action_mask"]
                    swapped = (a0.shape[0] == m0.shape[0] and int(a0.max()) < m0.shape[1] and int(a0.min()) >= 0
                               and bool(m0.gather(1, a0.view(-1, 1)).all()))
                except Exception:
                    swapped = False
                torch.set_rng_state(state)
            if swapped:
                ctx.guard(policy, tdw, env_arg, what=f"policy_other_split_first|{slice_}", decode_type="multistart_greedy",
                          num_starts=B, **tkw)
                ctx.event("history:other_split_first|swapped")
            else:
                tdw = td0[torch.arange(B * k) % B].clone()
                ctx.guard(policy, tdw, env_arg, what=f"policy_other_split_first|{slice_}", decode_type="greedy", **tkw)
                ctx.event("history:other_split_first|plain_rows")
    torch.manual_seed(case["tseed"])
    opts0 = (policy.temperature, policy.tanh_clipping, getattr(policy, "mask_logits", None))
    with torch.no_grad():
        out = ctx.guard(policy, td0.clone(), env_arg, what=f"policy|{slice_}", **kw)
    # per-call decoding options are options of the CALL: the policy's configured defaults stay what they were
    opts1 = (policy.temperature, policy.tanh_clipping, getattr(policy, "mask_logits", None))
    ctx.check(opts1 == opts0, f"policy_options_changed_by_call|{slice_}",
              f"(temperature, tanh_clipping, mask_logits) of the policy object were {opts0} before the call with decoding "
              f"kwargs {sorted(k_ for k_ in kw if k_ in ('temperature', 'tanh_clipping', 'mask_logits'))} and are {opts1} after it")
    A = out["actions"]
    R = B if (select_best or ksteps == 0) else B * k
    T = A.shape[1]
    ll = out["log_likelihood"]
    ctx.check(A.shape[0] == R and out["reward"].reshape(-1).shape[0] == R and ll.shape[0] == R
              and (ll.dim() == 1 if case["ret_sum"] else tuple(ll.shape) == (R, T)),
              f"shape|{slice_}", f"actions {tuple(A.shape)} ll {tuple(ll.shape)} reward {tuple(out['reward'].shape)} for R={R}"
              + (f" (request {case['form']}: {rkw} resolves to "
                 f"{'multistart' if multistart else 'multisample' if multisample else 'a plain decode'}, {k} per instance)"
                 if case.get("form") else ""))
    if ssn is not None:
        # the caller's start rule replaces the env's: called once as fn(td, env, num_starts) on the un-expanded batch; its
        # answer (start-major: row j*B + b = start j of instance b) is what every rollout starts with
        ctx.check(len(ssn.calls) == 1 and ssn.calls[0][0] == B and ssn.calls[0][2] == k
                  and (env_arg is None or isinstance(env_arg, str) or ssn.calls[0][1] is env_arg),
                  f"start_fn_call|{slice_}",
                  f"select_start_nodes_fn was called {len(ssn.calls)}x with (batch, env, num_starts) = "
                  f"{[(c[0], type(c[1]).__name__, c[2]) for c in ssn.calls]} (expected one call (B={B}, the env, {k}))")
        if ssn.out is not None and A.shape[0] == R:
            S = ssn.out.view(k, B)
            if select_best:
                ok_s = all(int(A[b, 0]) in S[:, b].tolist() for b in range(B))
            else:
                ok_s = torch.equal(A[:, 0].long(), ssn.out)
            ctx.check(ok_s, f"start_fn_not_used|{slice_}",
                      f"first actions {A[:, 0].tolist()} are not the starts the caller's select_start_nodes_fn handed out "
                      f"({ssn.out.tolist()}, row j*B+b = start j of instance b)", {"actions": A, "starts": ssn.out})

    # ---- Oracle 1: reference loop on the returned actions
    if select_best:
        # best start per instance: steps >= 1 are ordinary decoding steps of the un-expanded batch
        ref = reference_logprobs(policy, env, td0, A, num_starts=0, temperature=Tm, tanh_clipping=C, keep_tables=filtered,
                                 **fkw)
        want = ref.logp.clone()
        want[:, 0] = 0.0
        ent_steps = ref.entropy.clone()
        ent_steps[:, 0] = 0.0
        forced0 = True
        # this reference runs in the [B] layout, the generating call in [B, starts]: wide ambiguity band
        amb = ref.ambig_x.clone()
        amb[:, 0] = False
    else:
        ref = reference_logprobs(policy, env, td0, A, num_starts=ksteps, forced_first=multistart, temperature=Tm,
                                 tanh_clipping=C, keep_tables=filtered, **fkw)
        want = ref.logp
        ent_steps = ref.entropy
        forced0 = multistart
        amb = ref.ambig
    # steps whose kept set (top-k / top-p) hinges on float rounding are don't-care: per-step comparisons skip the step,
    # summed ones the row (all True without filters)
    okst = ~amb
    okrow = okst.all(1)
    decoded = ~ref.forced.view(1, -1).expand(ref.nfeas.shape[0], T)
    if select_best:
        decoded = decoded.clone()
        decoded[:, 0] = False
    ctx.check(bool(ref.in_mask.all()), f"action_outside_mask|{slice_}", "a returned action was not in the action mask",
              {"actions": A, "in_mask": ref.in_mask})
    ctx.check(ref.mask_ok, f"decoder_mask_mismatch|{slice_}", "decoder-returned mask differs from td['action_mask']")
    # (with select_best the kept starts may all finish before the slowest discarded start did)
    ctx.check(ref.all_done_at is not None and (ref.all_done_at == T or (select_best and ref.all_done_at <= T)),
              f"episode_length|{slice_}",
              f"returned {T} steps but replaying them finishes every row after {ref.all_done_at}")
    smask = None
    if stepmask is not None:
        if "mask" not in ref.td.keys():
            ctx.exclude("stepmask_dropped_by_env")
        else:
            smask = stepmask if R == B else expand_starts(td0, k)["mask"]
            ctx.check(torch.equal(ref.td["mask"], smask), f"stepmask_changed|{envn}", "env.step altered the injected mask key")
            want = torch.where(smask, want, torch.zeros_like(want))
    T_scale = max(1, T)
    eps = 2.0 ** -52 if tol < 1e-8 else 2.0 ** -23
    sl1 = 8 * eps * ref.scale      # same logits, float log-softmax only
    tol1 = tol
    if select_best:
        # the reference of a select_best output runs on the un-expanded batch [B], the generating call in [B, starts]:
        # different batch layouts (see the round trip below; 2.3e-4 observed on am/cvrp n=7, spread 2.5, 1e-9 in float64)
        tol1 = 1e-9 if tol < 1e-8 else 1e-3
        sl1 = 32 * eps * ref.scale
    if filtered:
        # the action actually taken lies in the support of the filtered step distribution
        ctx.check(bool((want[okst] > ninf).all()), f"action_filtered_out|{slice_}",
                  f"a returned action lies outside the reference kept set of top_k={top_k} / top_p={top_p}",
                  {"actions": A, "reference": want, "ambiguous": amb})
    if case["ret_sum"]:
        ok = _close(ll[okrow], want.sum(1)[okrow], tol1, T_scale, sl1.sum(1)[okrow])
    else:
        ok = _close(ll[okst], want[okst], tol1, 1.0, sl1[okst])
    if not ok:
        ctx.violation(f"ll_vs_reference|{slice_}|{'sum' if case['ret_sum'] else 'steps'}",
                      f"returned log-likelihood differs from the reference log-probs of the returned actions by "
                      f"{_maxdiff(ll[okrow], want.sum(1)[okrow]) if case['ret_sum'] else _maxdiff(ll[okst], want[okst]):.3e}"
                      + (f" (reference: distribution renormalised over the entries kept by top_k={top_k} / top_p={top_p})"
                         if filtered else ""),
                      {"ll": ll, "reference": want, "actions": A, "ambiguous": amb})
    if not case["ret_sum"]:
        if forced0:
            ctx.check(bool((ll[:, 0] == 0).all()), f"forced_start_nonzero|{slice_}",
                      "forced multistart first move contributes a non-zero log-prob", {"ll0": ll[:, 0]})
        if smask is not None:
            ctx.check(bool((ll[~smask] == 0).all()), f"irrelevant_step_nonzero|{slice_}",
                      "a step flagged irrelevant contributes a non-zero log-prob", {"ll": ll, "mask": smask})
    if case["ret_entropy"]:
        ctx.check(_close(out["entropy"][okrow], ent_steps.sum(1)[okrow], tol1, T_scale, 4 * sl1.sum(1)[okrow]),
                  f"entropy_vs_reference|{slice_}",
                  f"returned entropy differs from the reference by "
                  f"{_maxdiff(out['entropy'][okrow], ent_steps.sum(1)[okrow]):.3e}",
                  {"entropy": out["entropy"], "reference": ent_steps.sum(1), "ambiguous": amb})
    if filtered:
        if "greedy" in mode or case.get("form") == "greedy+samples=k":
            # the filters never remove the most probable entry: greedy decoding still takes the reference argmax
            # wherever it is decisive (top-2 gap of the kept entries, or a single kept entry)
            dec_ = okst & decoded & (ref.gap > (2e-3 if select_best else 1e-4))
            ctx.check(not bool((dec_ & (A != ref.argmax)).any()), f"greedy_not_argmax|{slice_}",
                      f"greedy decoding with top_k={top_k} / top_p={top_p} took another action than the most probable one "
                      f"at a decisive step", {"actions": A, "argmax": ref.argmax, "gap": ref.gap})
        _strategy_tables(ctx, policy, ref, A, Tm, C, top_k, top_p, slice_, tol, eps)

    # reward: env.get_reward on the independently replayed final state, and the independent objective
    rew = out["reward"].reshape(-1)
    r2 = ctx.guard(env.get_reward, ref.td.clone(), A.clone(), what=f"get_reward|{envn}").reshape(-1)
    ctx.check(_close(rew, r2, 1e-6 if tol > 1e-8 else 1e-12), f"reward_vs_get_reward|{slice_}",
              f"returned reward differs from env.get_reward(final td, actions) by {_maxdiff(rew, r2):.3e}")
    spec = SPECS[envn]
    if spec.routing:
        jcase = {"env": envn, "cfg": cfg, "src": case.get("src", "gen")}
        for r in range(R):
            row = py_instance(envn, inst[r % B])
            acts = A[r].tolist()
            v = judge_row(jcase, spec, row, acts)
            if violated(jcase, v, padded=True):
                ctx.event("infeasible_row_skipped(C01)")
                continue
            if abs(float(rew[r]) - v.obj) > 1e-5 * (1 + abs(v.terms)):
                ctx.violation(f"reward_vs_objective|{key}/{envn}", f"reward {float(rew[r])} != objective {v.obj} (row {r})",
                              {"row": r, "actions": acts, "instance": row})

    # ---- Oracle 2: evaluate round trip (PPO: actions=..., return_entropy=True, return_sum_log_likelihood=False)
    ekw = dict(actions=A.clone(), return_entropy=True, return_sum_log_likelihood=False, **tkw)
    do_rt, ref_eval = True, ref
    if multisample:
        td_eval, first = td0.clone(), 0
        # the evaluate call is told about the replication the way the generating call was
        ekw.update({kk: vv for kk, vv in (rkw or {"num_samples": k}).items() if kk in ("num_samples", "multisample")})
    elif multistart and not select_best:
        td_eval, first = expand_starts(td0, k), 1
        if family(key) == "polynet":
            do_rt = False  # PolyNet's strategy vector depends on the start index (by design)
            ctx.event("roundtrip_skipped(polynet multistart)")
        else:
            ref_eval = reference_logprobs(policy, env, td_eval, A, num_starts=0, temperature=Tm, tanh_clipping=C, **fkw)
    else:
        td_eval, first = td0.clone(), (1 if select_best else 0)
    Te = ref.all_done_at if select_best else T
    # ambiguity of the kept sets: amb_e for the evaluate call against its own reference (same layout, same logits),
    # amb_rt for generating call vs evaluate call (identical computations in the same layout: never ambiguous; across
    # layouts the wide band of both references)
    amb_e = ref_eval.ambig[:, :Te]
    amb_rt = (ref.ambig_x | ref_eval.ambig_x)[:, :Te] if first == 1 else torch.zeros_like(amb_e)
    if do_rt and filtered and first == 1:
        lp_e = ref_eval.logp[:, :Te]
        # evaluate mode treats the forced first move as an ordinary (filtered) decoding step and asserts finite
        # log-probs: the round trip is only defined when the forced start survives the filter in the evaluate layout
        if bool(((lp_e[:, 0] == ninf) | amb_e[:, 0]).any()):
            do_rt = False
            ctx.event("roundtrip_skipped(forced start outside the filtered support)")
        elif bool((amb_rt & ((lp_e == ninf) | amb_e))[:, 1:].any()):
            do_rt = False
            ctx.event("roundtrip_skipped(kept set may differ across layouts)")
        else:
            ctx.check(not bool((lp_e == ninf)[:, 1:].any()), f"kept_set_across_layouts|{slice_}",
                      "a returned action robustly inside the kept set of the generating layout lies outside the reference "
                      "kept set on the start-major expanded batch", {"actions": A, "reference_eval": lp_e})
    if do_rt and bool((ref_eval.logp[:, :Te] < -900.0).any()):
        # get_log_likelihood asserts log-probs > -1000 ("should not be -inf"): a forced start (or any given action) that the
        # policy itself would take with probability below e^-900 - unclipped logits on unscaled coordinates - makes the
        # evaluate call raise by design; the round trip is only defined above that floor
        do_rt = False
        ctx.event("roundtrip_skipped(given action below the library's log-prob floor)")
    if do_rt:
        # the evaluate loop stops once every row is done: with select_best the kept starts may need fewer steps (Te)
        # than the slowest discarded start; the trailing steps of the generating call are judged by Oracle 1 only
        ekw["actions"] = A[:, :Te].clone()
        ekw["max_steps"] = Te  # the loop breaks once step > max_steps: exactly Te steps are allowed
        if case.get("eval_dt"):
            ekw["decode_type"] = case["eval_dt"]
            ctx.event(f"evaluate_with_decode_type:{case['eval_dt']}")
        if case.get("td_ppo") and first == 0 and not multisample:
            # the tensordict as PPO.shared_step hands it to the evaluation pass: the reset state plus the stored rollout
            # ("action" = the whole action sequence, "logprobs", "reward") - extra entries of the td are not an input
            td_eval = td_eval.clone()
            td_eval.set("action", A[:, :Te].clone())
            td_eval.set("logprobs", ref_eval.logp[:, :Te].sum(-1).to(torch.float32))
            td_eval.set("reward", out["reward"].reshape(-1).clone().float())
            ctx.event("evaluate_on_td_carrying_the_stored_rollout")
        with torch.no_grad():
            out2 = ctx.guard(policy, td_eval, env_arg, what=f"policy_evaluate|{slice_}", **ekw)
        ll2 = out2["log_likelihood"]
        ctx.check(tuple(ll2.shape) == (A.shape[0], Te), f"evaluate_shape|{slice_}",
                  f"evaluate returned log-likelihood of shape {tuple(ll2.shape)} for actions {tuple(A[:, :Te].shape)}")
        ctx.check(torch.equal(out2["actions"], A[:, :Te]), f"evaluate_actions|{slice_}",
                  "evaluate mode did not return the provided actions")
        lp_e, ent_e, scale_e = ref_eval.logp[:, :Te], ref_eval.entropy[:, :Te], ref_eval.scale[:, :Te]
        want2 = lp_e if smask is None else torch.where(smask[:, :Te], lp_e, torch.zeros_like(lp_e))
        # generating call and re-evaluation use different batch layouts for multistart outputs ([B,S,..] vs [S*B,..]):
        # float32 rounding differs between layouts and is amplified by the spread-initialised encoders (measured up to
        # 5e-4 on the 6-layer instance-norm POMO config at n=4, spread 2.5; the same case agrees to 1e-9 in float64).
        # float32 cross-layout comparisons therefore use 1e-3 (wrong-layout defects are O(1)); the float64 slice
        # asserts 1e-9.  Same-layout round trips (greedy / sampling / multisample) keep 1e-5.
        tolx = tol if first == 0 else (1e-9 if tol < 1e-8 else 1e-3)
        sl2 = 8 * eps * scale_e
        slx = 32 * eps * scale_e  # across batch layouts the logits themselves differ by rounding
        ok_e = ~amb_e                                  # [R,Te] evaluate call vs its reference
        ok_rt = ~amb_rt[:, first:]                     # [R,Te-first] generating call vs evaluate call
        row_e = ok_e.all(1)
        row_rt = ok_rt.all(1) & okst[:, Te:].all(1)    # (trailing steps enter through the reference tail)
        if not _close(ll2[ok_e], want2[ok_e], tol, 1.0, sl2[ok_e]):
            ctx.violation(f"evaluate_vs_reference|{slice_}",
                          f"evaluate-mode log-probs differ from the reference by {_maxdiff(ll2[ok_e], want2[ok_e]):.3e}",
                          {"ll_eval": ll2, "reference": want2, "actions": A, "ambiguous": amb_e})
        # round trip against the generating call
        tail = want[:, Te:].sum(1)  # reference log-probs of the steps the evaluate loop no longer takes
        if case["ret_sum"]:
            old_sum = ll.double() - tail
        else:
            old_sum = ll.double()[:, :Te].sum(1)
            if not _close(ll2[:, first:][ok_rt], ll[:, first:Te][ok_rt], tolx, 1.0, slx[:, first:][ok_rt]):
                ctx.violation(f"roundtrip_steps|{slice_}",
                              f"re-evaluating the returned actions changes per-step log-probs by "
                              f"{_maxdiff(ll2[:, first:][ok_rt], ll[:, first:Te][ok_rt]):.3e}", {"ll": ll, "ll_eval": ll2})
        new_sum = ll2.double()[:, first:].sum(1)
        ratio = torch.exp(new_sum - old_sum)
        ctx.check(bool(((ratio - 1).abs() <= tolx * T_scale * (1 + old_sum.abs()) + 2 * slx[:, first:].sum(1))[row_rt].all()),
                  f"ppo_ratio|{slice_}",
                  f"exp(ll_new - ll_old) = {ratio.tolist()} != 1", {"ll_old": old_sum, "ll_new": new_sum})
        ctx.check(_close(out2["reward"].reshape(-1), rew, 1e-6 if tol > 1e-8 else 1e-12), f"roundtrip_reward|{slice_}",
                  "evaluate mode returned a different reward for the same actions")
        ent_ref2 = ent_e.sum(1)
        ctx.check(_close(out2["entropy"][row_e], ent_ref2[row_e], tol, T_scale, 4 * sl2.sum(1)[row_e]),
                  f"evaluate_entropy_vs_reference|{slice_}",
                  f"evaluate-mode entropy differs from the reference by {_maxdiff(out2['entropy'][row_e], ent_ref2[row_e]):.3e}")
        if case["ret_entropy"]:
            e_old = out["entropy"].double() - ent_steps[:, Te:].sum(1)
            e_new = out2["entropy"].double() - (ent_e[:, 0] if first == 1 else 0.0)
            row_x = row_rt & (ok_e[:, 0] if first == 1 else True)
            ctx.check(_close(e_new[row_x], e_old[row_x], tolx, T_scale, 4 * slx.sum(1)[row_x]), f"roundtrip_entropy|{slice_}",
                      f"evaluate-mode entropy differs from the generating call by {_maxdiff(e_new[row_x], e_old[row_x]):.3e}")
        ctx.event("roundtrip_done")
        if filtered:
            ctx.event("roundtrip_done(filtered)")

    # ---- coverage bookkeeping
    multi = (ref.nfeas >= 2) & decoded
    n_multi = int(multi.sum())
    if filtered:
        removed = (ref.nkept < ref.nfeas) & decoded
        ctx.event("steps_filtered_multi_choice", n_multi)
        ctx.event("steps_filter_removed", int(removed.sum()))
        ctx.event("steps_filter_ambiguous", int((amb & decoded).sum()))
        ctx.event("steps_filter_taken_not_top1", int((removed & (A != ref.argmax)).sum()))
        if bool(removed.any()):
            ctx.event("filter_removed_feasible")
            ctx.event(f"filter_removed_feasible:{mode}")
        if bool((removed & okst).any()):
            ctx.event("filter_removed_feasible(at an unambiguous step)")
        if not bool(okrow.all()):
            ctx.event("filtered_case_with_ambiguous_row")
    ctx.event("steps_multi_choice", n_multi)
    ctx.event("steps_decisive", int((ref.decisive() & multi).sum()))
    ctx.event("steps_saturated(p>1-1e-6)", int(((ref.logp > -1e-6) & multi).sum()))
    rich = bool((multi.sum(1) >= 2).any())
    varlen = envn in VARLEN
    differ = bool(ref.done_at.min() != ref.done_at.max())
    if varlen and differ:
        ctx.event("rows_finish_at_different_steps")
    if rich and (not varlen or ref.done_at.shape[0] < 2 or differ):
        ctx.nontriv()
    ctx.sample({"zoo": case["zoo"], "mode": mode, "k": k, "B": B, "n": case["n"], "T": T,
                "actions_row0": A[0].tolist(), "ll_row0": (ll[0].tolist() if ll.dim() == 2 else float(ll[0]))})


def execute_ptrnet(case, ctx, env, inst, td0, policy, cfg):
    """PointerNetworkPolicy: own loop; sampling/greedy; evaluate through `eval_tours`; summed log-likelihood only."""
    mode = "greedy" if case["mode"] == "greedy" else "sampling"
    slice_ = f"ptrnet/tsp|{mode}"
    phase = "train" if case["train"] else "test"
    tol = 1e-5
    ctx.event("train_mode" if case["train"] else "eval_mode")
    if case.get("opts"):
        ctx.event(f"ptrnet:tanh={case['opts'].get('ptr_tanh')}|mask_inner={case['opts'].get('ptr_mask_inner')}")
    torch.manual_seed(case["tseed"])
    with torch.no_grad():
        out = ctx.guard(policy, td0.clone(), env, phase=phase, decode_type=mode, what=f"policy|{slice_}")
        A = out["actions"]
        B, T = A.shape
        ref = reference_ptrnet(policy, td0, A)
        ctx.check(bool(ref.in_mask.all()), f"action_outside_mask|{slice_}", "a node was selected twice", {"actions": A})
        ll = out["log_likelihood"]
        ctx.check(tuple(ll.shape) == (B,), f"shape|{slice_}", f"log-likelihood shape {tuple(ll.shape)}")
        if not _close(ll, ref.logp.sum(1), tol, T, (8 * 2.0 ** -23 * ref.scale).sum(1)):
            ctx.violation(f"ll_vs_reference|{slice_}|sum",
                          f"returned log-likelihood differs from the reference by {_maxdiff(ll, ref.logp.sum(1)):.3e}",
                          {"ll": ll, "reference": ref.logp.sum(1), "actions": A})
        out2 = ctx.guard(policy, td0.clone(), env, phase=phase, eval_tours=A.clone(), what=f"policy_evaluate|{slice_}")
        ctx.check(torch.equal(out2["actions"], A), f"evaluate_actions|{slice_}", "eval_tours not returned as actions")
        ratio = torch.exp(out2["log_likelihood"].double() - ll.double())
        ctx.check(bool(((ratio - 1).abs() <= tol * T).all()), f"ppo_ratio|{slice_}", f"exp(ll_new-ll_old)={ratio.tolist()}")
        ctx.check(_close(out2["reward"], out["reward"], 1e-6), f"roundtrip_reward|{slice_}", "reward changed on re-evaluation")
    policy.eval()
    spec = SPECS["tsp"]
    jcase = {"env": "tsp", "cfg": cfg, "src": "gen"}
    for r in range(B):
        v = judge_row(jcase, spec, py_instance("tsp", inst[r]), A[r].tolist())
        ctx.check(abs(float(out["reward"][r]) - v.obj) <= 1e-5 * (1 + abs(v.terms)), "reward_vs_objective|ptrnet/tsp",
                  f"reward {float(out['reward'][r])} != objective {v.obj}")
    multi = ref.nfeas >= 2
    ctx.event("steps_multi_choice", int(multi.sum()))
    ctx.event("steps_decisive", int((ref.decisive() & multi).sum()))
    ctx.event("roundtrip_done")
    ctx.nontriv()


# --------------------------------------------------------------------------- MultiStageFFSPPolicy (own loop)
# >= 2 machines per stage and >= 2 jobs: the MatNet encoders use instance normalisation over the machine / job axis,
# which torch defines only for more than one element
FFSP_KS = {2: [1, 2, 2], 3: [1, 2, 3, 6]}


@st.composite
def ffsp_cases(draw, tier="quick"):
    mas = draw(st.sampled_from([2, 2, 3]))
    phase = draw(st.sampled_from(["test", "test", "train", "val"]))
    return dict(
        jobs=draw(st.integers(2, 5)), stages=draw(st.sampled_from([1, 2, 2, 3])), mas=mas,
        max_time=draw(st.sampled_from([3, 5, 5, 10])), B=draw(st.integers(1, 4)), iseed=draw(st.integers(0, 2 ** 20)),
        pseed=draw(st.integers(0, 3)), spread=draw(st.sampled_from([1.25, 1.5, 1.5, 2.0, 2.5])),
        mode=draw(st.sampled_from(["greedy", "sampling", "sampling"])), tseed=draw(st.integers(0, 2 ** 20)),
        k=draw(st.sampled_from(FFSP_KS[mas])), phase=phase, train=draw(st.booleans()),
        temperature=draw(st.sampled_from([None, None, 1.0, 0.5, 2.0])),
        f64=draw(st.integers(0, 3)) == 0,
    )


def ffsp_minimize(case):
    c = dict(case)
    if c["B"] > 1:
        yield {**c, "B": c["B"] - 1}
        yield {**c, "B": 1}
    if c["k"] > 1:
        yield {**c, "k": 1}
    for key, lo in (("jobs", 2), ("stages", 1)):
        if c[key] > lo:
            yield {**c, key: c[key] - 1}
    if c["mas"] > 2 and c["k"] <= math.factorial(c["mas"] - 1):
        yield {**c, "mas": c["mas"] - 1}
    for key, val in (("f64", False), ("train", False), ("phase", "test"), ("temperature", None), ("max_time", 3),
                     ("spread", 1.5), ("pseed", 0), ("mode", "greedy")):
        if c.get(key) != val:
            yield {**c, key: val}


def execute_ffsp(case, ctx):
    """MultiStageFFSPPolicy.forward(td, env, phase, num_starts): returned log_likelihood == sum over the steps of the
    reference log-prob of the returned action (vf/models/ffsp_ref.py), finished rows contribute exactly 0, actions
    inside the mask, reward == -makespan of the schedule the actions describe (independent model + judge)."""
    from ..models.ffsp_ref import FFSPOrderModel, reference_ffsp, start_order
    from ..oracles.scheduling import judge_ffsp

    J, S, M, B, k = int(case["jobs"]), int(case["stages"]), int(case["mas"]), int(case["B"]), int(case["k"])
    mode, phase = case["mode"], case["phase"]
    slice_ = f"matnet_ffsp|{mode}|k={'1' if k == 1 else '2+'}"
    ctx.event(f"zoo:matnet_ffsp/ffsp|{mode}")
    ctx.event(f"ffsp:S{S}M{M}")
    ctx.event(f"ffsp:num_starts={k}")
    ctx.event(f"ffsp:phase={phase}")
    cfg = {"jobs": J, "stages": S, "mas": M, "max_time": int(case["max_time"]), "flatten": False}
    spec = SPECS["ffsp"]
    env = spec.env(cfg)
    state = torch.get_rng_state()
    inst = spec.gen(cfg, B, case["iseed"])
    torch.set_rng_state(state)
    f64 = bool(case.get("f64", False))
    if f64:
        ctx.event("float64")
    policy = build_policy("matnet_ffsp", "ffsp", env, seed=case["pseed"], spread=case["spread"], double=f64)
    assert all(isinstance(e.init_embedding, DeterministicMatNetInit) for e in policy.encoders)
    other = "sampling" if mode == "greedy" else "greedy"
    saved = {ph: getattr(policy, f"{ph}_decode_type") for ph in ("train", "val", "test")}
    for ph in saved:  # only the attribute of the requested phase carries the drawn decode type
        setattr(policy, f"{ph}_decode_type", mode if ph == phase else other)
    train = bool(case["train"]) and not has_batchnorm(policy)
    ctx.event("train_mode" if train else "eval_mode")
    Tm = case["temperature"]
    dkw = {} if Tm is None else {"temperature": float(Tm)}

    calls = []  # (stage, action [R], logp [R]) per stage-decoder call
    hooks = [dec.register_forward_hook(lambda m, a, out, s=s: calls.append((s, out[0].detach().clone(), out[1].detach().clone())))
             for s, dec in enumerate(policy.decoders)]
    policy.train(train)
    try:
        with watchdog():
            td0 = ctx.guard(env.reset, inst.clone(), what="reset|ffsp")
            torch.manual_seed(case["tseed"])
            with torch.no_grad():
                out = ctx.guard(policy, td0, env, phase=phase, num_starts=k, what=f"policy|{slice_}", **dkw)
            for h in hooks:
                h.remove()
            hooks = []
            _check_ffsp(case, ctx, cfg, env, inst, policy, out, calls, slice_, 1.0 if Tm is None else float(Tm),
                        FFSPOrderModel, reference_ffsp, start_order, judge_ffsp)
    except Hang:
        ctx.violation(f"hang|{slice_}", f"policy call / replay did not return within {HANG_S}s at toy size")
    finally:
        for h in hooks:
            h.remove()
        policy.eval()
        for ph, v in saved.items():
            setattr(policy, f"{ph}_decode_type", v)


def _check_ffsp(case, ctx, cfg, env, inst, policy, out, calls, slice_, Tm, FFSPOrderModel, reference_ffsp, start_order,
                judge_ffsp):
    J, S, M, B, k = int(case["jobs"]), int(case["stages"]), int(case["mas"]), int(case["B"]), int(case["k"])
    mode = case["mode"]
    R = B * k
    A, ll, rew = out["actions"], out["log_likelihood"], out["reward"]
    ctx.check(A.dim() == 2 and A.shape[0] == R and tuple(ll.shape) == (R,) and tuple(rew.shape) == (R,), f"shape|{slice_}",
              f"actions {tuple(A.shape)} ll {tuple(ll.shape)} reward {tuple(rew.shape)} for B={B}, num_starts={k}")
    T = A.shape[1]
    # float64 slice: the policy computes in float64 but collects the step log-probs in a float32 buffer, so the returned
    # sum carries float32 rounding of every step value (1e-6); the step values seen by the hooks are float64 (1e-9)
    f64 = bool(case.get("f64", False))
    tol, eps = (1e-9, 2.0 ** -52) if f64 else (1e-5, 2.0 ** -23)
    tol_sum = 1e-6 if f64 else 1e-5

    # ---- reference replay in the policy's own batch layout
    ref = ctx.guard(reference_ffsp, policy, env, inst, A, num_starts=k, temperature=Tm, what=f"reference_loop|{slice_}")
    ctx.check(bool(ref.in_mask.all()), f"action_outside_mask|{slice_}", "a returned action was not in the action mask",
              {"actions": A, "in_mask": ref.in_mask})
    ctx.check(ref.mask_ok, f"decoder_mask_mismatch|{slice_}", "decoder-returned mask differs from td['action_mask']")
    ctx.check(ref.all_done_at == T, f"episode_length|{slice_}",
              f"returned {T} steps but replaying them finishes every row after {ref.all_done_at}")
    steps = torch.arange(T).view(1, T)
    fin = steps >= ref.done_at.view(R, 1)  # [R,T] step taken after the row had finished
    # finished rows are only offered the wait action: the reference log-prob is exactly 0 there
    ctx.check(bool((ref.nfeas[fin] == 1).all()) and bool((A[fin] == J).all()) and bool((ref.logp[fin] == 0).all()),
              f"finished_row_choice|{slice_}", "a finished row was offered / took something else than the wait action",
              {"actions": A, "done_at": ref.done_at, "nfeas": ref.nfeas})
    want = ref.logp.sum(1)
    sl1 = (8 * eps * ref.scale).sum(1)
    if not _close(ll, want, tol_sum, max(1, T), sl1):
        ctx.violation(f"ll_vs_reference|{slice_}|sum",
                      f"returned log-likelihood differs from the summed reference log-probs of the returned actions by "
                      f"{_maxdiff(ll, want):.3e}", {"ll": ll, "reference": ref.logp, "actions": A})

    # ---- what the stage decoders handed to the policy loop, step by step (forward hooks)
    if len(calls) != T * S or any(c[0] != i % S for i, c in enumerate(calls)):
        raise RuntimeError(f"hook channel broken: {len(calls)} stage-decoder calls for T={T}, S={S}")
    stage = ref.stage  # td["stage_idx"] of the replayed episode: the decoder whose choice the policy loop must take
    models = []
    for r in range(R):
        I = py_instance("ffsp", inst[r % B])
        mdl = FFSPOrderModel(I, S, M, start_order(M, r // B))
        ok_mask = True
        for t in range(T):
            a = int(A[r, t])
            if not mdl.done and not (0 <= a <= J and mdl.mask()[a]):
                ok_mask = False
            mdl.step(a)
        models.append((I, mdl, ok_mask))
    h_act = torch.stack([torch.stack([calls[t * S + s][1] for s in range(S)], 1) for t in range(T)], 1)  # [R,T,S]
    h_lp = torch.stack([torch.stack([calls[t * S + s][2] for s in range(S)], 1) for t in range(T)], 1)
    g_act = h_act.gather(2, stage.unsqueeze(-1)).squeeze(-1)
    g_lp = h_lp.gather(2, stage.unsqueeze(-1)).squeeze(-1).double()
    ctx.check(torch.equal(g_act, A), f"actions_vs_stage_decoder|{slice_}",
              "a returned action is not the one the decoder of the row's current stage selected", {"actions": A, "stage": stage})
    if not _close(g_lp, ref.logp, tol, 1.0, 8 * eps * ref.scale):
        ctx.violation(f"ll_vs_reference|{slice_}|steps",
                      f"per-step log-probs of the stage decoders differ from the reference by {_maxdiff(g_lp, ref.logp):.3e}",
                      {"steps": g_lp, "reference": ref.logp, "actions": A})
    ctx.check(bool((g_lp[fin] == 0).all()), f"finished_row_nonzero|{slice_}",
              "a step taken after the row had finished contributes a non-zero log-prob", {"steps": g_lp, "done_at": ref.done_at})
    ctx.check(_close(ll, g_lp.sum(1), tol_sum, max(1, T)), f"ll_vs_step_sum|{slice_}",
              f"returned log-likelihood is not the sum of the per-step log-probs ({_maxdiff(ll, g_lp.sum(1)):.3e})")

    # ---- greedy: the reference argmax wherever it is decisive
    multi = ref.nfeas >= 2
    dec_ = ref.decisive() & multi
    if mode == "greedy":
        bad = dec_ & (A != ref.argmax)
        ctx.check(not bool(bad.any()), f"greedy_not_argmax|{slice_}",
                  "greedy decoding took another action than the most probable one at a decisive step (gap > 1e-4)",
                  {"actions": A, "argmax": ref.argmax, "gap": ref.gap})

    # ---- cross-layout reference for multi-start decodes: encoders on all num_starts*B rows, no regrouping
    # (float64 slice only: instance normalisation over 2-3 machines / jobs amplifies the float32 rounding differences
    #  between batch layouts up to 4e-3 on the summed log-likelihood, measured in C14; in float64 they vanish)
    if k > 1 and f64:
        ref2 = ctx.guard(reference_ffsp, policy, env, inst, A, num_starts=k, layout="plain", temperature=Tm,
                         what=f"reference_loop_plain|{slice_}")
        ctx.event("ffsp:cross_layout_reference")
        if not _close(ll, ref2.logp.sum(1), tol_sum, max(1, T), (32 * eps * ref2.scale).sum(1)):
            ctx.violation(f"ll_vs_plain_layout|{slice_}",
                          f"multi-start log-likelihood differs from the reference on the start-major expanded batch by "
                          f"{_maxdiff(ll, ref2.logp.sum(1)):.3e}", {"ll": ll, "reference": ref2.logp.sum(1), "actions": A})

    # ---- reward: -makespan of the schedule the actions describe (independent model + judge), env's own final state
    r_env = ref.td["reward"].reshape(-1)
    ctx.check(_close(rew, r_env, 1e-6), f"reward_vs_replayed_state|{slice_}",
              f"returned reward differs from the reward of the independently replayed final state by {_maxdiff(rew, r_env):.3e}")
    waits = 0
    for r, (I, mdl, ok_mask) in enumerate(models):
        det = {"row": r, "actions": A[r].tolist(), "instance": I, "machine_order": list(mdl.order)}
        ctx.check(ok_mask, f"action_infeasible|{slice_}", "a returned action is not admitted by the reference decision process", det)
        ctx.check(mdl.done, f"schedule_incomplete|{slice_}", "the returned actions do not schedule every job on every stage", det)
        v = judge_ffsp(I, {"schedule": mdl.start}, S, M)
        if v.viol:
            ctx.violation(f"schedule_invalid|{slice_}|{v.viol[0][0]}", f"the actions describe an invalid schedule: {v.viol}", det)
        if abs(float(rew[r]) - v.obj) > 1e-5 * (1 + v.terms):
            ctx.violation(f"reward_vs_makespan|{slice_}", f"reward {float(rew[r])} != -makespan {v.obj} (row {r})", det)
        waits += mdl.waits

    # ---- coverage bookkeeping
    n_multi = int(multi.sum())
    ctx.event("steps_multi_choice", n_multi)
    ctx.event("steps_decisive", int(dec_.sum()))
    ctx.event("steps_after_finish", int(fin.sum()))
    if waits:
        ctx.event("ffsp:episodes_with_waits")
    differ = bool(ref.done_at.min() != ref.done_at.max())
    if differ:
        ctx.event("rows_finish_at_different_steps")
    if bool((multi.sum(1) >= 2).any()) and (R < 2 or differ):
        ctx.nontriv()
    ctx.sample({"zoo": ["matnet_ffsp", "ffsp"], "cfg": cfg, "mode": mode, "k": k, "B": B, "T": T,
                "actions_row0": A[0].tolist(), "ll_row0": float(ll[0]), "reward_row0": float(rew[0])})


# --------------------------------------------------------------------------- MDAM (own multi-decoder loop)
MDAM_ENVS = ("tsp", "cvrp", "op", "pctsp")


class RewardSpy:
    """Delegates everything to the real env and records every get_reward call (DESIGN 2.5)."""

    def __init__(self, env):
        object.__setattr__(self, "_env", env)
        self.rewards = []

    def __getattr__(self, k_):
        return getattr(object.__getattribute__(self, "_env"), k_)

    def get_reward(self, td, actions):
        r = self._env.get_reward(td, actions)
        self.rewards.append((actions.detach().clone(), r.detach().clone()))
        return r


@st.composite
def mdam_cases(draw, tier="quick"):
    return dict(
        env=draw(st.sampled_from(MDAM_ENVS)), n=draw(st.integers(4, 8)), B=draw(st.integers(1, 4)),
        iseed=draw(st.integers(0, 2 ** 20)), pseed=draw(st.integers(0, 3)),
        spread=draw(st.sampled_from([1.0, 1.25, 1.5])),  # its tanh-clipped scores saturate from spread 2 on (C14)
        mode=draw(st.sampled_from(["greedy", "sampling", "sampling"])), tseed=draw(st.integers(0, 2 ** 20)),
        via=draw(st.sampled_from(["kwarg", "kwarg", "phase"])), phase=draw(st.sampled_from(["train", "val", "test"])),
        variant=draw(st.integers(0, 3)),
        # number of decoder paths (num_paths=1 raises UnboundLocalError in the pinned decoder: not a usable configuration)
        paths=draw(st.sampled_from([3, 3, 2])),
    )


def mdam_minimize(case):
    c = dict(case)
    if c["B"] > 1:
        yield {**c, "B": c["B"] - 1}
        yield {**c, "B": 1}
    if c["n"] > 4:
        yield {**c, "n": c["n"] - 1}
    for key, val in (("via", "kwarg"), ("phase", "test"), ("variant", 0), ("spread", 1.5), ("pseed", 0), ("mode", "greedy"),
                     ("paths", 3)):
        if c.get(key, val) != val:
            yield {**c, key: val}


def execute_mdam(case, ctx):
    """MDAMPolicy: every decoder path's actions inside the mask / feasible by the independent oracle, one reward per
    path == objective of that path's actions, returned actions == last path's, per-path log-likelihood against the
    reference loop (vf/models/mdam_ref.py)."""
    from ..models.mdam_ref import reference_mdam

    envn, B, mode = case["env"], int(case["B"]), case["mode"]
    slice_ = f"mdam/{envn}|{mode}"
    ctx.event(f"zoo:mdam/{envn}|{mode}")
    cfg = env_cfg(envn, case["n"], case["variant"])
    env, inst, td0 = make_batch(envn, cfg, B, case["iseed"])
    K = int(case.get("paths", MDAM_PATHS))
    ctx.event(f"mdam:paths={K}")
    policy = build_policy("mdam", envn, env, seed=case["pseed"], spread=case["spread"],
                          opts=(None if K == MDAM_PATHS else {"num_paths": K}))
    policy.eval()  # batch norm in the encoder: eval mode only
    kw = {}
    saved = {ph: getattr(policy, f"{ph}_decode_type") for ph in ("train", "val", "test")}
    if case["via"] == "kwarg":
        kw["decode_type"] = mode
    else:
        other = "sampling" if mode == "greedy" else "greedy"
        for ph in saved:
            setattr(policy, f"{ph}_decode_type", mode if ph == case["phase"] else other)
    ctx.event(f"mdam:decode_type_via_{case['via']}")
    spy = RewardSpy(env)
    try:
        with watchdog():
            torch.manual_seed(case["tseed"])
            with torch.no_grad():
                out = ctx.guard(policy, td0.clone(), spy, phase=case["phase"], what=f"policy|{slice_}", **kw)
            _check_mdam(case, ctx, cfg, env, inst, td0, policy, out, spy, slice_, K, reference_mdam)
    except Hang:
        ctx.violation(f"hang|{slice_}", f"policy call / replay did not return within {HANG_S}s at toy size")
    finally:
        policy.eval()
        for ph, v in saved.items():
            setattr(policy, f"{ph}_decode_type", v)


def _check_mdam(case, ctx, cfg, env, inst, td0, policy, out, spy, slice_, K, reference_mdam):
    envn, B, mode = case["env"], int(case["B"]), case["mode"]
    A_ret, ll, rew = out["actions"], out["log_likelihood"], out["reward"]
    ctx.check(A_ret.dim() == 2 and A_ret.shape[0] == B and tuple(ll.shape) == (B, K) and tuple(rew.shape) == (B, K),
              f"shape|{slice_}", f"actions {tuple(A_ret.shape)} ll {tuple(ll.shape)} reward {tuple(rew.shape)} for B={B}, {K} paths")
    if len(spy.rewards) != K or any(a.shape[0] != B for a, _ in spy.rewards):
        raise RuntimeError(f"spy channel broken: {len(spy.rewards)} get_reward calls for {K} paths")
    paths = [a.long() for a, _ in spy.rewards]
    ctx.check(torch.equal(paths[-1], A_ret.long()), f"mdam_actions_not_last_path|{slice_}",
              "returned actions are not those of the last decoder path")
    for j in range(K):
        ctx.check(_close(spy.rewards[j][1].reshape(-1), rew[:, j], 1e-6), f"reward_path_order|{slice_}",
                  f"reward column {j} is not the reward computed for decoder path {j}")
    refs = ctx.guard(reference_mdam, policy, env, td0, paths, what=f"reference_loop|{slice_}")
    spec = SPECS[envn]
    jcase = {"env": envn, "cfg": cfg, "src": "gen"}
    tol, eps = 1e-5, 2.0 ** -23
    nontriv = False
    for j, (A, ref) in enumerate(zip(paths, refs)):
        T = A.shape[1]
        ctx.check(bool(ref.in_mask.all()), f"action_outside_mask|{slice_}", f"path {j}: an action was not in the action mask",
                  {"path": j, "actions": A, "in_mask": ref.in_mask})
        ctx.check(ref.mask_ok, f"decoder_mask_mismatch|{slice_}", "decoder-returned mask differs from td['action_mask']")
        ctx.check(ref.all_done_at == T, f"episode_length|{slice_}",
                  f"path {j}: {T} steps but replaying them finishes every row after {ref.all_done_at}")
        # reward of the path: independent objective of its actions, env.get_reward on the replayed final state
        r2 = ctx.guard(env.get_reward, ref.td.clone(), A.clone(), what=f"get_reward|{envn}").reshape(-1)
        ctx.check(_close(rew[:, j], r2, 1e-6), f"reward_vs_get_reward|{slice_}",
                  f"path {j}: returned reward differs from env.get_reward(final td, actions) by {_maxdiff(rew[:, j], r2):.3e}")
        for b in range(B):
            row = py_instance(envn, inst[b])
            acts = A[b].tolist()
            v = judge_row(jcase, spec, row, acts)
            bad = violated(jcase, v, padded=True)
            if bad:
                ctx.violation(f"infeasible_path|{slice_}|{bad[0][0]}", f"path {j}, row {b} violates {bad}: {acts}",
                              {"path": j, "row": b, "actions": acts, "instance": row})
            if abs(float(rew[b, j]) - v.obj) > 1e-5 * (1 + abs(v.terms)):
                ctx.violation(f"reward_vs_objective|mdam/{envn}", f"path {j}: reward {float(rew[b, j])} != objective {v.obj} (row {b})",
                              {"path": j, "row": b, "actions": acts, "instance": row})
        # greedy: the reference argmax wherever it is decisive (own loop, own call of decode_logprobs)
        multi = ref.nfeas >= 2
        dec_ = ref.decisive() & multi
        if mode == "greedy":
            ctx.check(not bool((dec_ & (A != ref.argmax)).any()), f"greedy_not_argmax|{slice_}",
                      f"path {j}: greedy decoding took another action than the most probable one at a decisive step "
                      f"(gap > 1e-4)", {"path": j, "actions": A, "argmax": ref.argmax, "gap": ref.gap})
        # log-likelihood of the path: sum of the reference (masked, normalised) log-probs of its actions
        want = ref.logp.sum(1)
        sl1 = (8 * eps * ref.scale).sum(1)
        if not _close(ll[:, j], want, tol, max(1, T), sl1):
            sig = f"ll_vs_reference|{slice_}"
            lab = gated(ctx, sig)
            if lab is not None:
                ctx.exclude(lab)
            else:
                ctx.violation(sig, f"path {j}: returned log-likelihood differs from the summed reference log-probs of the path's "
                                   f"actions by {_maxdiff(ll[:, j], want):.3e}", {"path": j, "ll": ll[:, j], "reference": want,
                                                                                 "actions": A})
            # behind the known root cause (the softmax normaliser is missing, F40): the value must still be gathered
            # from the scores of the taken actions, step by step
            raw = ref.raw.sum(1)
            if not _close(ll[:, j], raw, tol, max(1, T), sl1):
                ctx.violation(f"ll_gather|{slice_}", f"path {j}: returned log-likelihood is neither the normalised nor the "
                              f"un-normalised sum of the scores of the taken actions (off by {_maxdiff(ll[:, j], raw):.3e})",
                              {"path": j, "ll": ll[:, j], "unnormalised": raw, "normalised": want, "actions": A})
            ctx.event("mdam:ll_unnormalised_sum_confirmed")
        ctx.event("steps_multi_choice", int(multi.sum()))
        ctx.event("steps_decisive", int(dec_.sum()))
        differ = bool(ref.done_at.min() != ref.done_at.max())
        if differ:
            ctx.event("rows_finish_at_different_steps")
        if bool((multi.sum(1) >= 2).any()) and (envn == "tsp" or B < 2 or differ):
            nontriv = True
    if len({tuple(p.reshape(-1).tolist()) for p in paths}) > 1:
        ctx.event("mdam:paths_differ")
    if nontriv:
        ctx.nontriv()
    ctx.sample({"zoo": ["mdam", envn], "mode": mode, "B": B, "n": case["n"], "paths_row0": [p[0].tolist() for p in paths],
                "ll_row0": ll[0].tolist(), "reward_row0": rew[0].tolist()})


# --------------------------------------------------------------------------- get_log_likelihood as a pure function
@st.composite
def gll_cases(draw, tier="quick"):
    B = draw(st.integers(1, 4))
    T = draw(st.integers(1, 6))
    N = draw(st.integers(1, 5))
    three = draw(st.booleans())
    val = st.integers(-160, 0).map(lambda v: v / 8.0)
    acts = [[draw(st.integers(0, N - 1)) for _ in range(T)] for _ in range(B)]
    has_mask = draw(st.booleans())
    mask = [[draw(st.booleans()) for _ in range(T)] for _ in range(B)] if has_mask else None
    if three:
        lp = [[[draw(st.one_of(val, st.just("-inf"))) for _ in range(N)] for _ in range(T)] for _ in range(B)]
    else:
        lp = [[draw(st.one_of(val, st.just("-inf"))) for _ in range(T)] for _ in range(B)]
    # selected entries of relevant steps must be finite (documented assertion)
    for b in range(B):
        for t in range(T):
            relevant = mask is None or mask[b][t]
            if three:
                if relevant and lp[b][t][acts[b][t]] == "-inf":
                    lp[b][t][acts[b][t]] = draw(val)
            elif relevant and lp[b][t] == "-inf":
                lp[b][t] = draw(val)
    return dict(B=B, T=T, N=N, three=three, lp=lp, actions=acts, mask=mask, ret_sum=draw(st.booleans()),
                dtype=draw(st.sampled_from(["f32", "f64"])), give_actions=draw(st.booleans()))


def _tofloat(x):
    if isinstance(x, list):
        return [_tofloat(v) for v in x]
    return -math.inf if x == "-inf" else float(x)


def execute_gll(case, ctx):
    from rl4co.utils.decoding import get_log_likelihood

    dt = torch.float32 if case["dtype"] == "f32" else torch.float64
    lp = torch.tensor(_tofloat(case["lp"]), dtype=dt)
    A = torch.tensor(case["actions"], dtype=torch.long)
    mask = None if case["mask"] is None else torch.tensor(case["mask"], dtype=torch.bool)
    three = case["three"]
    give = case["give_actions"] or three
    got = ctx.guard(get_log_likelihood, lp.clone(), A.clone() if give else None, None if mask is None else mask.clone(),
                    case["ret_sum"], what="get_log_likelihood")
    B, T = A.shape
    want = torch.zeros(B, T, dtype=torch.float64)
    for b in range(B):
        for t in range(T):
            if mask is not None and not case["mask"][b][t]:
                continue
            v = case["lp"][b][t][case["actions"][b][t]] if three else case["lp"][b][t]
            want[b, t] = float(v)
    sl = f"{'3d' if three else '2d'}|{'mask' if mask is not None else 'nomask'}|{'sum' if case['ret_sum'] else 'steps'}"
    ctx.event(sl)
    if case["ret_sum"]:
        ctx.check(tuple(got.shape) == (B,), f"gll_shape|{sl}", f"shape {tuple(got.shape)} for B={B},T={T}")
        ctx.check(bool(((got.double() - want.sum(1)).abs() <= 1e-5 * (1 + want.abs().sum(1))).all()), f"gll_value|{sl}",
                  "summed log-likelihood is not the sum of the gathered, unmasked step log-probs",
                  {"got": got, "want": want.sum(1)})
    else:
        ctx.check(tuple(got.shape) == (B, T), f"gll_shape|{sl}", f"shape {tuple(got.shape)} for B={B},T={T}")
        ctx.check(bool((got.double() == want).all()), f"gll_value|{sl}",
                  "per-step log-likelihood is not the gathered log-prob (exactly 0 at irrelevant steps)",
                  {"got": got, "want": want})
    if mask is not None and (~mask).any() and mask.any() and T >= 2:
        ctx.nontriv()
    ctx.sample({k_: case[k_] for k_ in ("B", "T", "N", "three", "ret_sum", "mask")})


SUBS = [
    Sub("policies", execute, strategy=lambda tier: cases(tier), budget={"quick": 4800, "thorough": 12000}, shards=16,
        shrink=False, minimize=minimize, weight=2.0),
    Sub("matnet_ffsp", execute_ffsp, strategy=lambda tier: ffsp_cases(tier), budget={"quick": 480, "thorough": 3000},
        shards=16, shrink=False, minimize=ffsp_minimize),
    Sub("mdam", execute_mdam, strategy=lambda tier: mdam_cases(tier), budget={"quick": 288, "thorough": 2400},
        shards=16, shrink=False, minimize=mdam_minimize),
    Sub("get_log_likelihood", execute_gll, strategy=lambda tier: gll_cases(tier),
        budget={"quick": 4496, "thorough": 20000}, shards=4, shrink=True),
]
