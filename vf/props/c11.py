"""C11 — returned log-likelihoods are those of the returned actions (evaluate round trip).

Code under test: ConstructivePolicy.forward, rl4co.utils.decoding (DecodingStrategy hooks / step, Evaluate,
get_log_likelihood), rl4co.utils.ops.calculate_entropy, the bundled decoders, PointerNetworkPolicy (eval_tours).

Oracle 1  reference decode loop (vf/models/decode.py): encoder once, decoder per step, float64 log-softmax over the
          mask with the documented tanh clipping / temperature, env.step with the *returned* actions.
Oracle 2  evaluate round trip the way PPO does it: policy(td, env, actions=A, return_entropy=True,
          return_sum_log_likelihood=False) reproduces per-step log-probs, reward and entropy (ratio exp(ll'-ll) == 1).
Irrelevant-step flag: get_log_likelihood as a pure function, and end to end by injecting a [B,T] `mask` key into the
          reset td of fixed-length envs (every _step carries unknown keys through; verified here per case).
"""
import contextlib
import math
import os
import signal

import hypothesis.strategies as st
import torch

from ..envs import SPECS, py_instance
from ..models.decode import reference_logprobs, reference_ptrnet
from ..play import judge_row, violated
from ..policies import INFO, ZOO, build_policy, expand_starts, has_batchnorm, make_batch, small_cfg
from ..runner import Sub

PROPERTY = "C11"
RULE = (
    "case = (zoo entry policy x env, n 4-8, B 1-4, instance seed, policy seed, spread in {1.25,1.5,2,2.5}, decode mode in "
    "greedy / sampling(torch seed) / multistart_greedy / multistart_sampling (k <= n; optionally select_best) / "
    "multisample sampling (k), temperature in {1,0.5,2}, tanh clipping in {policy default,0,5,10} given as policy "
    "attribute or decoding kwarg, eval or train mode (dropout 0; train only without batch norm / noisy gating), "
    "return_sum on/off, return_entropy on/off, optional injected [B,T] step-relevance mask (tsp/atsp/pdp/smtwtp), "
    "float64 slice). Non-trivial = some row has >= 2 decoded steps with >= 2 feasible actions and, for "
    "variable-length envs with >= 2 rows, rows finish at different steps; distinct = case hash. "
    "Decisive fraction (top-2 gap > 1e-4 among multi-choice steps) is reported as event counters."
)
ASSUMPTIONS = [
    "policies are the bundled classes at toy size (embed 32, 2 encoder layers; POMO config 6), spread-initialised, dropout 0",
    "reference loop trusts the bundled encoder/decoder modules and env.step, not DecodingStrategy / process_logits / "
    "get_log_likelihood / calculate_entropy",
    "float32 tolerance 1e-5*(1+|x|) per step (x steps for sums) plus K*eps*max|scaled logit| (K=8 same logits, 32 across "
    "layouts; only material without tanh clipping); multistart run vs re-evaluation on the expanded batch are different "
    "batch layouts: 1e-3 in float32 (rounding amplified by the spread-initialised encoders, measured 5e-4), 1e-9 in the "
    "float64 slice; float64 slice 1e-9 everywhere",
    "MatNet's random one-hot init embedding replaced by a deterministic functionally identical module (DESIGN 2.5)",
    "multistart cases whose forced start node is infeasible at reset are C12's business (excluded, counted)",
    "evaluate mode has no forced-start notion: multistart outputs are re-evaluated on the start-major expanded batch "
    "(steps >= 1 against the multistart run, step 0 against the plain reference loop)",
    "PolyNet conditions on the start index: its multistart outputs are only checked against the reference loop, its "
    "multisample outputs are re-evaluated with the same num_starts / multisample kwargs",
    "AM/mtsp at B=1 (F7, MTSPContext.squeeze) and AM/mtsp multistart (MTSPContext cannot take the [B,S] layout) crash: "
    "excluded by construction and counted unless VF_C11_DEFECT_SLICES=1",
]
TIME_CAP = {"quick": 400, "thorough": 3000}

DEFECT_SLICES = os.environ.get("VF_C11_DEFECT_SLICES", "0") == "1"
FIXED_LEN = ("tsp", "atsp", "pdp", "smtwtp")
VARLEN = ("cvrp", "cvrptw", "sdvrp", "svrp", "op", "pctsp", "spctsp", "mtvrp", "jssp", "fjsp")
NO_F64 = ("l2d", "mvmoe", "ptrnet")  # hard-coded float32 tensors inside (float64 inputs are not a documented use)
NORM_KEYS = ("am", "symnco", "ham")
MODES = ["greedy", "sampling", "multistart_greedy", "multistart_sampling", "multisample"]


# --------------------------------------------------------------------------- strategy
@st.composite
def cases(draw, tier="quick"):
    key, envn = draw(st.sampled_from(ZOO))
    n = draw(st.integers(4, 8))
    B = draw(st.integers(1, 4))
    info = INFO[key]
    modes = ["greedy", "sampling", "sampling"]
    if info["multistart"]:
        modes += ["multistart_greedy", "multistart_sampling", "multistart_sampling", "multisample"]
        if key == "polynet":
            modes += ["multisample"]
    mode = draw(st.sampled_from(modes))
    kmax = n // 2 if envn == "pdp" else n
    k = draw(st.integers(2, max(2, min(kmax, 4)))) if mode.startswith("multi") else 0
    case = dict(
        zoo=[key, envn], n=n, B=B, iseed=draw(st.integers(0, 2 ** 20)), pseed=draw(st.integers(0, 3)),
        mode=mode, k=k, tseed=draw(st.integers(0, 2 ** 20)),
        temperature=draw(st.sampled_from([1.0, 1.0, 0.5, 2.0])),
        tanh=draw(st.sampled_from([None, None, 0.0, 5.0, 10.0])),
        via=draw(st.sampled_from(["attr", "attr", "kwargs"])),
        train=draw(st.booleans()), ret_sum=draw(st.booleans()), ret_entropy=draw(st.booleans()),
        select_best=(draw(st.integers(0, 3)) == 0) if mode.startswith("multistart") and key != "polynet" else False,
        norm=draw(st.sampled_from([None, None, "instance", "layer"])) if key in NORM_KEYS else None,
        variant=draw(st.integers(0, 3)),
        f64=(draw(st.integers(0, 7 if tier == "quick" else 3)) == 0) and key not in NO_F64,
    )
    # without clipping large spreads saturate the softmax (p ~ 1 everywhere): keep the spread moderate there
    unclipped = case["tanh"] == 0.0 or (case["tanh"] is None and key not in ("am", "am_pomo", "symnco", "ham", "polynet",
                                                                           "l2d", "mvmoe", "ptrnet"))
    case["spread"] = draw(st.sampled_from([1.25, 1.5] if unclipped else [1.25, 1.5, 1.5, 2.0, 2.5]))
    if envn in FIXED_LEN and key != "ptrnet" and draw(st.integers(0, 2)) == 0:
        case["stepmask"] = draw(st.lists(st.booleans(), min_size=4, max_size=24))
    return case


def env_cfg(envn, n, variant):
    cfg = small_cfg(envn, n)
    v = int(variant)
    if envn == "pdp":
        cfg["force_start"] = v == 1
    elif envn == "mtsp":
        cfg["cost_type"] = "sum" if v == 1 else "minmax"
    elif envn == "mtvrp":
        cfg["variant"] = ["all", "cvrp", "ovrptw", "vrpbl"][v]
    elif envn in ("cvrp", "sdvrp"):
        cfg["capacity"] = [None, None, 10.0, 20.0][v]
    elif envn == "atsp":
        cfg["tmat"] = v != 1
    return cfg


def minimize(case):
    c = dict(case)
    if c["B"] > 1:
        yield {**c, "B": c["B"] - 1}
        yield {**c, "B": 1}
    if c["n"] > 4:
        yield {**c, "n": c["n"] - 1, "k": min(c["k"], max(2, (c["n"] - 1) // 2 if c["zoo"][1] == "pdp" else c["n"] - 1)) if c["k"] else 0}
    if c["k"] > 2:
        yield {**c, "k": 2}
    for key, val in (("stepmask", None), ("f64", False), ("train", False), ("ret_entropy", False), ("ret_sum", False),
                     ("select_best", False), ("via", "attr"), ("temperature", 1.0), ("tanh", None), ("norm", None),
                     ("variant", 0), ("spread", 1.5), ("pseed", 0)):
        if key == "stepmask":
            if "stepmask" in c:
                yield {kk: vv for kk, vv in c.items() if kk != "stepmask"}
        elif c.get(key) != val:
            yield {**c, key: val}
    if c["mode"] == "sampling":
        yield {**c, "mode": "greedy"}
    if c["mode"] == "multistart_sampling":
        yield {**c, "mode": "multistart_greedy"}


# --------------------------------------------------------------------------- helpers
class Hang(BaseException):
    """Raised by the watchdog (BaseException so that ctx.guard does not turn it into a crash signature)."""


HANG_S = 45  # a toy-size policy call takes ~10-50 ms; decoding loops that never reach `done` would otherwise stall a shard


@contextlib.contextmanager
def watchdog(seconds=HANG_S):
    def handler(signum, frame):
        raise Hang()
    try:
        old = signal.signal(signal.SIGALRM, handler)
    except ValueError:  # not in the main thread: no watchdog
        yield
        return
    signal.setitimer(signal.ITIMER_REAL, seconds)
    try:
        yield
    finally:
        signal.setitimer(signal.ITIMER_REAL, 0)
        signal.signal(signal.SIGALRM, old)


def _close(a, b, tol, scale=1.0, slack=0.0):
    """|a-b| <= tol*scale*(1+|b|) + slack;  slack = K*eps*max|scaled logit| accounts for the float rounding of
    log-softmax / of the logits themselves, which grows with the logit magnitude (material only without clipping)."""
    a, b = a.double(), b.double()
    return bool(((a - b).abs() <= tol * scale * (1 + b.abs()) + slack).all())


def _maxdiff(a, b):
    d = (a.double() - b.double()).abs()
    return float(d.max()) if d.numel() else 0.0


def _defaults(policy):
    if not hasattr(policy, "_vf_defaults"):
        policy._vf_defaults = (getattr(policy, "temperature", 1.0), getattr(policy, "tanh_clipping", 0.0))
    return policy._vf_defaults


# --------------------------------------------------------------------------- main check
def execute(case, ctx):
    key, envn = case["zoo"]
    mode, k, B = case["mode"], int(case["k"]), int(case["B"])
    multistart = mode.startswith("multistart")
    multisample = mode == "multisample"
    f64 = bool(case["f64"])
    slice_ = f"{key}/{envn}|{mode}" + ("|B=1" if (envn == "mtsp" and B == 1) else "")
    ctx.event(f"zoo:{key}/{envn}|{mode}")
    ctx.event(f"mode:{mode}")

    # am/mtsp at B=1 (F7) is repaired in the repository and therefore part of the asserted domain again;
    # am/mtsp with multistart / multisample crashes in MTSPContext (known finding F34): those cases are run,
    # matched by signature against known_findings.json and counted, so the search continues behind them.

    cfg = env_cfg(envn, case["n"], case["variant"])
    if envn == "pdp" and multistart:
        cfg["force_start"] = False  # pickups can only be forced first moves with a free start
    env, inst, td0 = make_batch(envn, cfg, B, case["iseed"], double=f64)
    policy = build_policy(key, envn, env, seed=case["pseed"], spread=case["spread"], double=f64, norm=case["norm"])
    if key == "ptrnet":
        try:
            with watchdog():
                return execute_ptrnet(case, ctx, env, inst, td0, policy, cfg)
        except Hang:
            ctx.violation("hang|ptrnet/tsp", f"policy call did not return within {HANG_S}s at toy size")
            return

    dT, dC = _defaults(policy)
    Tm = float(case["temperature"])
    C = float(dC if case["tanh"] is None else case["tanh"])
    tkw = {}
    if case["via"] == "attr":
        policy.temperature, policy.tanh_clipping = Tm, C
    else:
        policy.temperature, policy.tanh_clipping = dT, dC
        tkw = dict(temperature=Tm, tanh_clipping=C)
    train = bool(case["train"]) and not has_batchnorm(policy) and not INFO[key].get("eval_only", False)
    tol = 1e-9 if f64 else 1e-5
    ctx.event("train_mode" if train else "eval_mode")
    if f64:
        ctx.event("float64")

    # step-relevance mask injected into the reset td (fixed-length envs)
    stepmask = None
    if case.get("stepmask") is not None and envn in FIXED_LEN:
        Tfix = cfg["n"] + (1 if (envn == "pdp" and cfg["force_start"]) else 0)
        bits = case["stepmask"]
        stepmask = torch.tensor([[bits[(b * Tfix + t) % len(bits)] for t in range(Tfix)] for b in range(B)],
                                dtype=torch.bool)
        td0 = td0.clone()
        td0.set("mask", stepmask)
        ctx.event("stepmask_injected")

    # multistart: forced start nodes must be feasible at reset (otherwise C12's business)
    if multistart:
        torch.manual_seed(case["tseed"])
        a0 = ctx.guard(env.select_start_nodes, td0.clone(), num_starts=k, what=f"select_start_nodes|{envn}")
        m0 = expand_starts(td0, k)["action_mask"]
        if a0.shape[0] != m0.shape[0] or int(a0.max()) >= m0.shape[1] or int(a0.min()) < 0 \
                or not bool(m0.gather(1, a0.view(-1, 1)).all()):
            ctx.exclude("forced_start_infeasible(C12)")
            return

    kw = dict(return_actions=True, return_sum_log_likelihood=bool(case["ret_sum"]),
              return_entropy=bool(case["ret_entropy"]), **tkw)
    if multisample:
        kw.update(decode_type="sampling", num_samples=k)  # num_starts=k would imply multistart
    else:
        kw.update(decode_type=mode)
        if multistart:
            kw.update(num_starts=k)
            if case["select_best"]:
                kw.update(select_best=True)
    select_best = multistart and bool(case["select_best"])

    kw["max_steps"] = 6 * case["n"] + 24  # documented safety valve of forward(); far above any episode length here
    policy.train(train)
    try:
        with watchdog():
            _run(case, ctx, env, inst, td0, policy, cfg, kw, tkw, slice_, tol, Tm, C, stepmask, select_best)
    except Hang:
        ctx.violation(f"hang|{slice_}", f"policy call / re-evaluation did not return within {HANG_S}s at toy size")
    finally:
        policy.eval()
        policy.temperature, policy.tanh_clipping = dT, dC


def _run(case, ctx, env, inst, td0, policy, cfg, kw, tkw, slice_, tol, Tm, C, stepmask, select_best):
    key, envn = case["zoo"]
    mode, k, B = case["mode"], int(case["k"]), int(case["B"])
    multistart = mode.startswith("multistart")
    multisample = mode == "multisample"
    ksteps = k if (multistart or multisample) else 0

    torch.manual_seed(case["tseed"])
    with torch.no_grad():
        out = ctx.guard(policy, td0.clone(), env, what=f"policy|{slice_}", **kw)
    A = out["actions"]
    R = B if (select_best or ksteps == 0) else B * k
    T = A.shape[1]
    ll = out["log_likelihood"]
    ctx.check(A.shape[0] == R and out["reward"].reshape(-1).shape[0] == R and ll.shape[0] == R
              and (ll.dim() == 1 if case["ret_sum"] else tuple(ll.shape) == (R, T)),
              f"shape|{slice_}", f"actions {tuple(A.shape)} ll {tuple(ll.shape)} reward {tuple(out['reward'].shape)} for R={R}")

    # ---- Oracle 1: reference loop on the returned actions
    if select_best:
        # best start per instance: steps >= 1 are ordinary decoding steps of the un-expanded batch
        ref = reference_logprobs(policy, env, td0, A, num_starts=0, temperature=Tm, tanh_clipping=C)
        want = ref.logp.clone()
        want[:, 0] = 0.0
        ent_steps = ref.entropy.clone()
        ent_steps[:, 0] = 0.0
        forced0 = True
    else:
        ref = reference_logprobs(policy, env, td0, A, num_starts=ksteps, forced_first=multistart, temperature=Tm,
                                 tanh_clipping=C)
        want = ref.logp
        ent_steps = ref.entropy
        forced0 = multistart
    ctx.check(bool(ref.in_mask.all()), f"action_outside_mask|{slice_}", "a returned action was not in the action mask",
              {"actions": A, "in_mask": ref.in_mask})
    ctx.check(ref.mask_ok, f"decoder_mask_mismatch|{slice_}", "decoder-returned mask differs from td['action_mask']")
    # (with select_best the kept starts may all finish before the slowest discarded start did)
    ctx.check(ref.all_done_at is not None and (ref.all_done_at == T or (select_best and ref.all_done_at <= T)),
              f"episode_length|{slice_}",
              f"returned {T} steps but replaying them finishes every row after {ref.all_done_at}")
    smask = None
    if stepmask is not None:
        if "mask" not in ref.td.keys():
            ctx.exclude("stepmask_dropped_by_env")
        else:
            smask = stepmask if R == B else expand_starts(td0, k)["mask"]
            ctx.check(torch.equal(ref.td["mask"], smask), f"stepmask_changed|{envn}", "env.step altered the injected mask key")
            want = torch.where(smask, want, torch.zeros_like(want))
    T_scale = max(1, T)
    eps = 2.0 ** -52 if tol < 1e-8 else 2.0 ** -23
    sl1 = 8 * eps * ref.scale      # same logits, float log-softmax only
    if case["ret_sum"]:
        ok = _close(ll, want.sum(1), tol, T_scale, sl1.sum(1))
    else:
        ok = _close(ll, want, tol, 1.0, sl1)
    if not ok:
        ctx.violation(f"ll_vs_reference|{slice_}|{'sum' if case['ret_sum'] else 'steps'}",
                      f"returned log-likelihood differs from the reference log-probs of the returned actions by "
                      f"{_maxdiff(ll, want.sum(1) if case['ret_sum'] else want):.3e}",
                      {"ll": ll, "reference": want, "actions": A})
    if not case["ret_sum"]:
        if forced0:
            ctx.check(bool((ll[:, 0] == 0).all()), f"forced_start_nonzero|{slice_}",
                      "forced multistart first move contributes a non-zero log-prob", {"ll0": ll[:, 0]})
        if smask is not None:
            ctx.check(bool((ll[~smask] == 0).all()), f"irrelevant_step_nonzero|{slice_}",
                      "a step flagged irrelevant contributes a non-zero log-prob", {"ll": ll, "mask": smask})
    if case["ret_entropy"]:
        ctx.check(_close(out["entropy"], ent_steps.sum(1), tol, T_scale, 4 * sl1.sum(1)), f"entropy_vs_reference|{slice_}",
                  f"returned entropy differs from the reference by {_maxdiff(out['entropy'], ent_steps.sum(1)):.3e}",
                  {"entropy": out["entropy"], "reference": ent_steps.sum(1)})

    # reward: env.get_reward on the independently replayed final state, and the independent objective
    rew = out["reward"].reshape(-1)
    r2 = ctx.guard(env.get_reward, ref.td.clone(), A.clone(), what=f"get_reward|{envn}").reshape(-1)
    ctx.check(_close(rew, r2, 1e-6 if tol > 1e-8 else 1e-12), f"reward_vs_get_reward|{slice_}",
              f"returned reward differs from env.get_reward(final td, actions) by {_maxdiff(rew, r2):.3e}")
    spec = SPECS[envn]
    if spec.routing:
        jcase = {"env": envn, "cfg": cfg, "src": "gen"}
        for r in range(R):
            row = py_instance(envn, inst[r % B])
            acts = A[r].tolist()
            v = judge_row(jcase, spec, row, acts)
            if violated(jcase, v, padded=True):
                ctx.event("infeasible_row_skipped(C01)")
                continue
            if abs(float(rew[r]) - v.obj) > 1e-5 * (1 + abs(v.terms)):
                ctx.violation(f"reward_vs_objective|{key}/{envn}", f"reward {float(rew[r])} != objective {v.obj} (row {r})",
                              {"row": r, "actions": acts, "instance": row})

    # ---- Oracle 2: evaluate round trip (PPO: actions=..., return_entropy=True, return_sum_log_likelihood=False)
    ekw = dict(actions=A.clone(), return_entropy=True, return_sum_log_likelihood=False, **tkw)
    do_rt, ref_eval = True, ref
    if multisample:
        td_eval, first = td0.clone(), 0
        ekw.update(num_samples=k)
    elif multistart and not select_best:
        td_eval, first = expand_starts(td0, k), 1
        if key == "polynet":
            do_rt = False  # PolyNet's strategy vector depends on the start index (by design)
            ctx.event("roundtrip_skipped(polynet multistart)")
        else:
            ref_eval = reference_logprobs(policy, env, td_eval, A, num_starts=0, temperature=Tm, tanh_clipping=C)
    else:
        td_eval, first = td0.clone(), (1 if select_best else 0)
    if do_rt:
        # the evaluate loop stops once every row is done: with select_best the kept starts may need fewer steps (Te)
        # than the slowest discarded start; the trailing steps of the generating call are judged by Oracle 1 only
        Te = ref.all_done_at if select_best else T
        ekw["actions"] = A[:, :Te].clone()
        ekw["max_steps"] = Te  # the loop breaks once step > max_steps: exactly Te steps are allowed
        with torch.no_grad():
            out2 = ctx.guard(policy, td_eval, env, what=f"policy_evaluate|{slice_}", **ekw)
        ll2 = out2["log_likelihood"]
        ctx.check(tuple(ll2.shape) == (A.shape[0], Te), f"evaluate_shape|{slice_}",
                  f"evaluate returned log-likelihood of shape {tuple(ll2.shape)} for actions {tuple(A[:, :Te].shape)}")
        ctx.check(torch.equal(out2["actions"], A[:, :Te]), f"evaluate_actions|{slice_}",
                  "evaluate mode did not return the provided actions")
        lp_e, ent_e, scale_e = ref_eval.logp[:, :Te], ref_eval.entropy[:, :Te], ref_eval.scale[:, :Te]
        want2 = lp_e if smask is None else torch.where(smask[:, :Te], lp_e, torch.zeros_like(lp_e))
        # generating call and re-evaluation use different batch layouts for multistart outputs ([B,S,..] vs [S*B,..]):
        # float32 rounding differs between layouts and is amplified by the spread-initialised encoders (measured up to
        # 5e-4 on the 6-layer instance-norm POMO config at n=4, spread 2.5; the same case agrees to 1e-9 in float64).
        # float32 cross-layout comparisons therefore use 1e-3 (wrong-layout defects are O(1)); the float64 slice
        # asserts 1e-9.  Same-layout round trips (greedy / sampling / multisample) keep 1e-5.
        tolx = tol if first == 0 else (1e-9 if tol < 1e-8 else 1e-3)
        sl2 = 8 * eps * scale_e
        slx = 32 * eps * scale_e  # across batch layouts the logits themselves differ by rounding
        if not _close(ll2, want2, tol, 1.0, sl2):
            ctx.violation(f"evaluate_vs_reference|{slice_}",
                          f"evaluate-mode log-probs differ from the reference by {_maxdiff(ll2, want2):.3e}",
                          {"ll_eval": ll2, "reference": want2, "actions": A})
        # round trip against the generating call
        tail = want[:, Te:].sum(1)  # reference log-probs of the steps the evaluate loop no longer takes
        if case["ret_sum"]:
            old_sum = ll.double() - tail
        else:
            old_sum = ll.double()[:, :Te].sum(1)
            if not _close(ll2[:, first:], ll[:, first:Te], tolx, 1.0, slx[:, first:]):
                ctx.violation(f"roundtrip_steps|{slice_}",
                              f"re-evaluating the returned actions changes per-step log-probs by "
                              f"{_maxdiff(ll2[:, first:], ll[:, first:Te]):.3e}", {"ll": ll, "ll_eval": ll2})
        new_sum = ll2.double()[:, first:].sum(1)
        ratio = torch.exp(new_sum - old_sum)
        ctx.check(bool(((ratio - 1).abs() <= tolx * T_scale * (1 + old_sum.abs()) + 2 * slx[:, first:].sum(1)).all()),
                  f"ppo_ratio|{slice_}",
                  f"exp(ll_new - ll_old) = {ratio.tolist()} != 1", {"ll_old": old_sum, "ll_new": new_sum})
        ctx.check(_close(out2["reward"].reshape(-1), rew, 1e-6 if tol > 1e-8 else 1e-12), f"roundtrip_reward|{slice_}",
                  "evaluate mode returned a different reward for the same actions")
        ent_ref2 = ent_e.sum(1)
        ctx.check(_close(out2["entropy"], ent_ref2, tol, T_scale, 4 * sl2.sum(1)), f"evaluate_entropy_vs_reference|{slice_}",
                  f"evaluate-mode entropy differs from the reference by {_maxdiff(out2['entropy'], ent_ref2):.3e}")
        if case["ret_entropy"]:
            e_old = out["entropy"].double() - ent_steps[:, Te:].sum(1)
            e_new = out2["entropy"].double() - (ent_e[:, 0] if first == 1 else 0.0)
            ctx.check(_close(e_new, e_old, tolx, T_scale, 4 * slx.sum(1)), f"roundtrip_entropy|{slice_}",
                      f"evaluate-mode entropy differs from the generating call by {_maxdiff(e_new, e_old):.3e}")
        ctx.event("roundtrip_done")

    # ---- coverage bookkeeping
    decoded = ~ref.forced.view(1, -1).expand(ref.nfeas.shape[0], T)
    if select_best:
        decoded = decoded.clone()
        decoded[:, 0] = False
    multi = (ref.nfeas >= 2) & decoded
    n_multi = int(multi.sum())
    ctx.event("steps_multi_choice", n_multi)
    ctx.event("steps_decisive", int((ref.decisive() & multi).sum()))
    ctx.event("steps_saturated(p>1-1e-6)", int(((ref.logp > -1e-6) & multi).sum()))
    rich = bool((multi.sum(1) >= 2).any())
    varlen = envn in VARLEN
    differ = bool(ref.done_at.min() != ref.done_at.max())
    if varlen and differ:
        ctx.event("rows_finish_at_different_steps")
    if rich and (not varlen or ref.done_at.shape[0] < 2 or differ):
        ctx.nontriv()
    ctx.sample({"zoo": case["zoo"], "mode": mode, "k": k, "B": B, "n": case["n"], "T": T,
                "actions_row0": A[0].tolist(), "ll_row0": (ll[0].tolist() if ll.dim() == 2 else float(ll[0]))})


def execute_ptrnet(case, ctx, env, inst, td0, policy, cfg):
    """PointerNetworkPolicy: own loop; sampling/greedy; evaluate through `eval_tours`; summed log-likelihood only."""
    mode = "greedy" if case["mode"] == "greedy" else "sampling"
    slice_ = f"ptrnet/tsp|{mode}"
    phase = "train" if case["train"] else "test"
    tol = 1e-5
    ctx.event("train_mode" if case["train"] else "eval_mode")
    torch.manual_seed(case["tseed"])
    with torch.no_grad():
        out = ctx.guard(policy, td0.clone(), env, phase=phase, decode_type=mode, what=f"policy|{slice_}")
        A = out["actions"]
        B, T = A.shape
        ref = reference_ptrnet(policy, td0, A)
        ctx.check(bool(ref.in_mask.all()), f"action_outside_mask|{slice_}", "a node was selected twice", {"actions": A})
        ll = out["log_likelihood"]
        ctx.check(tuple(ll.shape) == (B,), f"shape|{slice_}", f"log-likelihood shape {tuple(ll.shape)}")
        if not _close(ll, ref.logp.sum(1), tol, T, (8 * 2.0 ** -23 * ref.scale).sum(1)):
            ctx.violation(f"ll_vs_reference|{slice_}|sum",
                          f"returned log-likelihood differs from the reference by {_maxdiff(ll, ref.logp.sum(1)):.3e}",
                          {"ll": ll, "reference": ref.logp.sum(1), "actions": A})
        out2 = ctx.guard(policy, td0.clone(), env, phase=phase, eval_tours=A.clone(), what=f"policy_evaluate|{slice_}")
        ctx.check(torch.equal(out2["actions"], A), f"evaluate_actions|{slice_}", "eval_tours not returned as actions")
        ratio = torch.exp(out2["log_likelihood"].double() - ll.double())
        ctx.check(bool(((ratio - 1).abs() <= tol * T).all()), f"ppo_ratio|{slice_}", f"exp(ll_new-ll_old)={ratio.tolist()}")
        ctx.check(_close(out2["reward"], out["reward"], 1e-6), f"roundtrip_reward|{slice_}", "reward changed on re-evaluation")
    policy.eval()
    spec = SPECS["tsp"]
    jcase = {"env": "tsp", "cfg": cfg, "src": "gen"}
    for r in range(B):
        v = judge_row(jcase, spec, py_instance("tsp", inst[r]), A[r].tolist())
        ctx.check(abs(float(out["reward"][r]) - v.obj) <= 1e-5 * (1 + abs(v.terms)), "reward_vs_objective|ptrnet/tsp",
                  f"reward {float(out['reward'][r])} != objective {v.obj}")
    multi = ref.nfeas >= 2
    ctx.event("steps_multi_choice", int(multi.sum()))
    ctx.event("steps_decisive", int((ref.decisive() & multi).sum()))
    ctx.event("roundtrip_done")
    ctx.nontriv()


# --------------------------------------------------------------------------- get_log_likelihood as a pure function
@st.composite
def gll_cases(draw, tier="quick"):
    B = draw(st.integers(1, 4))
    T = draw(st.integers(1, 6))
    N = draw(st.integers(1, 5))
    three = draw(st.booleans())
    val = st.integers(-160, 0).map(lambda v: v / 8.0)
    acts = [[draw(st.integers(0, N - 1)) for _ in range(T)] for _ in range(B)]
    has_mask = draw(st.booleans())
    mask = [[draw(st.booleans()) for _ in range(T)] for _ in range(B)] if has_mask else None
    if three:
        lp = [[[draw(st.one_of(val, st.just("-inf"))) for _ in range(N)] for _ in range(T)] for _ in range(B)]
    else:
        lp = [[draw(st.one_of(val, st.just("-inf"))) for _ in range(T)] for _ in range(B)]
    # selected entries of relevant steps must be finite (documented assertion)
    for b in range(B):
        for t in range(T):
            relevant = mask is None or mask[b][t]
            if three:
                if relevant and lp[b][t][acts[b][t]] == "-inf":
                    lp[b][t][acts[b][t]] = draw(val)
            elif relevant and lp[b][t] == "-inf":
                lp[b][t] = draw(val)
    return dict(B=B, T=T, N=N, three=three, lp=lp, actions=acts, mask=mask, ret_sum=draw(st.booleans()),
                dtype=draw(st.sampled_from(["f32", "f64"])), give_actions=draw(st.booleans()))


def _tofloat(x):
    if isinstance(x, list):
        return [_tofloat(v) for v in x]
    return -math.inf if x == "-inf" else float(x)


def execute_gll(case, ctx):
    from rl4co.utils.decoding import get_log_likelihood

    dt = torch.float32 if case["dtype"] == "f32" else torch.float64
    lp = torch.tensor(_tofloat(case["lp"]), dtype=dt)
    A = torch.tensor(case["actions"], dtype=torch.long)
    mask = None if case["mask"] is None else torch.tensor(case["mask"], dtype=torch.bool)
    three = case["three"]
    give = case["give_actions"] or three
    got = ctx.guard(get_log_likelihood, lp.clone(), A.clone() if give else None, None if mask is None else mask.clone(),
                    case["ret_sum"], what="get_log_likelihood")
    B, T = A.shape
    want = torch.zeros(B, T, dtype=torch.float64)
    for b in range(B):
        for t in range(T):
            if mask is not None and not case["mask"][b][t]:
                continue
            v = case["lp"][b][t][case["actions"][b][t]] if three else case["lp"][b][t]
            want[b, t] = float(v)
    sl = f"{'3d' if three else '2d'}|{'mask' if mask is not None else 'nomask'}|{'sum' if case['ret_sum'] else 'steps'}"
    ctx.event(sl)
    if case["ret_sum"]:
        ctx.check(tuple(got.shape) == (B,), f"gll_shape|{sl}", f"shape {tuple(got.shape)} for B={B},T={T}")
        ctx.check(bool(((got.double() - want.sum(1)).abs() <= 1e-5 * (1 + want.abs().sum(1))).all()), f"gll_value|{sl}",
                  "summed log-likelihood is not the sum of the gathered, unmasked step log-probs",
                  {"got": got, "want": want.sum(1)})
    else:
        ctx.check(tuple(got.shape) == (B, T), f"gll_shape|{sl}", f"shape {tuple(got.shape)} for B={B},T={T}")
        ctx.check(bool((got.double() == want).all()), f"gll_value|{sl}",
                  "per-step log-likelihood is not the gathered log-prob (exactly 0 at irrelevant steps)",
                  {"got": got, "want": want})
    if mask is not None and (~mask).any() and mask.any() and T >= 2:
        ctx.nontriv()
    ctx.sample({k_: case[k_] for k_ in ("B", "T", "N", "three", "ret_sum", "mask")})


SUBS = [
    Sub("policies", execute, strategy=lambda tier: cases(tier), budget={"quick": 1600, "thorough": 12000}, shards=16,
        shrink=False, minimize=minimize, weight=2.0),
    Sub("get_log_likelihood", execute_gll, strategy=lambda tier: gll_cases(tier),
        budget={"quick": 1500, "thorough": 20000}, shards=4, shrink=True),
]
